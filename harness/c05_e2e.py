"""C05 -- end-to-end oracle on the implementation (testing, not proof).

Statement checked here: for every bundled schema that passes the compliance check, and for every schema obtained
from one by adding, removing or re-attributing nodes, units, classes and descriptions within the character classes
the schema rules allow, saving to XML, MediaWiki or TSV (merged and, for partnered libraries, unmerged) and loading
the result gives a schema equal to the original; the three formats agree with one another; the saved XML, read by
an independent XML reader (xml.etree, no hed code), lists exactly the original nodes, attributes, values and
descriptions.  A schema merged from several libraries refuses to save.

Edits are applied to the XML *text* with xml.etree.ElementTree, independently of hed-python.  "Inside the allowed
class" is decided by hed's own compliance check: an edit counts iff it introduces no compliance issue that the
unedited schema did not already have.

Public entry points: CORPUS, bundled, gen_cases, run_case, run_multilib.
"""
import collections
import copy
import os
import random
import shutil
import time
import traceback
import xml.etree.ElementTree as ET

from harness import common as C
from harness import c05_codec as K

PROP = "C05"

# stand-alone legacy libraries: `inLibrary` is not declared there, the TSV writer raises AttributeError (expected)
LEGACY_LIBS = ("HED_score_1.0.0.xml", "HED_testlib_1.0.2.xml")
QUICK_BUNDLED = ["HED8.3.0.xml", "HED_score_2.0.0.xml", "HED_testlib_2.0.0.xml"] + list(LEGACY_LIBS)

# known findings (descriptions inside the allowed class for which a writer/reader pair is not inverse)
F1, F2, F3 = "C05-F1", "C05-F2", "C05-F3"
# VERIF_C05_FIXED=1 (default): the code under test carries fix commits 4719ff8 (F1), 394565c (F2), 784517a (F3), 8fb8446 (F4).  F1, F2, F4 and the
# 'extend here' half of F3 are then ordinary violations; what stays a registered finding is the rest of F3
# (<nowiki> / </nowiki> inside a description are deleted by the MediaWiki reader).  VERIF_C05_FIXED=0 is the
# oracle for the unrepaired code with all four finding classes.
FIXED = int(os.environ.get("VERIF_C05_FIXED", "1"))
FIXED5 = K.FIXED5      # VERIF_C05_FIXED_F5 (default 1, fix 4b4f5c6 is in /repo): without fix-F5 a name ending in a non-ASCII blank is C05-F5
F5 = "C05-F5"
FIXED7 = K.FIXED7      # VERIF_C05_FIXED_F7 (default 1: fix commit f2636f2 is in /repo)
F7 = "C05-F7"     # merged MediaWiki save: a library node rooted in a tree without extensionAllowed reloads under a wrong parent
F8 = "C05-F8"     # repaired by b5f4533: before it a TSV location named *.TSV / *.Tsv could not be loaded back
F6 = "C05-F6"     # a name holding a tab or line feed (allowedCharacter=tab/newline): no TSV cell / MediaWiki line can hold it
WIKI_RESERVED = ("<nowiki>", "</nowiki>") if FIXED else ("extend here", "<nowiki>", "</nowiki>")

# Defect classes found by this oracle that are not (yet) registered findings.  Failures of such a class carry
# fid None plus a key "candidate"; adding the id to PROMOTED turns the candidate id into the fid.
PROMOTED = set() if FIXED else {"C05-F4"}   # ids registered in known_findings.json

SECTIONS = ("tags", "unit_classes", "units", "unit_modifiers", "value_classes", "attributes", "properties")

# section element -> (definition element, attribute element)
SEC = {
    "schema": ("node", "attribute"),
    "unitClassDefinitions": ("unitClassDefinition", "attribute"),
    "unitModifierDefinitions": ("unitModifierDefinition", "attribute"),
    "valueClassDefinitions": ("valueClassDefinition", "attribute"),
    "schemaAttributeDefinitions": ("schemaAttributeDefinition", "property"),
    "propertyDefinitions": ("propertyDefinition", "property"),
}
DEF_TAGS = {"node", "unit", "unitClassDefinition", "unitModifierDefinition", "valueClassDefinition",
            "schemaAttributeDefinition", "propertyDefinition"}
LISTING_KIND = {"schema": "tag", "unitClassDefinitions": "unitClass", "unitModifierDefinitions": "unitModifier",
                "valueClassDefinitions": "valueClass", "schemaAttributeDefinitions": "attribute",
                "propertyDefinitions": "property"}


def data_dir(repo=None):
    return os.path.join(repo or C.REPO, "hed/schema/schema_data")


def bundled(repo=None):
    """File names of the bundled XML schemas."""
    return sorted(f for f in os.listdir(data_dir(repo)) if f.endswith(".xml"))


# =====================================================================================================
# independent XML reading: element helpers, edit primitives, canonical listing
# =====================================================================================================

def _name(el):
    n = el.find("name")
    return n.text if n is not None else None


def _desc(el):
    d = el.find("description")
    return (d.text or None) if d is not None else None


def _attr_elems(el):
    return [a for a in el if a.tag in ("attribute", "property")]


def _attrs(el):
    """[(name, [values...])] in document order."""
    return [[_name(a), [v.text or "" for v in a.findall("value")]] for a in _attr_elems(el)]


def _defs(el):
    return [c for c in el if c.tag in DEF_TAGS]


def _find(root, sec, path):
    el = root.find(sec)
    for nm in path:
        nxt = None
        for c in _defs(el):
            if _name(c) == nm:
                nxt = c
                break
        if nxt is None:
            raise KeyError(f"{sec}:{'/'.join(path)}")
        el = nxt
    return el


def _build(spec, attr_tag):
    el = ET.Element(spec["tag"])
    ET.SubElement(el, "name").text = spec["name"]
    if spec.get("desc"):
        ET.SubElement(el, "description").text = spec["desc"]
    for an, vals in spec.get("attrs", []):
        a = ET.SubElement(el, attr_tag)
        ET.SubElement(a, "name").text = an
        for v in vals:
            ET.SubElement(a, "value").text = v
    for ch in spec.get("children", []):
        el.append(_build(ch, attr_tag))
    return el


def apply_op(root, op):
    """Apply one edit primitive to an ElementTree root (used by the generator and by run_case alike)."""
    sec = op["sec"]
    attr_tag = SEC[sec][1]
    kind = op["op"]
    if kind == "add":
        parent = _find(root, sec, op["path"])
        new = _build(op["elem"], attr_tag)
        sibs = _defs(parent)
        at = op.get("at")
        if at is None or at >= len(sibs):
            parent.append(new)
        else:
            parent.insert(list(parent).index(sibs[at]), new)
    elif kind == "remove":
        parent = _find(root, sec, op["path"][:-1])
        parent.remove(_find(root, sec, op["path"]))
    elif kind == "desc":
        el = _find(root, sec, op["path"])
        d = el.find("description")
        if op["desc"] is None:
            if d is not None:
                el.remove(d)
        else:
            if d is None:
                d = ET.Element("description")
                el.insert(list(el).index(el.find("name")) + 1, d)
            d.text = op["desc"]
    elif kind == "attrs":
        el = _find(root, sec, op["path"])
        for a in _attr_elems(el):
            el.remove(a)
        pos = 1 + max(list(el).index(x) for x in (el.find("name"), el.find("description")) if x is not None)
        for an, vals in op["attrs"]:
            a = ET.Element(attr_tag)
            ET.SubElement(a, "name").text = an
            for v in vals:
                ET.SubElement(a, "value").text = v
            el.insert(pos, a)
            pos += 1
    else:
        raise ValueError(kind)


def _item(kind, key, el, norm=False):
    d = _desc(el)
    if norm and d is not None:
        d = d.strip() or None
    return (kind, key, d, tuple(sorted((a, tuple(v)) for a, v in _attrs(el))))


def listing(root, norm_desc=False, norm_name=False):
    """Canonical listing of a schema XML tree, computed without hed: header, prologue, epilogue and a multiset of
    (section kind, key, description or None, sorted ((attribute, (values...)), ...)).
    norm_desc (only for the EXPECTATION derived from an edit, never for the saved file): outer white space is not
    part of a description, a description of white space only is absent (the rule all three readers follow since
    the repair of C05-F1)."""
    items = collections.Counter()
    # norm_name (expectation side only, since fix commit 4b4f5c6): outer white space is not part of a name either
    nn = (lambda x: x.strip() if isinstance(x, str) else x) if norm_name else (lambda x: x)  # noqa
    _item_ = lambda k, key, el: _item(k, tuple(nn(x) for x in key), el, norm_desc)  # noqa

    def walk(el, path):
        for n in el.findall("node"):
            p = path + (_name(n),)
            items[_item_("tag", p, n)] += 1
            walk(n, p)
    sch = root.find("schema")
    if sch is not None:
        walk(sch, ())
    for sec, (deft, _) in SEC.items():
        if sec == "schema":
            continue
        s = root.find(sec)
        if s is None:
            continue
        for d in s.findall(deft):
            items[_item_(LISTING_KIND[sec], (_name(d),), d)] += 1
            if sec == "unitClassDefinitions":
                for u in d.findall("unit"):
                    items[_item_("unit", (_name(d), _name(u)), u)] += 1
    pro, epi = root.find("prologue"), root.find("epilogue")
    return {"header": dict(root.attrib),
            "prologue": ((pro.text or "") if pro is not None else "").strip(),
            "epilogue": ((epi.text or "") if epi is not None else "").strip(),
            "items": items}


def _drop_attr(item, name):
    return item[:3] + (tuple(a for a in item[3] if a[0] != name),)


def _add_attr(item, name, values):
    return item[:3] + (tuple(sorted(item[3] + ((name, tuple(values)),))),)


def _has_attr(item, name):
    return any(a[0] == name for a in item[3])


def _get_attr(item, name):
    for a in item[3]:
        if a[0] == name:
            return a[1]
    return None


def expected_listing(lst, base, merged, partnered, lib, std_listing=None):
    """The listing a save must show, derived from the listing `lst` of the edit's own tree by the rules of the
    statement (the writer is not consulted):

      * `inLibrary` never appears in an unmerged save nor in a save of a standard / stand-alone schema; in a
        merged save of a partnered library it appears on exactly the library entries;
      * an unmerged save lists the library entries only: library sub-trees hang from the top level, the topmost
        node keeping its `rooted` attribute when it was attached below a node of the standard schema; a standard
        unit class that received library units is listed by name only, followed by those units;
      * a merged save lists the standard schema (std_listing, read from the bundled standard XML) plus the library
        entries, rooted sub-trees re-attached below their target;
      * header: attributes unchanged, `unmerged="True"` present exactly on unmerged saves.
    """
    hdr = {k: v for k, v in lst["header"].items() if k != "unmerged"}
    out = {"prologue": lst["prologue"], "epilogue": lst["epilogue"]}
    items = collections.Counter()
    if not partnered:
        for it, n in lst["items"].items():
            items[_drop_attr(it, "inLibrary")] += n
    elif base == "merged" and merged:
        items = collections.Counter(lst["items"])
    elif base == "unmerged" and not merged:
        items = collections.Counter(lst["items"])
    elif base == "merged" and not merged:
        libpaths = {it[1] for it in lst["items"] if it[0] == "tag" and _has_attr(it, "inLibrary")}
        for it, n in lst["items"].items():
            kind, key = it[0], it[1]
            if kind == "tag":
                if not _has_attr(it, "inLibrary"):
                    continue
                k = 0
                while key[:k + 1] not in libpaths:      # strip the ancestors that belong to the standard schema
                    k += 1
                items[_drop_attr(("tag", key[k:]) + it[2:], "inLibrary")] += n
            elif kind == "unitClass":
                if _has_attr(it, "inLibrary"):
                    items[_drop_attr(it, "inLibrary")] += n
                elif any(u[0] == "unit" and u[1][0] == key[0] and _has_attr(u, "inLibrary") for u in lst["items"]):
                    items[("unitClass", key, None, ())] += n
            elif _has_attr(it, "inLibrary"):
                items[_drop_attr(it, "inLibrary")] += n
    else:  # unmerged base, merged save
        items = collections.Counter(std_listing["items"])
        std_short = {}
        for it in std_listing["items"]:
            if it[0] == "tag":
                std_short[it[1][-1]] = it[1]
        std_classes = {it[1][0] for it in std_listing["items"] if it[0] == "unitClass"}
        roots = {}
        for it in lst["items"]:
            if it[0] == "tag" and len(it[1]) == 1 and _has_attr(it, "rooted"):
                roots[it[1][0]] = std_short.get(_get_attr(it, "rooted")[0], ("?unknown-root",))
        for it, n in lst["items"].items():
            kind, key = it[0], it[1]
            if kind == "tag":
                key = roots.get(key[0], ()) + key
            elif kind == "unitClass" and key[0] in std_classes and it[2] is None and not it[3]:
                continue
            items[_add_attr((kind, key) + it[2:], "inLibrary", [lib])] += n
        hdr = dict(hdr)
    if not merged:
        hdr["unmerged"] = "True"
    out["header"] = hdr
    out["items"] = items
    return out


def _fmt_item(it):
    return f"{it[0]}:{'/'.join(it[1])} desc={it[2]!r} attrs={list(it[3])!r}"[:220]


def compare_listing(exp, got):
    """[] when equal, else short descriptions of what differs."""
    out = []
    if exp["header"] != got["header"]:
        out.append(f"header expected {exp['header']} got {got['header']}"[:300])
    for k in ("prologue", "epilogue"):
        if exp[k] != got[k]:
            out.append(f"{k} differs: expected {exp[k][:60]!r}.. got {got[k][:60]!r}..")
    missing = exp["items"] - got["items"]
    extra = got["items"] - exp["items"]
    if missing or extra:
        ms = sorted(missing, key=repr)
        xs = sorted(extra, key=repr)
        out.append(f"{sum(missing.values())} expected item(s) not listed, {sum(extra.values())} unexpected; "
                   + "; ".join(["missing " + _fmt_item(i) for i in ms[:2]] + ["extra " + _fmt_item(i) for i in xs[:2]]))
    return out


# =====================================================================================================
# per-process context: base texts, pools for the generator, compliance baseline
# =====================================================================================================

_CTX = {}
_BASE_ISSUES = {}
_STD_LISTING = {}


class _Ctx:
    pass


def ctx_for(schema, base):
    key = (C.REPO, schema, base)
    if key in _CTX:
        return _CTX[key]
    c = _Ctx()
    c.schema, c.base = schema, base
    c.path = os.path.join(data_dir(), schema)
    with open(c.path, encoding="utf-8") as f:
        c.file_text = f.read()
    c.merged_root = ET.fromstring(c.file_text)
    hdr = c.merged_root.attrib
    c.lib = hdr.get("library", "")
    c.with_std = hdr.get("withStandard", "")
    c.partnered = bool(c.with_std)
    c.legacy_lib = schema in LEGACY_LIBS
    if base == "unmerged":
        from hed.schema import load_schema
        c.text = load_schema(c.path).get_as_xml_string(False)
        c.root = ET.fromstring(c.text)
    else:
        c.text = c.file_text
        c.root = c.merged_root
    props = {_name(p) for p in c.merged_root.find("propertyDefinitions").findall("propertyDefinition")}
    c.new_era = "elementDomain" in props
    decl = {}
    for a in c.merged_root.find("schemaAttributeDefinitions").findall("schemaAttributeDefinition"):
        decl[_name(a)] = {_name(p) for p in a.findall("property")}
    c.decl = decl
    if c.new_era:
        def dom(d, rng_=None):
            return sorted(n for n, p in decl.items() if d in p and (rng_ is None or rng_ in p))
        c.tag_bool = [n for n in dom("tagDomain", "boolRange") if n != "takesValue"]
        c.tag_ref = [n for n in dom("tagDomain", "tagRange") if n != "rooted"]
        c.unit_bool = dom("unitDomain", "boolRange")
        c.mod_bool = dom("unitModifierDomain", "boolRange")
    else:
        non_tag = {"unitClassProperty", "unitProperty", "unitModifierProperty", "valueClassProperty",
                   "elementProperty"}
        tag_attrs = sorted(n for n, p in decl.items() if not (p & non_tag))
        c.tag_bool = [n for n in tag_attrs if "boolProperty" in decl[n] and n != "takesValue"]
        c.tag_ref = [n for n in tag_attrs if n in ("relatedTag", "suggestedTag")]
        c.unit_bool = sorted(n for n, p in decl.items() if "unitProperty" in p and "boolProperty" in p)
        c.mod_bool = sorted(n for n, p in decl.items() if "unitModifierProperty" in p and "boolProperty" in p)
    c.has_cf = "conversionFactor" in decl
    c.has_rooted = "rooted" in decl
    _CTX[key] = c
    return c


def std_listing_for(with_std):
    """Listing of the bundled standard schema a partnered library sits on (independent reader)."""
    key = (C.REPO, with_std)
    if key not in _STD_LISTING:
        p = os.path.join(data_dir(), f"HED{with_std}.xml")
        _STD_LISTING[key] = listing(ET.parse(p).getroot()) if os.path.exists(p) else None
    return _STD_LISTING[key]


def _issue_keys(issues, legacy_lib=False):
    """Multiset of message-free issue keys.  In the two legacy stand-alone libraries `inLibrary` is not declared, so
    the bundled file already carries one 'inLibrary ... was not defined' warning per entry; the same warning on an
    added entry is that pre-existing condition, not something the edit introduced."""
    if legacy_lib:
        issues = [i for i in issues if not (i.get("code") == "SCHEMA_ATTRIBUTE_INVALID"
                                            and str(i.get("message", "")).startswith("Attribute 'inLibrary' used by"))]
    return collections.Counter((i.get("code"), str(i.get("ec_section")), str(i.get("ec_schema_tag")),
                                str(i.get("ec_attribute"))) for i in issues)


def base_issues(schema, base):
    key = (C.REPO, schema, base)
    if key not in _BASE_ISSUES:
        from hed.schema import from_string
        c = ctx_for(schema, base)
        _BASE_ISSUES[key] = _issue_keys(from_string(c.text, ".xml").check_compliance(), c.legacy_lib)
    return _BASE_ISSUES[key]


# =====================================================================================================
# generators
# =====================================================================================================

UP = "ABCDEFGHIJKLMNOPQRSTUVWXYZ"
LO = "abcdefghijklmnopqrstuvwxyz"
DG = "0123456789"
NA_UP = "ÉÑÖΩЖ"
NA_LO = "éßñü中ж日ø"
TAG_SPECIAL_NEW = ["NA", "NaN", "None", "Null", "True", "N-A", "1", "1.0", "1e3", "0x1F", "007", "X_y.z", "A--b",
                   "Z-", "٣abc", "Éa", "Ω-1", "V1.2.3", "Q_", "中A"[::-1]]
TAG_SPECIAL_OLD = ["NA", "NaN", "None", "Null", "True", "N-A", "1", "007", "1e3", "A--b", "Z-", "Éa", "٣abc"]
WORDS = ["a", "an", "the", "item", "value", "of", "something", "Sensory", "event", "used", "for", "testing", "unit",
         "class", "node", "with", "label", "x1", "42", "3.14", "e.g.", "i.e.", "See", "also", "NOT", "time", "rate"]
NA_WORDS = ["café", "中文", "Straße", "naïve", "Ωmega", "日本", "ñandú", "übung"]
PUNCT_NEW = ["\\n", "\\nu", "\\t", "C:\\new", ",", ";", ":", ".", "(x)", "(a, b)", "=", "a=b", "'x'", "'", "\"x\"", "\"", "<b>", "a<b", ">", "<", "&",
             "&amp;", "&lt;", "|", "*", "**", "#", "\\", "~", "!", "?", "@", "$", "%", "^", "+", "-", "_", "/", "`",
             "a/b", "x_y", "--", "...", "'''", "''"]
PUNCT_OLD = [",", ";", ":", ".", "(x)", "(a, b)", "+", "-", "_", "/", "^", "a/b", "x_y", "--", "...", "1:2"]
DESC_SPECIAL_NEW = ["NA", "nan", "None", "1.0", "-", "0", "*", "'''bold''' text", "* starts with star",
                    "# hash start", "!# bang start", "ends with backslash \\", "literal \\n inside", "&#8203;zero",
                    "a &#8203; b", "nowiki without brackets", "<nowik", "extendhere", "Extend Here", "a=b, c=d",
                    "x, y,z", "'single'", "say \"hi\" there", "'\"'", "ends with quote \"", "a\u00a0b", "a\u3000b",
                    "a\u200bb", "a\u2028b", "a\u0085b", "\ufeffbom", "<!-- c -->", "<!CDATA", "&", "<", ">",
                    "''' Name''' x", "==", "a == b", "HED", "!# end", "x" * 600, "é", "中"]
DESC_SPECIAL_OLD = ["NA", "nan", "None", "1.0", "-", "0", "extendhere", "Extend Here", "x, y,z", "HED", "x" * 600,
                    "é", "中", "a  b", "(", ")", "a:b;c", "^"]
ALLOWED_CHAR_VALUES = ["letters", "digits", "blank", "hyphen", "period", "underscore", "colon", "T", "x", "slash",
                       "nonascii", "uppercase", "lowercase", "plus", "caret", "dollar"]


def _boundary_desc(rng, new_era):
    """A description inside the allowed class that triggers one of the known findings; (text, finding id)."""
    opts = [(" leading blank", F1), ("trailing blank ", F1), ("  both sides  ", F1), (" ", F1),
            ("see extend here for more", F3), ("extend here", F3)]
    if new_era:
        opts += [("\u00a0nbsp first", F1), ("ideographic space last\u3000", F1), ("nel last\u0085", F1),
                 ("\"quoted\" start", F2), ("\"a\" and \"b\"", F2), ("\"", F2), ("\"\"", F2),
                 ("\"quoted, with comma\" x", F2),
                 ("a <nowiki> b", F3), ("a </nowiki> b", F3), ("<nowiki>x</nowiki>", F3), ("</nowiki><nowiki>", F3)]
    return rng.choice(opts)


def _clean_desc(rng, new_era):
    if rng.random() < 0.12:
        # the whole cell is a text CSV / pandas machinery may take for a missing value or a literal
        return rng.choice(K.CELL_SPECIAL)
    r = rng.random()
    if r < 0.10:
        return rng.choice(DESC_SPECIAL_NEW if new_era else DESC_SPECIAL_OLD)
    n = rng.choice([1, 2, 3, 4, 6, 9, 15])
    punct = PUNCT_NEW if new_era else PUNCT_OLD
    toks = []
    for _ in range(n):
        x = rng.random()
        if x < 0.62:
            toks.append(rng.choice(WORDS))
        elif x < 0.74:
            toks.append(rng.choice(NA_WORDS))
        else:
            toks.append(rng.choice(punct))
    sep = [" "] * 8 + (["  ", " "] if new_era else ["  "])
    s = toks[0]
    for t in toks[1:]:
        s += rng.choice(sep + [""]) + t
    s = s.strip()
    while s.startswith('"'):
        s = "q" + s
    for w in WIKI_RESERVED:
        s = s.replace(w, "x")
    s = s or "d"
    if new_era and rng.random() < 0.3:
        # the text class admits every code point above 127: line/paragraph separators, NEL, exotic blanks, zero
        # width characters, combining marks, astral code points, bidi controls ... in interior and outer positions
        # (outer blanks need the repair of C05-F1: all readers strip them)
        s = K.exoticise(rng, s, outer_ok=bool(FIXED))
    return s


class _Gen:
    """Generates the ops of one edit case, applying them to a private copy of the base tree as it goes."""

    def __init__(self, rng, ctx, boundary, plant_names=True):
        self.rng, self.c = rng, ctx
        self.root = copy.deepcopy(ctx.root)
        self.boundary = boundary          # None or a finding id: plant exactly one boundary description
        self.planted = None
        self.planted_name = None if plant_names else "\0disabled"     # histories use clean edits only
        self.planted_ctl = not plant_names
        self.ops = []
        m = ctx.merged_root
        self.tag_names = {(_name(n) or "").casefold() for n in m.iter("node")}
        self.tag_short = sorted({_name(n) for n in m.iter("node")} - {"#"})
        self.other_names = {(_name(d) or "").casefold() for d in m.iter() if d.tag in DEF_TAGS and d.tag != "node"}
        self.unit_classes = sorted(_name(d) for d in m.iter("unitClassDefinition"))
        self.value_classes = sorted(_name(d) for d in m.iter("valueClassDefinition"))
        # standard-schema nodes of a partnered library (targets for rooted), without placeholder child
        self.std_targets = sorted(_name(n) for n in m.iter("node")
                                  if _name(n) != "#" and not any(a[0] == "inLibrary" for a in _attrs(n))
                                  and not any(_name(k) == "#" for k in n.findall("node"))) if ctx.partnered else []

        # ... grouped by top-level tree: the tree is a dimension of its own (only some trees allow extensions, and the
        # entries of the others are not sorted by the loader)
        self.std_by_top = {}
        if ctx.partnered and m.find("schema") is not None:
            ok = set(self.std_targets)
            for top in m.find("schema").findall("node"):
                names = [_name(n) for n in top.iter("node") if _name(n) in ok]
                if names:
                    self.std_by_top[_name(top)] = sorted(names)

    # ---- helpers
    def emit(self, op):
        apply_op(self.root, op)
        self.ops.append(op)

    def lib_attr(self):
        c = self.c
        return [["inLibrary", [c.lib]]] if (c.partnered and c.base == "merged") else []

    def is_lib(self, el):
        c = self.c
        if not c.partnered or c.base == "unmerged":
            return True                   # every entry may be edited
        return any(a[0] == "inLibrary" for a in _attrs(el))

    def nodes(self):
        out = []

        def walk(el, path):
            for n in el.findall("node"):
                p = path + [_name(n)]
                out.append((p, n))
                walk(n, p)
        walk(self.root.find("schema"), [])
        return out

    def desc(self, p=0.7):
        if self.rng.random() >= p:
            return None
        if self.boundary and self.planted is None and self.rng.random() < 0.6:
            d, fid = _boundary_desc(self.rng, self.c.new_era)
            if self.boundary == "any" or fid == self.boundary:
                self.planted = fid
                self.planted_text = d
                return d
        return _clean_desc(self.rng, self.c.new_era)

    def tag_name(self):
        rng, new = self.rng, self.c.new_era
        for _ in range(200):
            if rng.random() < 0.12:
                nm = rng.choice(TAG_SPECIAL_NEW if new else TAG_SPECIAL_OLD)
            else:
                first = rng.choice(UP * 3 + DG + NA_UP)
                body_chars = LO * 4 + UP + DG + "---" + NA_LO + ("._" if new else "")
                nm = first + "".join(rng.choice(body_chars) for _ in range(rng.choice([1, 2, 3, 5, 8, 13])))
            if new and rng.random() < 0.10 and len(nm) >= 2:
                nm = K.exoticise(rng, nm, outer_ok=False)            # interior: any non-ASCII code point is a name character
            if nm.casefold() not in self.tag_names and nm != "#":
                self.tag_names.add(nm.casefold())
                return self.outer_blank_name(nm)
        raise RuntimeError("no fresh tag name")

    def outer_blank_name(self, nm, leading=False):
        """With a small probability (once per case) end the name in a non-ASCII blank: allowed by the name class,
        not expressible in a MediaWiki line (finding C05-F5 unless VERIF_C05_FIXED_F5=1)."""
        if self.c.new_era and not self.planted_name and self.rng.random() < 0.05:
            self.planted_name = nm + self.rng.choice(K.EXOTIC_WS)
            if leading and self.rng.random() < 0.4:
                self.planted_name = self.rng.choice(K.EXOTIC_WS) + nm
            return self.planted_name
        return nm

    def other_name(self, suffix=""):
        rng, new = self.rng, self.c.new_era
        if not suffix and rng.random() < 0.08:
            for nm in rng.sample(K.CELL_SPECIAL, len(K.CELL_SPECIAL)):
                if all(ch.isalnum() or ch in "-._" for ch in nm) and nm.casefold() not in self.other_names:
                    self.other_names.add(nm.casefold())
                    return nm
        for _ in range(200):
            chars = LO * 4 + UP + DG + "-" + NA_LO + ("._" if new else "_")
            nm = rng.choice(LO + UP + NA_LO) + "".join(rng.choice(chars) for _ in range(rng.choice([1, 2, 4, 7]))) \
                + suffix
            if new and rng.random() < 0.10 and len(nm) >= 2 and not suffix:
                nm = K.exoticise(rng, nm, outer_ok=False)
            if nm.casefold() not in self.other_names:
                self.other_names.add(nm.casefold())
                return self.outer_blank_name(nm, leading=True) if not suffix else nm
        raise RuntimeError("no fresh name")

    # ---- names of non-tag entries with characters admitted through the entry's own allowedCharacter attribute
    AC_CLASSES = None

    def ac_rename(self, spec, p=0.3):
        """With probability p give a unit / unit modifier / value class spec a name that uses 1-2 characters outside
        the default name class, admitted by adding allowedCharacter=<class> to the entry itself (as the bundled units
        '$' {allowedCharacter=dollar} and m^2 {allowedCharacter=caret} do): slash (m/s), caret, dollar, blank,
        percent-sign, parentheses, quotes, equals, comma, asterisk, number-sign ... at interior and outer positions.
        A tab or line feed (classes tab / newline) is admitted by the compliance check as well but cannot be held by
        a TSV cell / a MediaWiki line: planted rarely, finding C05-F6."""
        rng, c = self.rng, self.c
        if not c.new_era or rng.random() >= p:
            return spec
        if _Gen.AC_CLASSES is None:
            from hed.schema.hed_schema_constants import character_types
            _Gen.AC_CLASSES = {k: next(iter(v)) for k, v in sorted(character_types.items())
                               if isinstance(v, set) and len(v) == 1}
        pool = sorted(k for k in _Gen.AC_CLASSES if k not in ("tab", "newline"))
        classes = rng.sample(pool, rng.choice([1, 1, 2]))
        if rng.random() < 0.35:
            classes[0] = "slash"
        if not self.planted_ctl and rng.random() < 0.06:
            classes = [rng.choice(["tab", "newline"])]
            self.planted_ctl = True
        nm = spec["name"]
        for k in dict.fromkeys(classes):
            ch = _Gen.AC_CLASSES[k]
            r = rng.random()
            if ch in " " or r < 0.7 or k in ("tab", "newline"):
                pos = rng.randint(1, max(1, len(nm) - 1))
            else:
                pos = 0 if r < 0.85 else len(nm)
            nm = nm[:pos] + ch + nm[pos:]
        if nm.casefold() in self.other_names:
            return spec
        self.other_names.add(nm.casefold())
        spec["name"] = nm
        attrs = spec["attrs"]
        cur = next((a for a in attrs if a[0] == "allowedCharacter"), None)
        if cur is not None:
            cur[1] = list(dict.fromkeys(cur[1] + classes))
        else:
            k = next((i for i, a in enumerate(attrs) if a[0] == "inLibrary"), len(attrs))
            attrs.insert(k, ["allowedCharacter", list(dict.fromkeys(classes))])
        return spec

    def tag_attrs(self, k=None):
        """0-3 attributes for a non-placeholder node."""
        rng, c = self.rng, self.c
        k = rng.choice([0, 0, 1, 1, 2, 3]) if k is None else k
        pool = [("b", n) for n in c.tag_bool] + [("r", n) for n in c.tag_ref] * 3
        rng.shuffle(pool)
        out, seen = [], set()
        for typ, n in pool:
            if len(out) >= k:
                break
            if n in seen:
                continue
            seen.add(n)
            if typ == "b":
                out.append([n, []])
            else:
                out.append([n, rng.sample(self.tag_short, rng.choice([1, 2, 3]))])
        return out

    def placeholder(self):
        rng = self.rng
        attrs = [["takesValue", []]]
        for an, pool in (("unitClass", self.unit_classes), ("valueClass", self.value_classes)):
            if pool and an in self.c.decl and rng.random() < 0.5:
                attrs.append([an, rng.sample(pool, min(len(pool), rng.choice([1, 1, 2])))])
        rng.shuffle(attrs)
        return {"tag": "node", "name": "#", "desc": self.desc(0.5), "attrs": attrs + self.lib_attr()}

    def node_spec(self, depth=0, extra_attrs=()):
        rng = self.rng
        spec = {"tag": "node", "name": self.tag_name(), "desc": self.desc(),
                "attrs": list(extra_attrs) + self.tag_attrs() + self.lib_attr(), "children": []}
        r = rng.random()
        if r < 0.3:
            spec["children"].append(self.placeholder())
        elif r < 0.55 and depth < 3:
            for _ in range(rng.choice([1, 2, 3])):
                spec["children"].append(self.node_spec(depth + 1))
        return spec

    # ---- ops on tags
    def op_add_tag(self):
        rng, c = self.rng, self.c
        nodes = [(p, n) for p, n in self.nodes()
                 if p[-1] != "#" and not any(_name(k) == "#" for k in n.findall("node"))]
        extra = []
        r = rng.random()
        kind = "add_tag"
        if c.partnered and c.has_rooted and self.std_targets and r < 0.3:
            # library sub-tree rooted below a node of the standard schema
            target = rng.choice(self.std_by_top[rng.choice(sorted(self.std_by_top))]) if self.std_by_top \
                else rng.choice(self.std_targets)
            extra = [["rooted", [target]]]
            kind = "add_rooted"
            if c.base == "merged":
                path = next(p for p, n in nodes if p[-1] == target)
            else:
                path = []
        elif r < 0.45 or not nodes:
            path = []
        else:
            cands = [(p, n) for p, n in nodes if self.is_lib(n)]
            if not cands:
                path = []
            else:
                # favour deep parents (level handling in the text formats)
                cands.sort(key=lambda x: len(x[0]))
                path = rng.choice(cands[len(cands) // 2:] if rng.random() < 0.5 else cands)[0]
        spec = self.node_spec(extra_attrs=extra)
        parent = _find(self.root, "schema", path)
        nsib = len(parent.findall("node"))
        at = rng.choice([None, None, 0, rng.randrange(nsib + 1)]) if nsib else None
        self.emit({"op": "add", "kind": kind, "sec": "schema", "path": path, "elem": spec, "at": at})

    def referenced(self):
        ref = set()
        for v in self.root.iter("value"):
            if v.text:
                ref.add(v.text)
        return ref

    def op_remove_tag(self):
        rng = self.rng
        ref = self.referenced()
        cands = []
        for p, n in self.nodes():
            if not self.is_lib(n):
                continue
            sub = [_name(x) for x in n.iter("node")]
            if len(sub) > 6 or any(s in ref for s in sub if s != "#"):
                continue
            cands.append((p, len(sub)))
        if not cands:
            return
        leaves = [x for x in cands if x[1] == 1]
        p, _ = rng.choice(leaves if leaves and rng.random() < 0.7 else cands)
        self.emit({"op": "remove", "kind": "remove_tag", "sec": "schema", "path": p})

    def op_reattr_tag(self):
        rng, c = self.rng, self.c
        cands = [(p, n) for p, n in self.nodes() if self.is_lib(n)]
        if not cands:
            return
        p, n = rng.choice(cands)
        attrs = _attrs(n)
        names = [a[0] for a in attrs]
        r = rng.random()
        if r < 0.3:
            d = self.desc(0.8)
            if d == _desc(n):
                d = None
            self.emit({"op": "desc", "kind": "redesc_tag", "sec": "schema", "path": p, "desc": d})
            return
        if p[-1] == "#":
            # placeholder: change unit / value classes
            an = rng.choice(["unitClass", "valueClass"])
            pool = self.unit_classes if an == "unitClass" else self.value_classes
            if not pool or an not in c.decl:
                return
            attrs = [a for a in attrs if a[0] != an]
            if an not in names or rng.random() < 0.7:
                vals = rng.sample(pool, min(len(pool), rng.choice([1, 2, 3])))
                attrs.insert(rng.randrange(len(attrs) + 1), [an, vals])
        else:
            protected = {"inLibrary", "hedId", "rooted", "deprecatedFrom", "takesValue", "unitClass", "valueClass"}
            choice = rng.random()
            bools_here = [a for a in attrs if a[0] in c.tag_bool]
            refs_here = [a for a in attrs if a[0] in c.tag_ref]
            if choice < 0.25 and bools_here:
                attrs.remove(rng.choice(bools_here))
            elif choice < 0.5:
                free = [b for b in c.tag_bool if b not in names]
                if free:
                    attrs.insert(rng.randrange(len(attrs) + 1), [rng.choice(free), []])
            elif choice < 0.7 and refs_here:
                a = rng.choice(refs_here)
                x = rng.random()
                if x < 0.3 and len(a[1]) > 1:
                    a[1].pop(rng.randrange(len(a[1])))
                elif x < 0.45:
                    attrs.remove(a)
                elif x < 0.7 and len(a[1]) > 1:
                    rng.shuffle(a[1])
                else:
                    new = [t for t in rng.sample(self.tag_short, 3) if t not in a[1]]
                    a[1].extend(new[:rng.choice([1, 2])])
            else:
                free = [b for b in c.tag_ref if b not in names]
                if free:
                    attrs.insert(rng.randrange(len(attrs) + 1),
                                 [rng.choice(free), rng.sample(self.tag_short, rng.choice([1, 2, 3]))])
                elif c.tag_bool:
                    free = [b for b in c.tag_bool if b not in names]
                    if free:
                        attrs.append([rng.choice(free), []])
            if rng.random() < 0.15:
                keep = [a for a in attrs if a[0] in protected]
                rest = [a for a in attrs if a[0] not in protected]
                rng.shuffle(rest)
                attrs = rest + keep
        if attrs != _attrs(n):
            self.emit({"op": "attrs", "kind": "reattr_tag", "sec": "schema", "path": p, "attrs": attrs})

    # ---- ops on the other sections
    def unit_spec(self):
        rng, c = self.rng, self.c
        attrs = [[b, []] for b in c.unit_bool if rng.random() < 0.35]
        if c.has_cf and rng.random() < 0.6:
            attrs.append(["conversionFactor", [rng.choice(["1.0", "0.001", "1000.0", "60", "1e3", "2.54e-2"])]])
        rng.shuffle(attrs)
        return self.ac_rename({"tag": "unit", "name": self.other_name(), "desc": self.desc(0.5),
                               "attrs": attrs + self.lib_attr()})

    def op_add_unit_class(self):
        rng = self.rng
        units = [self.unit_spec() for _ in range(rng.choice([1, 1, 2]))]
        attrs = []
        # an attribute VALUE cannot hold ',' or '=' and loses outer blanks (the attribute grammar): such a unit is not
        # referenced by name
        ref = units[0]["name"]
        if rng.random() < 0.7 and not any(x in ref for x in ",=\t\n") and ref == ref.strip():
            attrs.append(["defaultUnits", [ref]])
        spec = {"tag": "unitClassDefinition", "name": self.other_name("Units"), "desc": self.desc(0.6),
                "attrs": attrs + self.lib_attr(), "children": units}
        self.emit({"op": "add", "kind": "add_unit_class", "sec": "unitClassDefinitions", "path": [], "elem": spec,
                   "at": None})
        self.unit_classes.append(spec["name"])

    def op_add_unit(self):
        rng, c = self.rng, self.c
        sec = self.root.find("unitClassDefinitions")
        classes = [d for d in sec.findall("unitClassDefinition")]
        if c.partnered and c.base == "unmerged":
            # a standard unit class is named by a stub (name only) when the library adds units to it
            std = sorted(set(_name(d) for d in c.merged_root.iter("unitClassDefinition")) - {_name(d) for d in classes})
            if std and rng.random() < 0.6:
                nm = rng.choice(std)
                self.emit({"op": "add", "kind": "add_unit_std_class", "sec": "unitClassDefinitions", "path": [],
                           "elem": {"tag": "unitClassDefinition", "name": nm, "children": [self.unit_spec()]},
                           "at": None})
                return
        if not classes:
            return self.op_add_unit_class()
        d = rng.choice(classes)
        kind = "add_unit" if self.is_lib(d) else "add_unit_std_class"
        self.emit({"op": "add", "kind": kind, "sec": "unitClassDefinitions", "path": [_name(d)],
                   "elem": self.unit_spec(), "at": rng.choice([None, 0])})

    def op_add_value_class(self):
        rng = self.rng
        attrs = []
        if rng.random() < 0.8:
            attrs.append(["allowedCharacter", rng.sample(ALLOWED_CHAR_VALUES, rng.choice([1, 2, 3, 4]))])
        spec = self.ac_rename({"tag": "valueClassDefinition", "name": self.other_name("Class"), "desc": self.desc(0.7),
                               "attrs": attrs + self.lib_attr()})
        self.emit({"op": "add", "kind": "add_value_class", "sec": "valueClassDefinitions", "path": [], "elem": spec,
                   "at": None})
        self.value_classes.append(spec["name"])

    def op_add_modifier(self):
        rng, c = self.rng, self.c
        attrs = [[rng.choice(c.mod_bool), []]] if c.mod_bool else []
        if c.has_cf and rng.random() < 0.7:
            attrs.append(["conversionFactor", [rng.choice(["10.0", "0.5", "1e-6"] + ([] if c.new_era else ["10^3"]))]])
        spec = self.ac_rename({"tag": "unitModifierDefinition", "name": self.other_name(), "desc": self.desc(0.5),
                               "attrs": attrs + self.lib_attr()})
        self.emit({"op": "add", "kind": "add_unit_modifier", "sec": "unitModifierDefinitions", "path": [],
                   "elem": spec, "at": None})

    def op_redesc_other(self):
        rng = self.rng
        cands = []
        for sec, (deft, _) in SEC.items():
            if sec == "schema":
                continue
            s = self.root.find(sec)
            if s is None:
                continue
            for d in s.findall(deft):
                # in an unmerged library file a unit class named after a STANDARD unit class is only a stub that
                # carries the library's extra units; its own description/attributes belong to the standard schema
                # (the loader keeps the standard entry), so it is not an entry of the library that can be edited
                stub = (deft == "unitClassDefinition" and self.c.partnered and self.c.base == "unmerged"
                        and any(_name(x) == _name(d) and not any(a[0] == "inLibrary" for a in _attrs(x))
                                for x in self.c.merged_root.iter("unitClassDefinition")))
                if self.is_lib(d) and not stub:
                    cands.append((sec, [_name(d)], d))
                for u in d.findall("unit"):
                    if self.is_lib(u):
                        cands.append((sec, [_name(d), _name(u)], u))
        if not cands:
            return
        by_sec = collections.defaultdict(list)
        for x in cands:
            by_sec[x[0] + ("/unit" if len(x[1]) == 2 else "")].append(x)
        sec, path, el = rng.choice(by_sec[rng.choice(sorted(by_sec))])
        d = self.desc(0.85)
        if d == _desc(el):
            d = None
        kind = "redesc_" + ("unit" if len(path) == 2 else LISTING_KIND[sec])
        self.emit({"op": "desc", "kind": kind, "sec": sec, "path": path, "desc": d})

    def run(self, n_ops):
        rng = self.rng
        table = [(self.op_add_tag, 34), (self.op_remove_tag, 10), (self.op_reattr_tag, 22),
                 (self.op_add_unit_class, 7), (self.op_add_unit, 7), (self.op_add_value_class, 7),
                 (self.op_add_modifier, 3), (self.op_redesc_other, 10)]
        fns = [f for f, w in table for _ in range(w)]
        tries = 0
        while len(self.ops) < n_ops and tries < 20:
            tries += 1
            rng.choice(fns)()
        if not self.ops:
            self.op_add_tag()
        return self.ops


def _malformed_ops(rng, ctx):
    """Edits OUTSIDE the allowed classes (never reported as failures)."""
    g = _Gen(rng, ctx, None)
    which = rng.choice(["desc_bracket", "desc_brace", "desc_tab", "value_equals", "value_empty_piece",
                        "desc_newline"])
    spec = g.node_spec()
    spec["children"] = []
    bad = {"desc_bracket": "has [bracket] inside", "desc_brace": "has {brace} inside", "desc_tab": "has\ttab",
           "desc_newline": "has\nnewline"}
    if which in bad:
        spec["desc"] = bad[which]
    elif which == "value_equals":
        spec["attrs"] = [["suggestedTag", ["a=b"]]] + g.lib_attr()
    else:
        spec["attrs"] = [["suggestedTag", [rng.choice(g.tag_short) + ",," + rng.choice(g.tag_short)]]] + g.lib_attr()
    return [{"op": "add", "kind": "malformed_" + which, "sec": "schema", "path": [], "elem": spec, "at": None}]


def _witness(schema, base, desc, sec="schema", name="Zz-witness"):
    if sec == "schema":
        elem = {"tag": "node", "name": name, "desc": desc, "attrs": []}
    else:
        elem = {"tag": "valueClassDefinition", "name": name, "desc": desc, "attrs": []}
    return {"kind": "edit", "schema": schema, "base": base, "files": True,
            "ops": [{"op": "add", "kind": "witness", "sec": sec, "path": [], "elem": elem, "at": None}]}


def _corpus():
    cs = []
    # the three finding witnesses
    w = _witness("HED8.3.0.xml", "merged", " outer blanks ")
    w["expect_fid"] = F1
    cs.append(w)
    w = _witness("HED8.3.0.xml", "merged", "\"quoted\" start")
    w["expect_fid"] = F2
    cs.append(w)
    w = _witness("HED8.3.0.xml", "merged", "see extend here for more")
    w["expect_fid"] = F3
    cs.append(w)
    # C05-F5: a name ending in a non-ASCII blank (node and unit)
    w = _witness("HED8.3.0.xml", "merged", "d", name="Zz-witness\u00a0")
    w["expect_fid"] = F5
    cs.append(w)
    # regression: every special non-ASCII code point in the interior of a description, and line/paragraph
    # separators at both ends, on a node and on a unit (the class that str.splitlines would cut)
    ops = []
    for i, ch in enumerate(K.EXOTIC_LINE + K.EXOTIC_BLANK + K.EXOTIC_OTHER):
        ops.append({"op": "add", "kind": "witness", "sec": "schema", "path": [], "at": None,
                    "elem": {"tag": "node", "name": f"Zz-exotic-{i}", "desc": f"left{ch}right", "attrs": []}})
    ops.append({"op": "add", "kind": "witness", "sec": "schema", "path": [], "at": None,
                "elem": {"tag": "node", "name": "Zz-exotic-outer", "desc": "\u2028both ends\u0085", "attrs": []}})
    ops.append({"op": "add", "kind": "witness", "sec": "unitClassDefinitions", "path": ["weightUnits"], "at": None,
                "elem": {"tag": "unit", "name": "zzstone", "desc": "An old unit.\u202814 pounds.", "attrs": []}})
    cs.append({"kind": "edit", "schema": "HED8.3.0.xml", "base": "merged", "files": True, "ops": ops})
    # C05-F7: a library node rooted under a tag of a top-level tree that does not allow extensions (Agent)
    cs.append({"kind": "edit", "schema": "HED_testlib_2.0.0.xml", "base": "unmerged", "files": False, "expect_fid": F7, "ops": [
        {"op": "add", "kind": "add_rooted", "sec": "schema", "path": [], "at": 0,
         "elem": {"tag": "node", "name": "Zz-rooted", "desc": None, "attrs": [["rooted", ["Avatar-agent"]]],
                  "children": [{"tag": "node", "name": "Zz-rooted-child", "desc": "d", "attrs": [], "children": []}]}}]})
    # regression: whole-cell texts that CSV machinery may take for a missing value, as descriptions of a node, a value
    # taking child, a unit class, a unit and a value class; saved under a dotted folder name
    # ... and texts holding a backslash followed by a letter an escaping convention could claim (\\n, \\t, \\r, \\\\)
    sp = list(K.CELL_SPECIAL) + ["the Greek letter \\nu", "C:\\parts\\new\\index.txt", "a\\tb", "\\n", "ends with \\",
                                 "\\\\n doubled", "\\r\\n"]
    cs.append({"kind": "edit", "schema": "HED8.3.0.xml", "base": "merged", "files": True, "tsv_loc": "HED8.3.0", "file_stem": "HED8.3.0", "ops": [
        {"op": "add", "kind": "witness", "sec": "schema", "path": [], "at": None,
         "elem": {"tag": "node", "name": "Zz-cell-%d" % i, "desc": t, "attrs": [], "children": (
             [{"tag": "node", "name": "#", "desc": t, "attrs": [["takesValue", []]], "children": []}] if i % 5 == 0 else [])}}
        for i, t in enumerate(sp)] + [
        {"op": "add", "kind": "witness", "sec": "unitClassDefinitions", "path": [], "at": None,
         "elem": {"tag": "unitClassDefinition", "name": "zzcellUnits", "desc": "n/a", "attrs": [],
                  "children": [{"tag": "unit", "name": "zzcell", "desc": "n/a", "attrs": []},
                               {"tag": "unit", "name": "nan", "desc": "NA", "attrs": []}]}},
        {"op": "add", "kind": "witness", "sec": "valueClassDefinitions", "path": [], "at": None,
         "elem": {"tag": "valueClassDefinition", "name": "zzcellClass", "desc": "n/a", "attrs": []}}]})
    # regression for the repaired C05-F8 (b5f4533): a TSV location named *.TSV
    cs.append({"kind": "bundled", "schema": "HED8.0.0.xml", "tsv_loc": "x.TSV", "expect_fid": F8})
    # C05-F6: a unit whose name holds a tab, admitted through allowedCharacter=tab
    cs.append({"kind": "edit", "schema": "HED8.3.0.xml", "base": "merged", "files": False, "expect_fid": F6, "ops": [
        {"op": "add", "kind": "witness", "sec": "unitClassDefinitions", "path": ["weightUnits"], "at": None,
         "elem": {"tag": "unit", "name": "zq\tx", "desc": None, "attrs": [["allowedCharacter", ["tab"]]]}}]})
    # regression: non-tag names that are one opaque term with characters admitted through allowedCharacter --
    # units m/s, km/h, l/min, a value class and a unit modifier with a slash, standard schema and library (both bases)
    def slash_ops(lib=None):
        la = [["inLibrary", [lib]]] if lib else []
        return [
            {"op": "add", "kind": "witness", "sec": "unitClassDefinitions", "path": ["speedUnits"], "at": None,
             "elem": {"tag": "unit", "name": "m/s", "desc": "metre per second", "attrs": [["allowedCharacter", ["slash"]]] + la}},
            {"op": "add", "kind": "witness", "sec": "unitClassDefinitions", "path": ["speedUnits"], "at": None,
             "elem": {"tag": "unit", "name": "km/h", "desc": None, "attrs": [["allowedCharacter", ["slash"]]] + la}},
            {"op": "add", "kind": "witness", "sec": "valueClassDefinitions", "path": [], "at": None,
             "elem": {"tag": "valueClassDefinition", "name": "ratio/Class", "desc": "a/b",
                      "attrs": [["allowedCharacter", ["digits", "slash"]]] + la}},
            {"op": "add", "kind": "witness", "sec": "unitModifierDefinitions", "path": [], "at": None,
             "elem": {"tag": "unitModifierDefinition", "name": "per/", "desc": None,
                      "attrs": [["SIUnitModifier", []], ["allowedCharacter", ["slash"]]] + la}}]
    cs.append({"kind": "edit", "schema": "HED8.3.0.xml", "base": "merged", "files": True, "ops": slash_ops()})
    cs.append({"kind": "edit", "schema": "HED_score_2.0.0.xml", "base": "merged", "files": False, "ops": slash_ops("score")})
    # further shapes of the same findings
    for d, f in (("nbsp last\u00a0", F1), ("\"", F2), ("a <nowiki> b", F3), ("a </nowiki> b", F3)):
        w = _witness("HED8.3.0.xml", "merged", d)
        w["expect_fid"] = f
        cs.append(w)
    w = _witness("HED8.3.0.xml", "merged", "extend here", sec="valueClassDefinitions", name="zzClass")
    w["expect_fid"] = F3
    cs.append(w)
    w = _witness("HED8.0.0.xml", "merged", " legacy outer blank")
    w["expect_fid"] = F1
    cs.append(w)
    # regression edits that must pass everywhere
    cs.append(_witness("HED8.3.0.xml", "merged", "a = 'b', \"c\" <d> & e | f; (g) é 中 ß"))
    cs.append({"kind": "edit", "schema": "HED_score_2.0.0.xml", "base": "merged", "files": True, "ops": [
        {"op": "add", "kind": "add_tag", "sec": "schema", "path": [], "at": 0, "elem": {
            "tag": "node", "name": "Zz-lib-top", "desc": "Top level library node, with comma", "attrs": [
                ["suggestedTag", ["Sensory-event", "Agent-action", "Drowsy"]], ["extensionAllowed", []],
                ["inLibrary", ["score"]]],
            "children": [{"tag": "node", "name": "9-digit-child", "desc": None,
                          "attrs": [["relatedTag", ["Event"]], ["inLibrary", ["score"]]],
                          "children": [{"tag": "node", "name": "#", "desc": "A value.", "attrs": [
                              ["takesValue", []], ["valueClass", ["numericClass", "textClass"]],
                              ["unitClass", ["timeUnits"]], ["inLibrary", ["score"]]]}]}]}}]})
    cs.append({"kind": "edit", "schema": "HED_testlib_2.0.0.xml", "base": "unmerged", "files": True,
               "ops": [
        {"op": "add", "kind": "add_rooted", "sec": "schema", "path": [], "at": None, "elem": {
            "tag": "node", "name": "Zz-rooted", "desc": "Rooted below a standard node",
            "attrs": [["rooted", ["Event"]], ["suggestedTag", ["Sensory-event", "Flute-sound"]]],
            "children": [{"tag": "node", "name": "1st-child", "attrs": []},
                         {"tag": "node", "name": "Zz-second", "attrs": [["requireChild", []]], "children": [
                             {"tag": "node", "name": "Zz-third", "attrs": [], "children": [
                                 {"tag": "node", "name": "Zz-fourth", "attrs": []}]}]}]}},
        {"op": "add", "kind": "add_unit_class", "sec": "unitClassDefinitions", "path": [], "at": None, "elem": {
            "tag": "unitClassDefinition", "name": "zzUnits", "desc": "Library unit class",
            "attrs": [["defaultUnits", ["zz"]]], "children": [
                {"tag": "unit", "name": "zz", "attrs": [["SIUnit", []], ["conversionFactor", ["1.0"]]]}]}},
        {"op": "add", "kind": "add_value_class", "sec": "valueClassDefinitions", "path": [], "at": None, "elem": {
            "tag": "valueClassDefinition", "name": "zzClass", "desc": None,
            "attrs": [["allowedCharacter", ["letters", "digits", "blank"]]]}}]})
    # candidate finding C05-F4 (see _candidate): library unit added to a unit class of the standard schema
    cs.append({"kind": "edit", "schema": "HED_score_2.0.0.xml", "base": "merged", "files": False,
               "expect_candidate": "C05-F4", "ops": [
        {"op": "add", "kind": "add_unit_std_class", "sec": "unitClassDefinitions", "path": ["timeUnits"], "at": None,
         "elem": {"tag": "unit", "name": "fortnight", "desc": "Two weeks",
                  "attrs": [["conversionFactor", ["1209600.0"]], ["inLibrary", ["score"]]]}}]})
    cs.append({"kind": "edit", "schema": "HED8.2.0.xml", "base": "merged", "files": False, "ops": [
        {"op": "remove", "kind": "remove_tag", "sec": "schema", "path": ["Event", "Sensory-event"]},
        {"op": "desc", "kind": "redesc_unit", "sec": "unitClassDefinitions", "path": ["timeUnits", "second"],
         "desc": "SI unit second (s); 1/60 minute"},
        {"op": "desc", "kind": "redesc_property", "sec": "propertyDefinitions", "path": ["boolProperty"],
         "desc": None}]})
    return cs


EDIT_MIX_QUICK = [("HED8.3.0.xml", "merged", 14), ("HED_score_2.0.0.xml", "merged", 6),
                  ("HED_score_2.0.0.xml", "unmerged", 5), ("HED_testlib_2.0.0.xml", "merged", 3),
                  ("HED_testlib_2.0.0.xml", "unmerged", 4), ("HED8.0.0.xml", "merged", 3),
                  ("HED8.2.0.xml", "merged", 3), ("HED_score_1.0.0.xml", "merged", 1),
                  ("HED_testlib_1.0.2.xml", "merged", 1)]
EDIT_MIX_THOROUGH = [("HED8.3.0.xml", "merged", 200), ("HED_score_2.0.0.xml", "merged", 80),
                     ("HED_score_2.0.0.xml", "unmerged", 70), ("HED_testlib_2.0.0.xml", "merged", 40),
                     ("HED_testlib_2.0.0.xml", "unmerged", 50), ("HED8.0.0.xml", "merged", 30),
                     ("HED8.1.0.xml", "merged", 15), ("HED8.2.0.xml", "merged", 35),
                     ("HED_score_1.1.0.xml", "merged", 15), ("HED_score_1.1.0.xml", "unmerged", 15),
                     ("HED_testlib_2.1.0.xml", "unmerged", 10), ("HED_testlib_3.0.0.xml", "merged", 10),
                     ("HED_testlib_3.0.0.xml", "unmerged", 10), ("HED_score_1.0.0.xml", "merged", 10),
                     ("HED_testlib_1.0.2.xml", "merged", 10)]


def gen_edit_case(rng, schema, base, boundary=None, plant_names=True):
    c = ctx_for(schema, base)
    g = _Gen(rng, c, boundary, plant_names)
    ops = g.run(rng.choice([1, 1, 2, 2, 3, 4]))
    case = {"kind": "edit", "schema": schema, "base": base, "ops": ops,
            "files": rng.random() < 0.35}
    # names of the save locations (dots, the .tsv form, suffix case, blanks): an input dimension of the round trip
    if rng.random() < 0.5:
        case["tsv_loc"] = rng.choice(K.LOC_NAMES + ([x for x in K.LOC_NAMES_UPPER] if rng.random() < 0.25 else []))
    if case["files"] and rng.random() < 0.6:
        case["file_stem"] = rng.choice(["HED8.3.0", "a.b", "x.tsv", "UPPER", "sp ace", "v1.", ".dot"])
        case["ext_upper"] = rng.random() < 0.3
    if g.planted and any(el.text == g.planted_text for el in g.root.iter("description")):
        case["planted"] = g.planted
    if g.planted_name and any(el.text == g.planted_name for el in g.root.iter("name")):
        case["planted_name"] = g.planted_name
    return case


def gen_inmem_case(rng, schema):
    """Nodes added to the loaded schema OBJECT (case["inmem"]): 2-4 new nodes (some with a value-taking child or
    children), each below a parent drawn per top-level tree -- trees with and without extensionAllowed, the top node,
    the first, a middle and the last subtree, leaves and inner nodes, standard and (merged partnered base) library
    parents.  The ops are ordinary add ops, so the same edit is also made in the XML text for the expected listing."""
    c = ctx_for(schema, "merged")
    g = _Gen(rng, c, None, plant_names=False)
    tops = g.root.find("schema").findall("node")
    for _ in range(rng.choice([2, 3, 4])):
        top = rng.choice(tops)
        paths = []

        def walk(n, p):
            p = p + [_name(n)]
            # in a partnered (merged) file a library node may only hang below a library node (below a standard tag it
            # would have to be rooted: that dimension is covered by add_rooted)
            ok_parent = (not c.partnered) or any(a[0] == "inLibrary" for a in _attrs(n))
            if ok_parent and _name(n) != "#" and not any(_name(k) == "#" for k in n.findall("node")):
                paths.append(p)
            for k in n.findall("node"):
                walk(k, p)
        walk(top, [])
        if not paths:
            continue
        subtrees = [p for p in paths if len(p) == 2]
        r = rng.random()
        if r < 0.15 or not subtrees:
            path = paths[0]                                    # the top node itself
        elif r < 0.75:
            which = rng.choice(["first", "middle", "last"])
            st = subtrees[0] if which == "first" else subtrees[-1] if which == "last" else subtrees[len(subtrees) // 2]
            inner = [p for p in paths if p[:2] == st]
            path = rng.choice(inner) if rng.random() < 0.5 else st
        else:
            path = rng.choice(paths)
        spec = g.node_spec()
        g.emit({"op": "add", "kind": "add_tag", "sec": "schema", "path": path, "elem": spec, "at": None})
    if not g.ops:
        g.op_add_tag()
    return {"kind": "edit", "schema": schema, "base": "merged", "ops": [o for o in g.ops if o["kind"] == "add_tag"] or g.ops,
            "files": rng.random() < 0.3, "inmem": True}


def systematic_inmem_case(schema):
    """One node below the first, a middle and the last subtree of EVERY top-level tree of a standard schema (trees
    with and without extensionAllowed), added to the loaded schema object; every third one gets a value-taking child."""
    c = ctx_for(schema, "merged")
    ops = []
    k = 0
    for top in c.root.find("schema").findall("node"):
        subs = [n for n in top.findall("node") if _name(n) != "#" and not any(_name(x) == "#" for x in n.findall("node"))]
        if not subs:
            continue
        for pos, st in (("first", subs[0]), ("middle", subs[len(subs) // 2]), ("last", subs[-1])):
            k += 1
            spec = {"tag": "node", "name": f"Zz{k}-{pos}", "desc": f"added below the {pos} subtree", "attrs": [], "children": []}
            if k % 3 == 0:
                spec["children"].append({"tag": "node", "name": "#", "desc": "a value", "attrs": [["takesValue", []]], "children": []})
            ops.append({"op": "add", "kind": "add_tag", "sec": "schema", "path": [_name(top), _name(st)], "elem": spec, "at": None})
    return {"kind": "edit", "schema": schema, "base": "merged", "ops": ops, "files": False, "inmem": True}


def systematic_units_case(schema, base="merged"):
    """A partnered library that adds a unit to EVERY unit class of its standard schema and also owns unit classes with
    attributes and a description (in file order before and after them): whatever order the writer visits the classes
    in, a standard class holding library units is followed by a library class with its own properties."""
    c = ctx_for(schema, base)
    lib = [["inLibrary", [c.lib]]] if base == "merged" else []
    ops = []

    def own_class(i):
        return {"op": "add", "kind": "add_unit_class", "sec": "unitClassDefinitions", "path": [], "at": None,
                "elem": {"tag": "unitClassDefinition", "name": f"zzown{i}Units", "desc": f"library unit class {i} with properties",
                         "attrs": [["defaultUnits", [f"zzown{i}"]]] + lib,
                         "children": [{"tag": "unit", "name": f"zzown{i}", "desc": "its unit", "attrs": [["SIUnit", []]] + lib}]}}
    ops.append(own_class(1))
    std = [d for d in c.merged_root.iter("unitClassDefinition") if not any(a[0] == "inLibrary" for a in _attrs(d))]
    for i, d in enumerate(std):
        if base == "merged":
            ops.append({"op": "add", "kind": "add_unit_std_class", "sec": "unitClassDefinitions", "path": [_name(d)], "at": None,
                        "elem": {"tag": "unit", "name": f"zzstd{i}", "desc": None, "attrs": lib}})
        else:
            ops.append({"op": "add", "kind": "add_unit_std_class", "sec": "unitClassDefinitions", "path": [], "at": None,
                        "elem": {"tag": "unitClassDefinition", "name": _name(d),
                                 "children": [{"tag": "unit", "name": f"zzstd{i}", "desc": None, "attrs": []}]}})
    ops.append(own_class(2))
    return {"kind": "edit", "schema": schema, "base": base, "ops": ops, "files": False}


def gen_cases(rng, tier):
    """Deterministic (from rng) list of JSON-serialisable cases: bundled schemas, edits, malformed edits."""
    have = set(bundled())
    cases = []
    names = bundled() if tier == "thorough" else [b for b in QUICK_BUNDLED if b in have]
    for b in names:
        # a bundled schema is saved under its own name (HED8.3.0, HED_score_2.0.0: the docstring's example)
        cases.append({"kind": "bundled", "schema": b, "tsv_loc": b[:-4], "file_stem": b[:-4]})
    mix = EDIT_MIX_THOROUGH if tier == "thorough" else EDIT_MIX_QUICK
    for schema, base, n in mix:
        if schema not in have:
            continue
        for _ in range(n):
            boundary = "any" if rng.random() < 0.16 else None
            cases.append(gen_edit_case(random.Random(rng.getrandbits(64)), schema, base, boundary))
    for schema, base in ([("HED_score_2.0.0.xml", "merged"), ("HED_testlib_2.0.0.xml", "unmerged")] +
                         ([("HED_score_1.1.0.xml", "merged"), ("HED_testlib_3.0.0.xml", "merged")] if tier == "thorough" else [])):
        if schema in have:
            cases.append(systematic_units_case(schema, base))
    # edits applied to the loaded schema object
    for schema in (["HED8.3.0.xml", "HED8.0.0.xml"] if tier == "thorough" else ["HED8.3.0.xml"]):
        if schema in have:
            cases.append(systematic_inmem_case(schema))
    for i in range(60 if tier == "thorough" else 8):
        schema = ["HED8.3.0.xml", "HED8.3.0.xml", "HED_score_2.0.0.xml", "HED8.2.0.xml"][i % 4]
        if schema in have:
            cases.append(gen_inmem_case(random.Random(rng.getrandbits(64)), schema))
    n_mal = 40 if tier == "thorough" else 6
    for i in range(n_mal):
        schema, base = rng.choice([("HED8.3.0.xml", "merged"), ("HED_score_2.0.0.xml", "merged"),
                                   ("HED8.2.0.xml", "merged"), ("HED_testlib_2.0.0.xml", "unmerged")])
        r = random.Random(rng.getrandbits(64))
        cases.append({"kind": "edit", "schema": schema, "base": base, "malformed": True, "files": False,
                      "ops": _malformed_ops(r, ctx_for(schema, base))})
    return cases


# =====================================================================================================
# oracle
# =====================================================================================================

def _entries(s, sec):
    # the name -> entry map of the section (all_entries also holds stubs / duplicates, which == does not look at)
    return {e.name: e for e in getattr(s, sec).values()}


def _norm_attrs(d):
    return {k: (frozenset(v.split(",")) if isinstance(v, str) else v) for k, v in d.items()}


def schema_diff(a, b):
    """Entry-level differences between two loaded schemas: list of dict(sec, name, kind, od, rd, attrs_equal)."""
    out = []
    for sec in SECTIONS:
        ea, eb = _entries(a, sec), _entries(b, sec)
        for nm, x in ea.items():
            y = eb.get(nm)
            if y is None:
                out.append({"sec": sec, "name": nm, "kind": "missing", "od": x.description, "rd": None,
                            "attrs_equal": False})
                continue
            same_attrs = _norm_attrs(x.attributes) == _norm_attrs(y.attributes)
            if sec == "tags":
                same_attrs = same_attrs and _norm_attrs(x.inherited_attributes) == _norm_attrs(y.inherited_attributes)
            if sec == "unit_classes":
                same_attrs = same_attrs and sorted(x.units) == sorted(y.units)
            if not same_attrs or (x.description or "") != (y.description or "") or x.description != y.description:
                dd = {"sec": sec, "name": nm, "kind": "changed", "od": x.description, "rd": y.description,
                      "attrs_equal": same_attrs,
                      "attrs": None if same_attrs else (dict(x.attributes), dict(y.attributes))}
                if sec == "unit_classes":
                    dd["o_std_class_with_lib_units"] = ("inLibrary" not in x.attributes and any(
                        "inLibrary" in u.attributes for u in x.units.values()))
                    if sorted(x.units) != sorted(y.units):
                        dd["attrs"] = (dict(x.attributes, units=sorted(x.units)),
                                       dict(y.attributes, units=sorted(y.units)))
                out.append(dd)
        for nm, y in eb.items():
            if nm not in ea:
                out.append({"sec": sec, "name": nm, "kind": "extra", "od": None, "rd": y.description,
                            "attrs_equal": False})
    return out


def _top_diff(a, b):
    """Differences outside the entries: header, prologue / epilogue, duplicate names."""
    out = []
    try:
        if a.get_save_header_attributes() != b.get_save_header_attributes():
            out.append(f"header {a.get_save_header_attributes()} vs {b.get_save_header_attributes()}")
        if a.has_duplicates() != b.has_duplicates():
            out.append(f"duplicate names {a.has_duplicates()!r} vs {b.has_duplicates()!r}")
        if (a.prologue or "").strip() != (b.prologue or "").strip():
            out.append("prologue differs")
        if (a.epilogue or "").strip() != (b.epilogue or "").strip():
            out.append("epilogue differs")
    except Exception as e:  # noqa
        out.append(f"(top-level comparison raised {type(e).__name__})")
    return "; ".join(out)


def _fmt_diff(diffs):
    parts = []
    for d in diffs[:3]:
        s = f"{d['sec']}:{d['name']}:{d['kind']}"
        if d["kind"] == "changed":
            if (d["od"] or "") != (d["rd"] or "") or d["od"] != d["rd"]:
                s += f" desc {d['od']!r}->{d['rd']!r}"
            if not d["attrs_equal"]:
                s += f" attrs {d.get('attrs')}"
        parts.append(s[:260])
    if len(diffs) > 3:
        parts.append(f"(+{len(diffs) - 3} more)")
    return "; ".join(parts) if parts else "no entry-level difference (header, prologue/epilogue or duplicates)"


def _edit_descs(case):
    out = []

    def walk(spec):
        if spec.get("desc"):
            out.append(spec["desc"])
        for ch in spec.get("children", []):
            walk(ch)
    for op in case.get("ops", []):
        if op["op"] == "add":
            walk(op["elem"])
        elif op["op"] == "desc" and op.get("desc"):
            out.append(op["desc"])
    return out


def _rooted_edit(case):
    """Names of the nodes the edit adds with a rooted attribute."""
    return [(op["elem"]["name"] or "").strip() for op in case.get("ops", [])      # names are stripped on load (fix commit 4b4f5c6)
            if op["op"] == "add" and any(a[0] == "rooted" for a in op["elem"].get("attrs", []))]


def _edit_names(case):
    out = []

    def walk(e):
        out.append(e.get("name") or "")
        for ch in e.get("children", []) or []:
            walk(ch)
    for op in case.get("ops", []):
        if op["op"] == "add":
            walk(op["elem"])
    return out


def classify(fmt, diffs, exc, case):
    """Known-finding id for a reload failure, or None.  `diffs` is schema_diff(orig, reloaded) (None if the load
    raised `exc`)."""
    descs = _edit_descs(case)
    fam = _family(fmt)
    loc = case.get("tsv_loc") or ""
    if not K.FIXED8 and fam == "tsv" and exc is not None and loc.lower().endswith(".tsv") and not loc.endswith(".tsv"):
        return F8      # the location just written is looked for as a folder (suffix compared exactly)
    ctl = [n for n in _edit_names(case) if "\t" in n or "\n" in n]
    if ctl:
        # C05-F6: the TSV writer cannot write a cell holding a tab or line feed (QUOTE_NONE: 'need to escape'); a
        # MediaWiki line cannot hold a line feed
        if fam == "tsv" and exc is not None:
            return F6
        if fam == "mediawiki" and any("\n" in n for n in ctl):
            if exc is not None:
                return F6
            if diffs and all("\n" in d["name"] or d["kind"] == "extra" or
                             (d["kind"] == "changed" and d["od"] == d["rd"]) for d in diffs):
                return F6
    if exc is not None:
        if not FIXED and fam == "tsv" and any(d.startswith('"') for d in descs):
            return F2
        if fam == "mediawiki" and any(w in d for d in descs for w in WIKI_RESERVED):
            return F3
        return None
    if not diffs:
        return None
    changed = [d for d in diffs if d["kind"] != "extra"]
    extra = [d for d in diffs if d["kind"] == "extra"]
    if not FIXED and fam in ("mediawiki", "tsv") and not extra and all(
            d["kind"] == "changed" and d["attrs_equal"] and d["od"] and d["od"] != d["od"].strip()
            and (d["rd"] or "") == d["od"].strip() for d in changed):
        return F1
    if not FIXED and fam == "tsv" and not extra and changed and all((d["od"] or "").startswith('"') for d in changed):
        return F2
    if not FIXED7 and fam == "mediawiki" and _rooted_edit(case):
        # C05-F7: exactly the subtrees of rooted library nodes come back under another parent: every missing and every
        # extra entry is a tag whose path contains the name of a rooted node of the edit, same short names on both sides
        roots = _rooted_edit(case)
        moved = [d for d in diffs if d["kind"] in ("missing", "extra")]
        if moved and len(moved) == len(diffs) and all(
                d["sec"] == "tags" and any(r in d["name"].split("/") for r in roots) for d in moved) \
                and sorted(d["name"].split("/")[-1] for d in moved if d["kind"] == "missing") \
                == sorted(d["name"].split("/")[-1] for d in moved if d["kind"] == "extra"):
            return F7
    if not FIXED5 and fam in ("mediawiki", "tsv"):
        # C05-F5: entries whose name has an outer (non-ASCII) blank come back under the stripped name (MediaWiki);
        # an attribute value or unit list that refers to such a name loses the blank (MediaWiki and TSV: the
        # attribute grammar strips values)
        def comps_strip(nm):
            return "/".join(x.strip() for x in nm.split("/"))

        def strip_equal(x, y):
            """attribute dicts equal once outer blanks of value pieces / unit names are dropped, and not equal before"""
            if not isinstance(x, dict) or not isinstance(y, dict) or set(x) != set(y) or x == y:
                return False
            for k in x:
                vx, vy = x[k], y[k]
                px = vx if isinstance(vx, list) else vx.split(",") if isinstance(vx, str) else [vx]
                py = vy if isinstance(vy, list) else vy.split(",") if isinstance(vy, str) else [vy]
                if sorted(str(v).strip() for v in px) != sorted(str(v).strip() for v in py):
                    return False
            return True
        missing = [d for d in changed if d["kind"] == "missing"]
        rest = [d for d in changed if d["kind"] != "missing"]
        names_ok = all(comps_strip(d["name"]) != d["name"] for d in missing) \
            and sorted(comps_strip(d["name"]) for d in missing) == sorted(d["name"] for d in extra)
        rest_ok = all(d["kind"] == "changed" and d["od"] == d["rd"] and d.get("attrs") is not None
                      and strip_equal(d["attrs"][0], d["attrs"][1]) for d in rest)
        if (missing or rest) and names_ok and rest_ok and (fam == "mediawiki" or not missing):
            return F5
    if fam == "mediawiki" and all(d["name"] == "" for d in extra):
        hit = [d for d in changed if any(w in (d["od"] or "") for w in WIKI_RESERVED)]
        rest = [d for d in changed if d not in hit]
        # knock-on: when the entry lost to F3 is an attribute / property DEFINITION, the entries that use that
        # attribute differ as well (attributes only); when it is a unit, its unit class differs (unit list only)
        def knock_on(d):
            if d["kind"] != "changed" or d["od"] != d["rd"]:
                return False
            if any(h["sec"] in ("attributes", "properties") for h in hit):
                return True
            return d["sec"] == "unit_classes" and any(h["sec"] == "units" for h in hit)
        if hit and all(knock_on(d) for d in rest):
            return F3
    return None


def _case_witness(case):
    """Short readable summary of what the case edits (for replays)."""
    if case.get("kind") == "bundled":
        return f"bundled {case.get('schema')}"
    parts = []
    for op in case.get("ops", []):
        w = f"{op.get('kind', op['op'])} {op['sec']}:{'/'.join(op['path'])}"
        if op["op"] == "add":
            e = op["elem"]
            w += f" +{e['name']!r} desc={e.get('desc')!r} attrs={e.get('attrs')}"
            if e.get("children"):
                w += f" children={[ch['name'] for ch in e['children']]}"
        elif op["op"] == "desc":
            w += f" desc={op['desc']!r}"
        elif op["op"] == "attrs":
            w += f" attrs={op['attrs']}"
        parts.append(w[:200])
    return f"{case.get('schema')}[{case.get('base')}] " + " ; ".join(parts)[:500]


def _diff_witness(diffs):
    if not diffs:
        return None
    d = diffs[0]
    return f"{d['sec']}:{d['name']} ({d['kind']}) description {d['od']!r} reloaded as {d['rd']!r}"[:300]


def _fail(clause, fmt, merged, detail, fid=None, candidate=None, witness=None):
    f = {"clause": clause, "fmt": fmt, "merged": merged, "detail": str(detail)[:600], "fid": fid}
    if witness:
        f["witness"] = witness
    if candidate:
        if candidate in PROMOTED:
            f["fid"] = candidate
        else:
            f["candidate"] = candidate
    return f


def _family(fmt):
    return fmt.split("-")[0]


def _stats(case, root):
    st = collections.Counter()
    kinds = []

    def walk(spec):
        st["n_attrs"] += len(spec.get("attrs", []))
        if any(len(v) > 1 for _, v in spec.get("attrs", [])):
            st["has_multi_valued"] = 1
        if spec["name"] == "#":
            st["has_value_child"] = 1
        if any(a == "rooted" for a, _ in spec.get("attrs", [])):
            st["has_rooted"] = 1
        if any(ord(ch) > 127 for ch in spec["name"]):
            st["has_nonascii_name"] = 1
        if spec.get("desc"):
            st["n_descs"] += 1
            if any(ord(ch) > 127 for ch in spec["desc"]):
                st["has_nonascii_desc"] = 1
        for ch in spec.get("children", []):
            st["n_added_entries"] += 1
            walk(ch)
    for op in case.get("ops", []):
        kinds.append(op.get("kind", op["op"]))
        if op["op"] == "add":
            st["n_added_entries"] += 1
            walk(op["elem"])
        elif op["op"] == "attrs":
            st["n_attrs"] += len(op["attrs"])
            if any(len(v) > 1 for _, v in op["attrs"]):
                st["has_multi_valued"] = 1
        elif op["op"] == "desc" and op.get("desc"):
            st["n_descs"] += 1
            if any(ord(ch) > 127 for ch in op["desc"]):
                st["has_nonascii_desc"] = 1
    out = dict(st)
    out["op_kinds"] = kinds
    if case.get("planted"):
        out["planted"] = case["planted"]
    return out


def run_case(case):
    """Run one case; never raises.  Returns dict(case, outcome, failures, n_roundtrips, stats)."""
    d = None
    res = {"case": case, "outcome": "ok", "failures": [], "n_roundtrips": 0, "stats": {}}
    t_cpu = time.process_time()
    try:
        d = C.scratch_dir("hedverif-c05-")
        _run_case(case, res, d)
    except Exception:  # noqa
        res["failures"].append(_fail("harness-error", None, None, traceback.format_exc()[-600:]))
    finally:
        if d:
            shutil.rmtree(d, ignore_errors=True)
    try:
        cw = _case_witness(case)
    except Exception:  # noqa
        cw = str(case)[:300]
    for f in res["failures"]:
        f["witness"] = (f["witness"] + " | " + cw)[:700] if f.get("witness") else cw
    res["stats"]["cpu_s"] = round(time.process_time() - t_cpu, 3)
    return res


def _reload(orig, fmt, m, d, tag, case=None):
    """Save `orig` in one format / mode / variant and load the result.  Returns (schema, saved xml text or None).
    The names of the save locations are an input dimension: case["tsv_loc"] (last component of the TSV location),
    case["file_stem"] / case["ext_upper"] (XML and MediaWiki files)."""
    from hed.schema import load_schema, from_string
    case = case or {}
    stem = case.get("file_stem") or "f"
    up = (lambda e: e.upper()) if case.get("ext_upper") else (lambda e: e)
    if fmt == "xml":
        text = orig.get_as_xml_string(m)
        return from_string(text, ".xml"), text
    if fmt == "xml-file":
        p = os.path.join(d, tag, stem + up(".xml"))
        os.makedirs(os.path.dirname(p), exist_ok=True)
        orig.save_as_xml(p, m)
        with open(p, encoding="utf-8") as f:
            text = f.read()
        return load_schema(p), text
    if fmt == "mediawiki":
        return from_string(orig.get_as_mediawiki_string(m), ".mediawiki"), None
    if fmt == "mediawiki-file":
        p = os.path.join(d, tag, stem + up(".mediawiki"))
        os.makedirs(os.path.dirname(p), exist_ok=True)
        orig.save_as_mediawiki(p, m)
        return load_schema(p), None
    if fmt == "tsv":
        p = os.path.join(d, f"{tag}_tsv", case.get("tsv_loc") or "sch")
        orig.save_as_dataframes(p, m)
        return load_schema(p), None
    raise ValueError(fmt)


def _check_lines(orig, m, d, failures, case):
    """Clause lines-split-only-at-LF: the MediaWiki reader must see exactly the LF-separated lines of the saved text
    (string source and file source) -- U+0085, U+2028, U+2029 ... are characters of a line, not line ends.  This is
    the assumption under every per-line theorem (Model/WikiCodec.v open_file_lines)."""
    try:
        text = orig.get_as_mediawiki_string(m)
        got = K.canon_lines(K.impl_open_file_lines(text))
        want = K.canon_lines(text.split("\n"))
        src = "string"
        if got == want:
            p = os.path.join(d, f"lines{int(m)}.mediawiki")
            orig.save_as_mediawiki(p, m)
            with open(p, "rb") as f:
                ftext = f.read().decode("utf-8")
            got = K.canon_lines(K.impl_open_file_lines(None, p))
            want = K.canon_lines(K.lf_lines(ftext, keepends=True))
            src = "file"
        if got != want:
            k = next((i for i, (a, b) in enumerate(zip(got, want)) if a != b), min(len(got), len(want)))
            failures.append(_fail("lines-split-only-at-LF", "mediawiki", m,
                                  f"{src} source: the reader sees {len(got)} lines, the saved text has {len(want)} "
                                  f"LF-separated lines; first difference at line {k + 1}: "
                                  f"{(got[k] if k < len(got) else None)!r} vs {(want[k] if k < len(want) else None)!r}"[:500],
                                  witness=_case_witness(case)))
    except Exception as e:  # noqa
        failures.append(_fail("lines-split-only-at-LF", "mediawiki", m, f"raised {type(e).__name__}: {str(e)[:200]}"))


def _add_in_memory(schema, parent_path, spec):
    """Add the node `spec` (and its children) below `parent_path` with the calls the schema readers use."""
    from hed.schema.hed_schema_constants import HedSectionKey
    long_name = "/".join(parent_path + [spec["name"]])
    entry = schema._create_tag_entry(long_name, HedSectionKey.Tags)
    if spec.get("desc"):
        entry.description = spec["desc"].strip() or None          # what the XML reader delivers (4719ff8)
    for a, vals in spec.get("attrs", []):
        entry._set_attribute_value(a, ",".join(vals) if vals else True)
    schema._add_tag_to_dict(long_name, entry, HedSectionKey.Tags)
    for ch in spec.get("children", []) or []:
        _add_in_memory(schema, parent_path + [spec["name"]], ch)


def _schema_edited_in_memory(c, case):
    from hed.schema import load_schema
    s = load_schema(c.path)
    for op in case["ops"]:
        if op["op"] != "add" or op["sec"] != "schema":
            raise ValueError("in-memory cases hold add ops on tags only")
        _add_in_memory(s, list(op["path"]), op["elem"])
    s.finalize_dictionaries()
    return s


def wiki_long_names(text):
    """Independent reader of the tag section of a MERGED MediaWiki text: the long name of every node line, rebuilt
    from the order and the level of the lines only."""
    names, path, inside = [], [], False
    for line in text.split("\n"):
        line = line.strip()
        if line.startswith("!# start schema"):
            inside = True
            continue
        if line.startswith("!# end schema"):
            break
        if not inside or not line:
            continue
        if line.startswith("'''"):
            nm = line[3:].split("'''")[0].strip()
            path = [nm]
        else:
            lvl = len(line) - len(line.lstrip("*"))
            rest = line[lvl:]
            nm = rest.split("<nowiki>")[0].strip()
            if not nm and "<nowiki>" in rest:
                nm = rest.split("<nowiki>")[1].split(" ")[0].strip()      # '#' lines keep the name inside the wrapper
            path = path[:lvl] + [nm]
        names.append("/".join(path))
    return names


def _run_case(case, res, d):
    from hed.schema import load_schema, from_string
    schema = case["schema"]
    failures = res["failures"]
    malformed = bool(case.get("malformed"))
    if case["kind"] == "bundled":
        base = "merged"
        c = ctx_for(schema, base)
        root = c.merged_root
        orig = load_schema(c.path)
        issues = orig.check_compliance()
        res["stats"] = {"n_compliance_issues": len(issues),
                        "n_compliance_errors": sum(1 for i in issues if i.get("severity", 10) < 10)}
        files = True
    else:
        base = case["base"]
        c = ctx_for(schema, base)
        root = copy.deepcopy(c.root)
        for op in case["ops"]:
            apply_op(root, op)
        res["stats"] = _stats(case, root)
        text = ET.tostring(root, encoding="unicode")
        try:
            orig = from_string(text, ".xml")
            if case.get("inmem"):
                # the same edit applied to the loaded schema OBJECT; the two constructions must describe one schema
                obj = _schema_edited_in_memory(c, case)
                if obj != orig:
                    res["outcome"] = "inmem_mismatch"
                    res["stats"]["rejected_with"] = "object edit != text edit: " + _fmt_diff(schema_diff(orig, obj))
                    return
                orig = obj
        except Exception as e:  # noqa  -- the implementation refuses the edited schema: not a round-trip question
            res["outcome"] = "outside_class" if malformed else "edit_rejected"
            res["stats"]["rejected_with"] = f"{type(e).__name__}: {getattr(e, 'code', '')} {str(e)[:120]}"
            return
        new_issues = _issue_keys(orig.check_compliance(), c.legacy_lib) - base_issues(schema, base)
        if malformed:
            res["outcome"] = "outside_class"
        elif new_issues:
            res["outcome"] = "rejected_by_compliance"
            res["stats"]["new_issues"] = sorted({f"{k[0]}@{k[3]}" for k in new_issues})
            return
        files = bool(case.get("files"))
    partnered = bool(orig.with_standard)
    if partnered != c.partnered:
        failures.append(_fail("harness-error", None, None, "partnered flag differs between hed and the XML header"))
    modes = [True, False] if partnered else [True]
    fmts = ["xml", "mediawiki"] + ([] if c.legacy_lib else ["tsv"])
    if files:
        fmts += ["xml-file", "mediawiki-file"]
    # NB the in-memory from_dataframes(get_as_dataframes()) path is not an observation point of the property (under
    # pandas 3 it raises on None descriptions even for bundled schemas): TSV goes through files only.
    lst = listing(root, norm_desc=bool(FIXED), norm_name=bool(FIXED5))
    std_lst = std_listing_for(c.with_std) if partnered else None
    loaded = []           # (fmt, merged, reloaded schema, keys of differing entries, fid, equals original)
    mal_out = collections.Counter()
    if not malformed:
        for m in modes:
            _check_lines(orig, m, d, failures, case)
        # clause wiki-independent-listing: the saved MERGED MediaWiki text, read by an independent line reader, lists
        # every tag under the parent it has in the schema (position and level of the lines, not only their content)
        try:
            if not any("\n" in n for n in _edit_names(case)):
                got = wiki_long_names(orig.get_as_mediawiki_string(True))
                want = [e.name for e in orig.tags.all_entries]
                if sorted(got) != sorted(want):
                    miss = sorted(set(want) - set(got))[:3]
                    extra = sorted(set(got) - set(want))[:3]
                    fid = F7 if (not FIXED7 and _rooted_edit(case)) else None
                    failures.append(_fail("wiki-independent-listing", "mediawiki", True,
                                          f"tags not listed under their parent: missing {miss}, listed instead {extra}",
                                          fid=fid, witness=_case_witness(case)))
        except Exception as e:  # noqa
            failures.append(_fail("wiki-independent-listing", "mediawiki", True, f"raised {type(e).__name__}: {str(e)[:200]}"))
    for m in modes:
        for fmt in fmts:
            r, xml_text, exc = None, None, None
            try:
                r, xml_text = _reload(orig, fmt, m, d, f"s{int(m)}", case)
            except Exception as e:  # noqa
                exc = e
            res["n_roundtrips"] += 1
            if malformed:
                # outside the allowed classes: whatever happens is recorded, never reported
                if exc is not None:
                    mal_out["refused:" + type(exc).__name__] += 1
                else:
                    try:
                        mal_out["equal" if (r == orig) is True else "unequal"] += 1
                    except Exception as e:  # noqa
                        mal_out["eq-raised:" + type(e).__name__] += 1
                continue
            if exc is not None:
                failures.append(_fail("reload-equals-original", fmt, m,
                                      f"{type(exc).__name__}: {getattr(exc, 'code', '')} {str(exc)[:200]}",
                                      classify(fmt, None, exc, case)))
                continue
            try:
                equal = (r == orig)
            except Exception as e:  # noqa
                failures.append(_fail("reload-equals-original", fmt, m, f"== raised {type(e).__name__}: {e}"))
                continue
            diffs, fid = [], None
            if equal is not True:
                diffs = schema_diff(orig, r)
                fid = classify(fmt, diffs, None, case)
                cand = None
                if fid is None:
                    cand = _candidate(fmt, m, diffs, case, c, orig, r)
                top = _top_diff(orig, r)
                failures.append(_fail("reload-equals-original", fmt, m,
                                      _fmt_diff(diffs) + (f" [{top}]" if top else ""), fid, cand,
                                      _diff_witness(diffs)))
            loaded.append((fmt, m, r, {(x["sec"], x["name"]) for x in diffs}, fid, equal is True))
            # independent listing of the saved XML
            if xml_text is not None:
                if partnered and base == "unmerged" and m and std_lst is None:
                    continue
                try:
                    got = listing(ET.fromstring(xml_text.encode("utf-8") if xml_text.lstrip().startswith("<?xml")
                                                else xml_text))
                    exp = expected_listing(lst, base, m, partnered, c.lib, std_lst)
                    for msg in compare_listing(exp, got):
                        failures.append(_fail("xml-independent-listing", fmt, m, msg))
                except ET.ParseError as e:
                    failures.append(_fail("xml-independent-listing", fmt, m, f"saved XML does not parse: {e}"))
    if malformed:
        res["stats"]["malformed_result"] = dict(mal_out)
        return
    # cross-format agreement: all reloaded schemas (every format, variant and mode) must be pairwise ==.  They are
    # grouped into classes of mutually equal schemas; every class beyond the reference one is one failure.
    classes = []
    for item in loaded:
        for cl in classes:
            try:
                same = (cl[0][2] == item[2]) is True and (item[2] == cl[0][2]) is True
            except Exception:  # noqa
                same = False
            if same:
                cl.append(item)
                break
        else:
            classes.append([item])
    if len(classes) > 1:
        ref = next((cl for cl in classes if any(x[5] for x in cl)), classes[0])
        ref_names = ",".join(f"{x[0]}/{'m' if x[1] else 'u'}" for x in ref)
        for cl in classes:
            if cl is ref:
                continue
            names = ",".join(f"{x[0]}/{'m' if x[1] else 'u'}" for x in cl)
            dd = schema_diff(ref[0][2], cl[0][2])
            keys = {(x["sec"], x["name"]) for x in dd}
            fids = {x[4] for x in cl} | {x[4] for x in ref if not x[5]}
            known = set()
            for x in list(cl) + list(ref):
                if x[4] is not None:
                    known |= x[3]
            fid = None
            if len(fids) == 1 and None not in fids and keys <= known | {(sec, "") for sec in SECTIONS}:
                fid = next(iter(fids))
            cand = None
            if fid is None:
                cands = {_reload_candidate(failures, x[0], x[1]) for x in list(cl) + [y for y in ref if not y[5]]}
                if len(cands) == 1 and None not in cands:
                    cand = next(iter(cands))
            ms = {x[1] for x in cl}
            failures.append(_fail("cross-format", "|".join(sorted({_family(x[0]) for x in cl})),
                                  next(iter(ms)) if len(ms) == 1 else None,
                                  f"[{names}] differ from [{ref_names}]: {_fmt_diff(dd)}", fid, cand,
                                  _diff_witness(dd)))


def _reload_candidate(failures, fmt, m):
    for x in failures:
        if x["clause"] == "reload-equals-original" and x["fmt"] == fmt and x["merged"] == m:
            return x.get("candidate") or (x["fid"] if x["fid"] in PROMOTED else None)
    return None


F4 = "C05-F4"


def _candidate(fmt, m, diffs, case, c, orig=None, r=None):
    """Recognisers for defect classes discovered by this oracle that are not registered findings (see PROMOTED).

    C05-F4 "library unit in a standard unit class, unmerged TSV": a partnered library may add units to a unit class
    of the standard schema; the unmerged XML / MediaWiki writers then list that class by name only (a stub the
    loaders merge into the standard class).  The TSV writer ignores `include_props` and writes the full class row;
    on reload the row gets inLibrary, no longer counts as a stub and is registered as a DUPLICATE unit class, so
    the reloaded schema differs from the original (has_duplicates).  Recognised: unmerged TSV, no entry differs, the
    original has no duplicate names, and the reloaded schema's only duplicate names are unit classes that in the
    original belong to the standard schema (no inLibrary) and own at least one library unit.
    """
    if FIXED or _family(fmt) != "tsv" or m is not False or diffs or orig is None or r is None:
        return None
    try:
        if orig.has_duplicates():
            return None
        dups = {}
        for sec in SECTIONS:
            for nm in getattr(r, sec).duplicate_names:
                dups.setdefault(sec, []).append(nm)
        if set(dups) != {"unit_classes"}:
            return None
        for nm in dups["unit_classes"]:
            e = orig.unit_classes.get(nm)
            if e is None or "inLibrary" in e.attributes or not any(
                    "inLibrary" in u.attributes for u in e.units.values()):
                return None
        return F4
    except Exception:  # noqa
        return None


# =====================================================================================================
# "a schema merged from several libraries refuses to save"
# =====================================================================================================

MULTILIB = [["testlib_2.0.0", "score_1.1.0"], ["score_1.1.0", "testlib_2.1.0"], ["score_1.1.0", "testlib_3.0.0"]]


def _partnered_files():
    """{withStandard: [(file, library, version)]} of the bundled partnered libraries, read from the XML headers."""
    groups = {}
    for f in bundled():
        try:
            att = ET.parse(os.path.join(data_dir(), f)).getroot().attrib
        except Exception:  # noqa
            continue
        if att.get("withStandard") and att.get("library"):
            groups.setdefault(att["withStandard"], []).append((f, att["library"], att.get("version", "")))
    return groups


def multilib_builds(tier="quick"):
    """Every legal way of building a schema from several library files: all pairs (and, thorough, triples) of bundled
    partnered libraries with the same withStandard -- also two versions of the SAME library -- through every
    construction path: load_schema_version('a,b'), the list form in both orders, load_schema(file_b, schema=A)."""
    out = []
    for ws, libs in sorted(_partnered_files().items()):
        libs = sorted(libs)
        for i in range(len(libs)):
            for j in range(i + 1, len(libs)):
                a, b = libs[i], libs[j]
                for path in ("string", "list", "list-rev", "file+schema", "file+schema-rev"):
                    out.append({"members": [a, b] if "rev" not in path else [b, a], "path": path})
        if tier == "thorough" and len(libs) >= 3:
            for i in range(len(libs)):
                three = [x for k, x in enumerate(libs) if k != i][:3]
                out.append({"members": three, "path": "list"})
                out.append({"members": three, "path": "file+schema"})
    return out


def _build_merge(build):
    from hed.schema import load_schema_version, load_schema
    mem = build["members"]
    vers = [f"{lib}_{ver}" for _, lib, ver in mem]
    if build["path"] == "string":
        return load_schema_version(",".join(vers))
    if build["path"].startswith("list"):
        return load_schema_version(list(vers))
    s = load_schema(os.path.join(data_dir(), mem[0][0]))
    for f, _, _ in mem[1:]:
        s = load_schema(os.path.join(data_dir(), f), schema=s)
    return s


def run_multilib(tier="quick", info=None):
    """List of failures of the refusal clause (empty = holds).  A schema counts as merged from several libraries BY
    CONSTRUCTION (it was built from two or more library files), not by what its header says.  `info` (a list)
    receives {"members", "path", "library"} of every legal merge, for the tie with Model/Traversal.v merged_library."""
    from hed.errors.exceptions import HedFileError
    out = []
    d = C.scratch_dir("hedverif-c05m-")
    n_legal = 0
    try:
        for bi, build in enumerate(multilib_builds(tier)):
            tag = build["path"] + ":" + "+".join(f"{lib}_{ver}" for _, lib, ver in build["members"])
            try:
                s = _build_merge(build)
            except HedFileError:
                continue          # the implementation refuses this combination (e.g. overlapping nodes): not a legal merge
            except Exception as e:  # noqa
                out.append(_fail("multi-library-refuses", None, None, f"{tag}: building the merge raised {type(e).__name__}: {str(e)[:120]}",
                                 witness=tag))
                continue
            n_legal += 1
            if info is not None:
                info.append({"members": [lib for _, lib, _ in build["members"]], "path": build["path"], "tag": tag,
                             "library": s.library})
            for m in (True, False):
                sub = os.path.join(d, f"{bi}-{int(m)}")
                os.makedirs(sub)
                actions = [("xml", lambda: s.get_as_xml_string(m)),
                           ("mediawiki", lambda: s.get_as_mediawiki_string(m)),
                           ("tsv", lambda: s.get_as_dataframes(m)),
                           ("xml-file", lambda: s.save_as_xml(os.path.join(sub, "x.xml"), m)),
                           ("mediawiki-file", lambda: s.save_as_mediawiki(os.path.join(sub, "w.mediawiki"), m)),
                           ("tsv-file", lambda: s.save_as_dataframes(os.path.join(sub, "t", "sch"), m))]
                for fmt, act in actions:
                    try:
                        act()
                        out.append(_fail("multi-library-refuses", fmt, m, f"{tag}: save did not raise", witness=tag))
                    except HedFileError as e:
                        if e.code != "SCHEMA_LIBRARY_INVALID":
                            out.append(_fail("multi-library-refuses", fmt, m, f"{tag}: raised code {e.code}", witness=tag))
                    except Exception as e:  # noqa
                        out.append(_fail("multi-library-refuses", fmt, m,
                                         f"{tag}: raised {type(e).__name__}: {str(e)[:120]}", witness=tag))
                left = []
                for dp, _, fs in os.walk(sub):
                    left += [os.path.join(dp, f) for f in fs if os.path.getsize(os.path.join(dp, f)) > 0]
                if left:
                    out.append(_fail("multi-library-refuses", "files", m,
                                     f"{tag}: refused save left {[os.path.relpath(x, sub) for x in left]}", witness=tag))
        if n_legal == 0:
            out.append(_fail("harness-error", None, None, "no legal multi-library merge could be built"))
    finally:
        shutil.rmtree(d, ignore_errors=True)
    return out


CORPUS = _corpus()


# =====================================================================================================
# save/save/load HISTORIES on one location: a save is a total overwrite
# =====================================================================================================
# Clauses (all on the implementation; testing):
#   history-reload-equals-last   save S1 at L, save S2 at L, load L  ==  S2
#   save-overwrites-location     the files at L after (S1; S2) are, name for name and byte for byte, the files a
#                                single save of S2 writes into a fresh location: nothing of S1 is left
#   (the list of section files of the fresh TSV save is returned as "tsv_files" and compared by harness/c05.py with
#    the file set of the Coq model, clause tsv-file-set)
# L is an XML file, a MediaWiki file or a TSV folder.  S1/S2 are bundled schemas or clean generated edits
# (no planted boundary description), saved merged or -- partnered libraries -- unmerged.

HISTORY_FMTS = ("xml", "mediawiki", "tsv")


def _schema_of(spec):
    from hed.schema import load_schema, from_string
    c = ctx_for(spec["schema"], spec.get("base", "merged"))
    if spec["kind"] == "bundled":
        return load_schema(c.path), c
    root = copy.deepcopy(c.root)
    for op in spec["ops"]:
        apply_op(root, op)
    return from_string(ET.tostring(root, encoding="unicode"), ".xml"), c


def _loc_path(fmt, loc):
    return loc + ".xml" if fmt == "xml" else loc + ".mediawiki" if fmt == "mediawiki" else loc


def _save_at(s, fmt, loc, m):
    p = _loc_path(fmt, loc)
    if fmt == "xml":
        s.save_as_xml(p, m)
    elif fmt == "mediawiki":
        s.save_as_mediawiki(p, m)
    else:
        s.save_as_dataframes(p, m)
    return p


def _snapshot(p):
    """{relative file name: bytes} of a file or folder."""
    out = {}
    if os.path.isdir(p):
        for dp, _, fs in os.walk(p):
            for f in fs:
                with open(os.path.join(dp, f), "rb") as fh:
                    out[os.path.relpath(os.path.join(dp, f), p)] = fh.read()
    elif os.path.exists(p):
        with open(p, "rb") as fh:
            out[""] = fh.read()
    return out


def run_history(case):
    """case = {"kind":"history","fmt":..,"s1":spec,"m1":bool,"s2":spec,"m2":bool}; same result shape as run_case."""
    from hed.schema import load_schema
    t0 = time.process_time()
    res = {"case": case, "outcome": "ok", "failures": [], "n_roundtrips": 0, "stats": {"history": 1}}
    d = C.scratch_dir("hedverif-c05h-")
    try:
        fmt = case["fmt"]
        try:
            s1, _ = _schema_of(case["s1"])
            s2, c2 = _schema_of(case["s2"])
        except Exception as e:  # noqa -- an edit the implementation refuses is not a history question
            res["outcome"] = "edit_rejected"
            res["stats"]["rejected_with"] = f"{type(e).__name__}: {str(e)[:120]}"
            return res
        m1 = bool(case["m1"]) or not s1.with_standard
        m2 = bool(case["m2"]) or not s2.with_standard
        loc, fresh = os.path.join(d, "loc", "sch"), os.path.join(d, "fresh", "sch")
        os.makedirs(os.path.dirname(loc))
        os.makedirs(os.path.dirname(fresh))
        wit = f"{fmt}: save {_case_witness(case['s1'])} (merged={m1}), then {_case_witness(case['s2'])} (merged={m2})"
        try:
            _save_at(s1, fmt, loc, m1)
            p = _save_at(s2, fmt, loc, m2)
            pf = _save_at(s2, fmt, fresh, m2)
        except Exception as e:  # noqa
            res["failures"].append(_fail("history-reload-equals-last", fmt, m2, f"save raised {type(e).__name__}: {str(e)[:200]}",
                                         witness=wit))
            return res
        a, b = _snapshot(p), _snapshot(pf)
        if fmt == "tsv":
            # sch_<Suffix>.tsv -> Suffix
            res["tsv_files"] = sorted(k[len("sch_"):-len(".tsv")] for k in b)
        if a != b:
            extra = sorted(set(a) - set(b))
            missing = sorted(set(b) - set(a))
            changed = sorted(k for k in set(a) & set(b) if a[k] != b[k])
            res["failures"].append(_fail(
                "save-overwrites-location", fmt, m2,
                f"after two saves the location differs from a single save of the last schema: left over {extra}, "
                f"missing {missing}, different content {changed}", witness=wit))
        try:
            r = load_schema(p)
            res["n_roundtrips"] = 1
            if not (r == s2):
                dd = schema_diff(s2, r)
                res["failures"].append(_fail("history-reload-equals-last", fmt, m2,
                                             f"reload after two saves != last schema saved: {_fmt_diff(dd)}",
                                             witness=wit))
        except Exception as e:  # noqa
            res["failures"].append(_fail("history-reload-equals-last", fmt, m2,
                                         f"load raised {type(e).__name__}: {str(e)[:200]}", witness=wit))
    except Exception:  # noqa
        res["failures"].append(_fail("harness-error", None, None, traceback.format_exc()[-1500:]))
    finally:
        shutil.rmtree(d, ignore_errors=True)
        res["stats"]["cpu_s"] = round(time.process_time() - t0, 2)
    return res


def _sections_edit(rng, schema, base):
    """An edit that puts entries into sections that are empty in an unmerged save of the bundled schema: a unit
    class with units, a value class and a unit modifier (plus one ordinary op)."""
    c = ctx_for(schema, base)
    g = _Gen(rng, c, None, plant_names=False)
    g.op_add_unit_class()
    g.op_add_value_class()
    g.op_add_modifier()
    g.op_add_tag()
    return {"kind": "edit", "schema": schema, "base": base, "ops": g.ops, "files": False}


def gen_histories(rng, tier):
    """Deterministic list of history cases."""
    have = set(bundled())
    out = []

    def B(f):
        return {"kind": "bundled", "schema": f}

    def add(fmt, s1, m1, s2, m2):
        if all(x["schema"] in have for x in (s1, s2)):
            if fmt == "tsv" and any(x["schema"] in LEGACY_LIBS for x in (s1, s2)):
                return
            out.append({"kind": "history", "fmt": fmt, "s1": s1, "m1": m1, "s2": s2, "m2": m2})
    partnered = ["HED_score_2.0.0.xml", "HED_testlib_2.0.0.xml"] + (
        ["HED_score_1.1.0.xml", "HED_testlib_2.1.0.xml", "HED_testlib_3.0.0.xml"] if tier == "thorough" else [])
    # another bundled schema over it (a newer standard schema has sections/attributes the older one lacks)
    for fmt in HISTORY_FMTS:
        add(fmt, B("HED8.3.0.xml"), True, B("HED8.0.0.xml"), True)
        add(fmt, B("HED_score_2.0.0.xml"), True, B("HED_testlib_2.0.0.xml"), False)
    # merged then unmerged (and back) of one partnered library
    for lib in partnered:
        for fmt in HISTORY_FMTS if tier == "thorough" else ("tsv", rng.choice(["xml", "mediawiki"])):
            add(fmt, B(lib), True, B(lib), False)
        add("tsv", B(lib), False, B(lib), True)
    # S1 = S2 plus entries in sections that S2 leaves empty; S1 = edit, S2 = the same with entries removed
    n = 4 if tier == "quick" else 40
    for i in range(n):
        r = random.Random(rng.getrandbits(64))
        lib = r.choice(partnered)
        base = r.choice(["merged", "unmerged"])
        fmt = "tsv" if i % 2 == 0 else r.choice(HISTORY_FMTS)
        add(fmt, _sections_edit(r, lib, base), False, B(lib), False)
    for i in range(n):
        r = random.Random(rng.getrandbits(64))
        schema, base = r.choice([("HED8.3.0.xml", "merged"), ("HED_score_2.0.0.xml", "merged"),
                                 ("HED_testlib_2.0.0.xml", "unmerged"), ("HED8.2.0.xml", "merged")])
        s1 = gen_edit_case(r, schema, base, None, plant_names=False)
        s2 = gen_edit_case(r, schema, base, None, plant_names=False)
        add(r.choice(HISTORY_FMTS), s1, r.random() < 0.5, s2, r.random() < 0.5)
    return out


def run_multilib_case(case):
    info = []
    try:
        fails = run_multilib(case.get("tier", "quick"), info)
    except Exception:  # noqa
        fails = [_fail("harness-error", None, None, traceback.format_exc()[-1500:])]
    return {"case": case, "outcome": "ok", "failures": fails, "n_roundtrips": 0,
            "stats": {"multilib_merges": len(info)}, "merges": info}


def run_any(case):
    if case.get("kind") == "history":
        return run_history(case)
    if case.get("kind") == "multilib":
        return run_multilib_case(case)
    return run_case(case)
