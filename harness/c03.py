"""C03 -- Every spelling of a schema tag resolves to the same node and canonical forms."""
import json
import os
import random
import shutil
import sys
from concurrent.futures import ThreadPoolExecutor
from multiprocessing import Pool

from harness import common as C
from harness import schema_xml as X

PROP = "C03"
# 1 (default): /repo contains the two repairs (fix commit de8c862 = fix-F1: walk over the text as written; fix commit
# 03a83bd = fix-F2: never step onto a '#'
# placeholder) -- the repaired model is compared and the oracle demands the full statement.
# 0: the code before the repairs, against the unrepaired model; the two historical finding classes are tolerated.
FIXED = int(os.environ.get("VERIF_C03_FIXED", "1"))
HISTORICAL = {
    "C03-F1": "(repaired by fix commit de8c862) a spelling through a code point whose str.casefold() is longer than one code point "
              "('Preß/abc') had its extension cut at an index of the folded text: short_tag 'Pressabc'",
    "C03-F2": "(repaired by fix commit 03a83bd) 'Duration/#/#/more': the walk stepped onto the '#' placeholder, so short(short(t)) != short(t)",
}
COQ_TARGETS = ["Props/C03.vo", "Extract/ExtractC03.vo"]
DRIVERS = ["c03"]

# the bundled vocabularies Props/C03.v has a well-formedness obligation for; a new or vanished schema file is a
# broken tie (translate() fails closed) until Props/C03.v is extended
EXPECTED = ["8_0_0", "8_1_0", "8_2_0", "8_3_0", "score_1_0_0", "score_1_1_0", "score_2_0_0",
            "testlib_1_0_2", "testlib_2_0_0", "testlib_2_1_0", "testlib_3_0_0"]
QUICK_SCHEMAS = ["8_3_0", "testlib_2_0_0"]

TRUSTED = [
    "models Model/Schema.v, Model/Resolve.v are hand transcriptions of HedSchemaTagSection._get_tag_forms/"
    "_create_tag_entry/_check_if_duplicate/get, HedSchema.find_tag_entry/_find_tag_entry/_find_tag_subfunction/"
    "_validate_remaining_terms, HedTagEntry.finalize_entry (takes_value_child_entry) and the HedTag form properties; "
    "tied by the correspondence run (lookup table, entry, remainder, namespace, six form properties)",
    "translator T4 (harness/schema_xml.py): bundled XML read with xml.etree independently of hed-python; the tag "
    "tables in coq/Gen/Schema_<v>.v are regenerated on every run and WFschema re-evaluated by the kernel when "
    "they change (coq/Gen/SchemaWF_<v>.v)",
    "case folding: str.casefold is modelled as a map from code points to strings; the theorems hold for every such "
    "folding that erases nothing and keeps '/' and '#' apart from everything else; the extracted model uses the "
    "table translator T6 reads off CPython's str.casefold for every code point (coq/Gen/FoldTable.v, regenerated on "
    "every run, side conditions re-evaluated in the kernel), so no text is outside the model; trusted: that CPython "
    "folds a string code point by code point",
    "the XML loader (xml2schema/base2schema), attribute inheritance and entry finalisation other than "
    "takes_value_child_entry are not modelled; the registration order and names come from T4",
]
ASSUMPTIONS = [
    "column entry points (df_util.convert_to_form on a Series / DataFrame with given or all columns, TabularInput and "
    "SpreadsheetInput convert_to_long/short) are not modelled: columns with several cells -- families equal up to letter "
    "case that differ or not in the case of a value/extension, repeats, empty cells, one-cell and all-equal columns -- are "
    "checked cell by cell against the T4 specification and the cell converted alone, with long/short round trips "
    "(testing; harness/c03_cols.py).  Row labels of the Series/frames are an input dimension of these entry points "
    "(default, offset, gaps, permutation, reversed, strings, frames re-ordered by sort_dataframe_by_onsets): every row "
    "must get the conversion of its own cell, labels and order unchanged -- tested only.  Values that are a '#' "
    "placeholder followed by a unit/label in mixed case ('# Hz', '# degree Celsius', '# µV') are part of the value "
    "streams; that they are carried verbatim is an instance of C03_remainder_verbatim / C03_extension_is_written.  "
    "Values and extensions with ':' and '/' in every order (URLs, paths, time ranges) are part of every value/extension "
    "stream: the namespace is only what precedes a ':' that comes before the first '/' (model: get_schema_namespace; the "
    "specification expects the node and the verbatim value).  "
    "Proved on the model side: C03_extension_is_written",
    "by construction of the model, not proved of the implementation: a lookup leaves the model's table untouched and "
    "reading/copying a HedTag is an identity step (the code in /repo has no memo or cached forms); C03_tag_reads_invisible "
    "and the lookup half of C03_schema_history only record this shape.  Proved: C03_merge_incremental (merging into an "
    "existing table = building from scratch).  That the implementation has no stale state is tested by the history runs",
    "generated schemas: WFschema is evaluated by the extracted model in the harness, not in the kernel (kernel "
    "evaluation: the 11 bundled vocabularies; premises of C03_remainder_verbatim: C03_remainder_verbatim_premises_met)",
    "schema configurations (load_schema_version: namespaced, merged under one prefix, merged un-prefixed, groups) are "
    "compared member by member with the model on the merged name list predicted from T4 (first library entirely, then "
    "the inLibrary nodes of the others); which combinations are mergeable is predicted from T4 (same withStandard, no "
    "case-folded short-name clash) and a refusal to load one of them is a violation",
    "histories (harness/c03_hist.py): the answers of one schema object after lookups followed by deriving the partnered "
    "library from it / merging a further library into it, and the forms of one HedTag/HedString after reads and public "
    "mutations (replace_placeholder, extension setter, short_base_tag setter via expand/shrink of definitions, copy), are "
    "compared with the model on the current vocabulary (C03_schema_history), the T4 specification, the same sequence "
    "without the earlier lookups in a fresh process, and freshly parsed tags (C03_mutated_tag_reparses); the short_base_tag "
    "setter's takes-value test is modelled as 'the entry is a # node'",
    "generated schemas with duplicate (case-insensitively equal) tag names load without error but are not well "
    "formed: on them only model-vs-implementation agreement is checked, not the statement's equations",
    "theorems are for all schemas with WFschema = true (checked in the kernel for the 11 bundled vocabularies) and "
    "all texts, for the code as it is in /repo, i.e. with fix commits de8c862 (C03-F1) and 03a83bd (C03-F2); the "
    "behaviour before these commits is kept, labelled as such, as "
    "*_before_*_fix / *_refuted_before_*_fix theorems",
    "HedString.get_as_short/get_as_long and df_util.convert_to_form are checked on the implementation only (testing)",
]


def _wf_file(k):
    return (f"(* GENERATED by harness/c03.py: kernel evaluation of C03's well-formedness predicate on the\n"
            f"   T4 tag table of schema {k}.  Do not edit. *)\n"
            "From Coq Require Import List NArith.\n"
            "From HV Require Import Base.Str Base.SchemaData Model.Schema.\n"
            f"From HV Require Gen.Schema_{k} Gen.FoldTable.\n\n"
            f"Lemma wf : WFschema FoldTable.py_fold (map td_long Schema_{k}.tags) = true.\n"
            "Proof. vm_cast_no_check (eq_refl true). Qed.\n\n"
            "(* no ',' '(' ')' in a name, no component starting with a blank, no name ending with one *)\n"
            f"Lemma clean : names_clean (map td_long Schema_{k}.tags) = true.\n"
            "Proof. vm_cast_no_check (eq_refl true). Qed.\n")


def casefold_table():
    """Translator T6: CPython's str.casefold for every non-ASCII code point it changes."""
    return [(c, chr(c).casefold()) for c in range(128, 0x110000) if chr(c).casefold() != chr(c)]


def _fold_file():
    rows = ";\n".join(f"  ({c}, {X.coq_str(f)})" for c, f in casefold_table())
    return ("(* GENERATED by harness/c03.py (translator T6) from CPython's str.casefold: every code point >= 128\n"
            "   whose case folding differs from itself (ASCII is folded by ascii_lower).  Do not edit. *)\n"
            "From Coq Require Import List NArith.\n"
            "From HV Require Import Base.Str Model.Schema.\n"
            "Import ListNotations.\nLocal Open Scope N_scope.\n\n"
            "Definition casefold_table : list (N * str) := [\n" + rows + "\n].\n\n"
            "(* str.casefold of one code point *)\n"
            "Definition py_fold : N -> str := table_fold casefold_table.\n")


def translate():
    allsch = X.load_all()
    if sorted(allsch) != sorted(EXPECTED):
        raise ValueError(f"bundled schema set changed: {sorted(allsch)} (Props/C03.v covers {sorted(EXPECTED)})")
    for k, s in allsch.items():
        for t in X.schema_for_use(k, allsch)["tags"]:
            if not all(32 <= ord(c) < 127 for c in t["long"]):
                raise ValueError(f"non-ASCII tag name in {k}: {t['long']!r} (outside the modelled case folding)")
    X.translate()
    for c in range(128):     # the ASCII half of the folding is ascii_lower
        if chr(c).casefold() != ascii_lower(chr(c)):
            raise ValueError(f"str.casefold differs from ASCII lower-casing at code point {c}")
    C.write_if_changed(os.path.join(C.COQ, "Gen", "FoldTable.v"), _fold_file())
    for k in EXPECTED:
        C.write_if_changed(os.path.join(C.COQ, "Gen", f"SchemaWF_{k}.v"), _wf_file(k))
    return allsch


# ---------------------------------------------------------------------------------------------
# schemas under test: ("file", key) bundled | ("xml", id, text, names) generated
# ---------------------------------------------------------------------------------------------

TAIL = ("<unitClassDefinitions><unitClassDefinition><name>genUnits</name></unitClassDefinition></unitClassDefinitions>"
        "<unitModifierDefinitions><unitModifierDefinition><name>genmod</name></unitModifierDefinition>"
        "</unitModifierDefinitions><valueClassDefinitions><valueClassDefinition><name>genClass</name>"
        "</valueClassDefinition></valueClassDefinitions><schemaAttributeDefinitions><schemaAttributeDefinition>"
        "<name>genAttr</name></schemaAttributeDefinition></schemaAttributeDefinitions><propertyDefinitions>"
        "<propertyDefinition><name>genProperty</name></propertyDefinition></propertyDefinitions>")

_ALL = None
_SCRATCH = None


def allsch():
    global _ALL
    if _ALL is None:
        _ALL = X.load_all()
    return _ALL


def ascii_lower(s):
    return "".join(chr(ord(c) + 32) if "A" <= c <= "Z" else c for c in s)


def in_alphabet(text):
    """Texts the extracted model may be compared on: str.casefold folds them code point by code point
    (the model's table is CPython's own, so this is a check of that one assumption)."""
    return text.isascii() or text.casefold() == "".join(c.casefold() for c in text)


def forms_of(long):
    parts = long.split("/")
    out = ["/".join(parts[i:]) for i in range(len(parts))]
    return [f for f in out if f != "#"]


class Vocab:
    """Independent (T4) view of one schema: names in registration order and the specification table."""

    def __init__(self, sid, names, spec):
        self.sid, self.names, self.spec = sid, names, spec
        self.nameset = set(names)
        self.value_forms = set()
        self.short = {}
        self.long_base = {}
        for n in names:
            if n.endswith("/#"):
                base = n[:-2]
                for f in forms_of(n):
                    self.value_forms.add(f.casefold())
            else:
                base = n
            self.long_base[n] = base
            self.short[n] = base.split("/")[-1]
        self.keys = {}       # specification table (only meaningful for well-formed vocabularies)
        self.conflict = False
        for n in names:
            for f in forms_of(n):
                k = f.casefold()
                if k in self.keys and self.keys[k] != n:
                    self.conflict = True
                self.keys.setdefault(k, n)
        self.shortkeys = {}
        for n in names:
            if not n.endswith("/#"):
                self.shortkeys.setdefault(self.short[n].casefold(), n)


# ---------------------------------------------------------------------------------------------
# implementation side (worker processes)
# ---------------------------------------------------------------------------------------------

_W = {}


def _winit(scratch):
    from hed.schema import hed_cache
    hed_cache.set_cache_directory(os.path.join(scratch, "hed_cache"))


def _wschema(spec, ns):
    """The schema object of a case group.  ("version", id, json) is a schema CONFIGURATION loaded through
    load_schema_version: a single, namespaced, merged-under-one-prefix schema or a HedSchemaGroup; tags are always
    identified against the whole object, `ns` then names the member the group's cases are written for."""
    if spec[0] == "version":
        key = (spec[0], spec[1], None)
        if key not in _W:
            from hed.schema import load_schema_version
            _W[key] = load_schema_version(json.loads(spec[2]))
        return _W[key]
    key = (spec[0], spec[1], ns)
    if key not in _W:
        from hed.schema import load_schema, from_string
        nsarg = ns[:-1] if ns else ""
        if spec[0] == "file":
            _W[key] = load_schema(os.path.join(C.REPO, X.SCHEMA_DIR, spec[2]), schema_namespace=nsarg)
        else:
            _W[key] = from_string(spec[2], schema_format=".xml", schema_namespace=nsarg)
    return _W[key]


def py_namespace(text):
    """The namespace a tag text names (independent re-statement: up to the first ':' unless a '/' comes first)."""
    i, j = text.find(":"), text.find("/")
    return text[:i + 1] if i >= 0 and not (0 <= j < i) else ""


def config_members(arg):
    """Independent (T4) reading of a load_schema_version argument: [(namespace, [schema keys merged in order])]."""
    items = [arg] if isinstance(arg, str) else list(arg)
    members = {}
    for it in items:
        pre, _, rest = it.rpartition(":")
        ns = pre + ":" if pre else ""
        for v in rest.split(","):
            lib, _, ver = v.rpartition("_")
            key = (lib + "_" if lib else "") + ver.replace(".", "_")
            members.setdefault(ns, []).append(key)
    return list(members.items())


def config_names(keys):
    """Names of libraries merged in order: all of the first, then the library's own (inLibrary) nodes of the others."""
    A = allsch()
    names = [t["long"] for t in X.schema_for_use(keys[0], A)["tags"]]
    for k in keys[1:]:
        if A[k]["withStandard"] != A[keys[0]]["withStandard"] or not A[k]["withStandard"]:
            raise ValueError("not mergeable")
        names += [t["long"] for t in X.schema_for_use(k, A)["tags"] if "inLibrary" in t["attrs"]]
    return names


def _tagobs(h):
    e = h._schema_entry
    return [e.name if e else None, h._extension_value or "", h.schema_namespace, h.short_tag, h.long_tag,
            h.base_tag, h.short_base_tag, h.org_base_tag, h.extension]


def impl_batch(arg):
    """-> per text: [obs(h), obs(hs)[0:5], obs(hl)[0:5]] or {"exn": ...}"""
    spec, ns, texts = arg
    from hed.models.hed_tag import HedTag
    out = []
    try:
        sch = _wschema(spec, ns)
    except Exception as e:  # noqa
        return [{"exn": "load:" + type(e).__name__ + ":" + str(e)[:100]}] * len(texts)
    for t in texts:
        try:
            h = HedTag(t, sch)
            o = _tagobs(h)
            hs = HedTag(h.short_tag, sch)
            hl = HedTag(h.long_tag, sch)
            out.append([o, _tagobs(hs)[:5], _tagobs(hl)[:5], bool(h.tag_exists_in_schema())])
        except Exception as e:  # noqa
            out.append({"exn": type(e).__name__ + ":" + str(e)[:100]})
    return out


def impl_table(arg):
    spec, ns = arg
    try:
        sch = _wschema(spec, ns)
    except Exception as e:  # noqa
        return {"exn": "load:" + type(e).__name__ + ":" + str(e)[:200]}
    if spec[0] == "version" and hasattr(sch, "schema_for_namespace") and not hasattr(sch, "tags"):
        sch = sch.schema_for_namespace(ns)
        if sch is None:
            return {"exn": f"load: no member schema for namespace {ns!r}"}
    if spec[0] == "version" and sch._namespace != ns:
        return {"exn": f"load: configuration has namespace {sch._namespace!r}, expected {ns!r}"}
    sec = sch.tags
    return {"table": {k: v.name for k, v in sec.long_form_tags.items()},
            "names": list(sec.all_names.keys()),
            "dups": {k: [e.name for e in v] for k, v in sec.duplicate_names.items()},
            "vchild": {v.name: (v.takes_value_child_entry.name if v.takes_value_child_entry else None)
                       for v in sec.all_names.values()},
            "forms": {v.name: [v.long_tag_name, v.short_tag_name] for v in sec.all_names.values()},
            "ns": sch._namespace}


def impl_strings(arg):
    """HedString.get_as_short/long and df_util.convert_to_form on whole annotations."""
    spec, ns, items = arg
    import pandas as pd
    from hed.models.hed_string import HedString
    from hed.models.df_util import convert_to_form
    try:
        sch = _wschema(spec, ns)
    except Exception as e:  # noqa
        return [{"exn": "load:" + type(e).__name__ + ":" + str(e)[:100]}] * len(items)
    out = []
    for texts in items:
        s = texts[0] + ", (" + ", ".join(texts[1:]) + ")" if len(texts) > 1 else texts[0]
        try:
            hs = HedString(s, sch)
            r = {"short": hs.get_as_short(), "long": hs.get_as_long()}
            for form in ("short_tag", "long_tag"):
                df = pd.DataFrame({"HED": [s, s], "other": ["x", "y"]})
                convert_to_form(df, sch, form, columns=["HED"])
                r["df_" + form] = list(df["HED"])
                ser = pd.Series([s])
                convert_to_form(ser, sch, form)
                r["ser_" + form] = list(ser)
            out.append(r)
        except Exception as e:  # noqa
            out.append({"exn": type(e).__name__ + ":" + str(e)[:100]})
    return out


# ---------------------------------------------------------------------------------------------
# model side
# ---------------------------------------------------------------------------------------------

def model_sessions(exe, sessions):
    """sessions: list of (names, ns, texts, want_table).  Returns list of (header, [answers])."""
    def one(sess):
        names, ns, texts, want = sess
        hdr = "(" + ("S" if want else "s") + " " + str(1 if FIXED else 0) + " " + C.to_sx(C.cps(ns)) + " " + \
              " ".join(C.to_sx(C.cps(n)) for n in names) + ")"
        lines = [hdr] + ["(Q " + C.to_sx(C.cps(t)) + ")" for t in texts]
        out = C.run_driver(exe, lines, shards=1)
        return out[0], out[1:]
    with ThreadPoolExecutor(max_workers=int(C.JOBS)) as ex:
        return list(ex.map(one, sessions))


def dec(a):
    """a string atom of the driver: 's' + code points joined by '.'"""
    return "".join(chr(int(x)) for x in a[1:].split(".")) if len(a) > 1 else ""


def model_obs(m):
    """driver answer -> same shape as _tagobs"""
    if m[0] == "F":
        return [dec(m[1]), dec(m[2])] + [dec(x) for x in m[3:10]]
    if m[0] == "N":
        return [None, ""] + [dec(x) for x in m[2:9]]
    return ["<model error>", str(m)]


# ---------------------------------------------------------------------------------------------
# case generation
# ---------------------------------------------------------------------------------------------

# incl. extensions/values with ':' and '/' in every order (URLs, paths, time ranges): the namespace is only what
# precedes a ':' that comes before the FIRST '/'
EXT_WORDS = ["Qzx9", "my-ext_1", "Wvv8/Zed7", "x", "Qzx9/", "ab cd", "日本", "é1", "Q#", "#x", "kq:vq/wq", "Wvv8/k:v"]
# incl. the '#' placeholder followed by a unit or label in mixed case (sidecar templates: 'Frequency/# Hz')
VALUES = ["3.5 mJx", "12", "-1.5e3 qq", "some text", "3:4", "a/b/c", "@home", "3 ms", "#", "# ms", "# Hz",
          "# degree Celsius", "# Trial_A", "# µV", "https://example.org/Data", "C:/data/Sub-01_events.tsv",
          "12:30/13:00", "a/b:c/d"]
CASES = ["asis", "upper", "lower", "random"]


def recase(rng, s, how):
    if how == "asis":
        return s
    if how == "upper":
        return s.upper()
    if how == "lower":
        return s.lower()
    return "".join(c.upper() if rng.random() < 0.5 else c.lower() for c in s)


def expect(voc, name, spelled, extkind, ext, ns):
    """Specification (from T4 only) of what a spelling must be identified as."""
    base = voc.long_base[name]
    short = voc.short[name]
    if name.endswith("/#"):
        node, rem = name, "/#"
    elif extkind == "none":
        node, rem = name, ""
    else:
        rem = "/" + ext
        node = name + "/#" if (name + "/#") in voc.nameset else name
    obase = ns + spelled
    if name.endswith("/#"):          # org_base_tag = the text without the value/extension part
        obase = obase[:-2]
    return {"node": node, "rem": rem, "ns": ns, "short": ns + short + rem, "long": ns + base + rem,
            "base": base, "sbase": short, "obase": obase, "ext": rem[1:]}


def ext_ok(voc, name, ext):
    """The extension is one the statement speaks about: on a node without '#' child no term may itself be a tag."""
    if (name + "/#") in voc.nameset:
        return True
    return not any(t.casefold() in voc.keys for t in ext.split("/"))


def structured_cases(rng, voc, ns, combos_per_form):
    """Every tag x every suffix spelling x (case, ext kind) -- all combinations when combos_per_form is None."""
    combos = [(c, e) for c in CASES for e in ("none", "ext", "value")]
    out = []
    for name in voc.names:
        for f in forms_of(name):
            chosen = combos if combos_per_form is None else rng.sample(combos, combos_per_form)
            for how, ek in chosen:
                sp = recase(rng, f, how)
                if name.endswith("/#"):
                    ek, ext, text = "none", "", ns + sp
                elif ek == "none":
                    ext, text = "", ns + sp
                else:
                    ext = rng.choice(EXT_WORDS if ek == "ext" else VALUES)
                    if not ext_ok(voc, name, ext):
                        ext = "Qzx9"
                    text = ns + sp + "/" + ext
                    # a suffix that continues to a deeper registered form is not an extension
                    if (sp + "/" + ext.split("/")[0]).casefold() in voc.keys or (sp + "/" + ext).casefold() in voc.keys:
                        continue
                out.append({"kind": "spelling", "text": text, "name": name, "form": f, "case": how, "extkind": ek,
                            "exp": expect(voc, name, sp, ek, ext, ns)})
    return out


def malformed_cases(rng, voc, ns, n):
    frag = []
    for name in rng.sample(voc.names, min(len(voc.names), 40)):
        frag += name.split("/")
    frag = [x for x in frag if x] + ["#", "", "Qzx9", "x y", ":", "a:b", "ts:", "xx:", "//", " "]
    out = []
    for _ in range(n):
        k = rng.randint(1, 5)
        t = "/".join(recase(rng, rng.choice(frag), rng.choice(CASES)) for _ in range(k))
        r = rng.random()
        if r < 0.3:
            t = ns + t
        elif r < 0.4:
            t = "xx:" + t
        elif r < 0.5:
            t = t + "/"
        elif r < 0.55:
            t = "/" + t
        out.append({"kind": "malformed", "text": t})
    return out


def unicode_cases(rng, voc, ns, n):
    """Spellings through code points whose casefold is an ASCII letter or longer than one code point."""
    subs = [("ss", "ß"), ("fi", "ﬁ"), ("s", "ſ"), ("k", "K"), ("ff", "ﬀ"), ("st", "ﬆ"), ("fl", "ﬂ"),
            ("ss", "ẞ"), ("ffi", "ﬃ"), ("a", "A"), ("e", "E")]
    out = []
    cands = [nm for nm in voc.names if not nm.endswith("/#")]
    rng.shuffle(cands)
    for name in cands:
        if len(out) >= n:
            break
        f = rng.choice(forms_of(name))
        for a, b in subs:
            places = [i for i in range(len(f)) if f.lower().startswith(a, i)]
            if not places:
                continue
            i = rng.choice(places)
            sp = f[:i] + b + f[i + len(a):]
            if sp.casefold() != f.casefold() or sp == f:
                continue
            for ek in ("none", "ext", "value"):
                ext = "" if ek == "none" else ("Qzx9" if ek == "ext" else "3 ßtraße")
                if ek != "none" and not ext_ok(voc, name, ext):
                    continue
                text = ns + sp + ("/" + ext if ext else "")
                out.append({"kind": "unicode", "text": text, "name": name, "form": f, "case": "unicode",
                            "extkind": ek, "exp": expect(voc, name, sp, ek, ext, ns),
                            "len_changing": len(b.casefold()) != len(b)})
    return out


def placeholder_cases(rng, voc, ns, n):
    """A '#' placeholder spelled explicitly and followed by more text (the class of the repaired C03-F2)."""
    out = []
    vals = [nm for nm in voc.names if nm.endswith("/#")]
    rng.shuffle(vals)
    for name in vals[:n]:
        f = rng.choice(forms_of(name))
        sp = recase(rng, f, rng.choice(CASES))
        for tail in ("#/more", "x", "#", "#/#/y", "3 ms", "x/#/z"):
            c = {"kind": "placeholder-tail", "text": ns + sp + "/" + tail, "name": name, "form": f, "case": "tail",
                 "extkind": "value"}
            if FIXED:   # the whole of "/#/tail" is the value of the node's placeholder
                e = expect(voc, name[:-2], sp[:-2], "value", "#/" + tail, ns)
                c["exp"] = e
            out.append(c)
    return out


def is_f1(text):
    """finding C03-F1: a code point whose str.casefold() is not a single code point"""
    return any(len(c.casefold()) != 1 for c in text)


def is_f2(voc, ns, text):
    """finding C03-F2: a registered spelling of a '#' placeholder node followed by '/#/...'"""
    clean = text[len(ns):] if ns and text.startswith(ns) else text
    low = clean.casefold()
    i = low.find("/#/#/")
    while i >= 0:
        if low[:i + 2] in voc.value_forms:
            return True
        i = low.find("/#/#/", i + 1)
    return False


# ---------------------------------------------------------------------------------------------
# generated schemas
# ---------------------------------------------------------------------------------------------

POOL = ["Alpha", "Beta", "Gamma", "Delta", "alpha", "BETA", "Eps-1", "Zeta_2", "Eta", "Theta", "A", "B", "a"]


def gen_tree(rng, wellformed):
    """-> nested [(name, children)], with name collisions (also by case) unless wellformed."""
    used = set()

    def node(depth):
        for _ in range(20):
            nm = rng.choice(POOL)
            if not wellformed or nm.casefold() not in used:
                break
        else:
            return None
        used.add(nm.casefold())
        kids = []
        if depth < 3:
            for _ in range(rng.choice([0, 0, 1, 2, 3])):
                k = node(depth + 1)
                if k:
                    kids.append(k)
        if rng.random() < 0.35:
            kids.insert(rng.randint(0, len(kids)), ("#", []))
        return (nm, kids)
    roots = []
    for _ in range(rng.randint(1, 3)):
        r = node(0)
        if r:
            roots.append(r)
    return roots


def tree_xml(nodes, rooted=None):
    out = []
    for nm, kids in nodes:
        attr = ""
        if nm == "#":
            attr = "<attribute><name>takesValue</name></attribute>"
        if rooted and nm in rooted:
            attr += f"<attribute><name>rooted</name><value>{rooted[nm]}</value></attribute>"
        out.append(f"<node><name>{nm}</name>{attr}{tree_xml(kids)}</node>")
    return "".join(out)


def gen_schema(rng, i, std_voc=None):
    """A generated standalone schema, or (std_voc given) an unmerged library partnered with 8.3.0 whose roots are
    partly rooted in standard tags.  Returns (spec, names) with names from the independent T4 reading."""
    if std_voc is None:
        tree = gen_tree(rng, wellformed=rng.random() < 0.5)
        xml = f'<?xml version="1.0" ?><HED version="1.0.{i}"><schema>{tree_xml(tree)}</schema>{TAIL}</HED>'
    else:
        def ren(nodes):
            return [((nm if nm == "#" else "Lib-" + nm), ren(kids)) for nm, kids in nodes]
        tree = ren(gen_tree(rng, wellformed=True))
        seen, roots = set(), []
        for r in tree:
            if r[0].casefold() not in seen:
                seen.add(r[0].casefold())
                roots.append(r)
        rooted = {}
        cands = [n for n in std_voc.names if not n.endswith("/#")]
        for r in roots:
            if rng.random() < 0.7:
                rooted[r[0]] = std_voc.short[rng.choice(cands)]
        xml = (f'<?xml version="1.0" ?><HED version="1.0.{i}" library="gen" withStandard="8.3.0" unmerged="True">'
               f'<schema>{tree_xml(roots, rooted)}</schema>{TAIL}</HED>')
    path = os.path.join(_SCRATCH, f"gen_{i}.xml")
    with open(path, "w") as f:
        f.write(xml)
    s = X.load_file(path)
    os.remove(path)
    if std_voc is not None:
        s = X.merged_view(s, allsch()["8_3_0"])
    return ("xml", f"gen{i}", xml), [t["long"] for t in s["tags"]]


# ---------------------------------------------------------------------------------------------
# schema configurations
# ---------------------------------------------------------------------------------------------

PREFIXES = ["tl", "sc", "ab", "x"]


def mergeable_sets():
    """Every ordered selection of >= 2 bundled partnered libraries that the specification says can be merged:
    same withStandard and no two nodes with the same case-folded short name."""
    import itertools
    A = allsch()
    libs = [k for k in EXPECTED if A[k]["withStandard"]]
    out = []
    for r in (2, 3):
        for combo in itertools.permutations(libs, r):
            try:
                names = config_names(list(combo))
            except ValueError:
                continue
            shorts = [n.split("/")[-1].casefold() for n in names if not n.endswith("/#")]
            if len(shorts) == len(set(shorts)):
                out.append(list(combo))
    return out


def vname(k):
    lib, _, rest = k.partition("_") if not k[0].isdigit() else ("", "", k)
    return (lib + "_" if lib else "") + rest.replace("_", ".")


def schema_configurations(rng, quick):
    """load_schema_version arguments.  Every run covers each KIND of configuration; which libraries and which
    prefix is drawn from the seed (thorough: every mergeable pair in both notations)."""
    A = allsch()
    sets = mergeable_sets()
    pairs = [c for c in sets if len(c) == 2]
    triples = [c for c in sets if len(c) == 3]
    singles = [k for k in EXPECTED]
    out = []

    def one_prefix_string(combo, p):
        return f"{p}:" + ",".join(vname(k) for k in combo)

    def one_prefix_list(combo, p):
        return [f"{p}:{vname(k)}" for k in combo]
    chosen = [rng.choice(pairs), rng.choice(pairs)]     # (triples: thorough tier)
    if not quick:
        chosen = pairs + triples[:6]
    for i, combo in enumerate(chosen):
        p = rng.choice(PREFIXES)
        out.append(one_prefix_string(combo, p) if (i % 2 == 0) else one_prefix_list(combo, p))
        if not quick:
            out.append(one_prefix_list(combo, p) if (i % 2 == 0) else one_prefix_string(combo, p))
    out.append(",".join(vname(k) for k in rng.choice(pairs)))                      # merged, no prefix
    out.append(f"{rng.choice(PREFIXES)}:{vname(rng.choice(singles))}")             # namespaced single
    # groups: one namespace per member, one member possibly without prefix, one member itself merged
    a, b = rng.sample([k for k in singles if A[k]["library"] or True], 2)
    out.append([f"{rng.choice(PREFIXES[:2])}:{vname(a)}", vname(b)])
    combo = rng.choice(pairs)
    other = rng.choice([k for k in singles if k not in combo])
    out.append([f"{PREFIXES[2]}:" + ",".join(vname(k) for k in combo), f"{PREFIXES[3]}:{vname(other)}"])
    return out


# ---------------------------------------------------------------------------------------------
# checks
# ---------------------------------------------------------------------------------------------

OBS = ["node", "rem", "ns", "short", "long", "base", "sbase", "obase", "ext"]


def check_equations(r):
    """The statement's equations on the implementation's own answers: r = [obs(h), obs(hs), obs(hl), exists]."""
    h, hs, hl = r[0], r[1], r[2]
    bad = []
    if hs[4] != h[4]:
        bad.append(f"long(short(t))={hs[4]!r} != long(t)={h[4]!r}")
    if hl[3] != h[3]:
        bad.append(f"short(long(t))={hl[3]!r} != short(t)={h[3]!r}")
    if hs[3] != h[3]:
        bad.append(f"short(short(t))={hs[3]!r} != short(t)={h[3]!r}")
    if hl[4] != h[4]:
        bad.append(f"long(long(t))={hl[4]!r} != long(t)={h[4]!r}")
    if hs[0] != h[0] or hl[0] != h[0]:
        bad.append(f"nodes differ: t->{h[0]} short->{hs[0]} long->{hl[0]}")
    return bad


def check_spec(case, r):
    """Identification of a spelling against the specification computed from T4."""
    exp, h = case["exp"], r[0]
    got = dict(zip(OBS, h))
    return [f"{k}: impl={got[k]!r} spec={exp[k]!r}" for k in OBS if got[k] != exp[k]]


def case_payload(sid_spec, ns, case):
    spec = sid_spec
    d = {"schema": list(spec[:2]) + ([spec[2]] if spec[0] in ("file", "version") or len(spec[2]) < 20000 else []),
         "ns": ns, "text": case["text"], "kind": case["kind"]}
    for k in ("name", "form", "case", "extkind", "exp"):
        if k in case:
            d[k] = case[k]
    return d


def oracle_case(res, voc, spec, ns, case, r):
    """Implementation-side oracle for one case.  Returns True when the implementation meets the statement."""
    pay = case_payload(spec, ns, case)
    if isinstance(r, dict):
        res.report("never-raises", pay, r["exn"])
        return False
    ok = True
    text = case["text"]
    f1 = (not FIXED) and is_f1(text)
    f2 = (not FIXED) and is_f2(voc, ns, text)
    if "exp" in case:
        d = check_spec(case, r)
        if d:
            ok = False
            res.report("spelling-identified", pay, "; ".join(d), fid="C03-F1" if f1 else None)
    d = check_equations(r)
    if d:
        ok = False
        res.report("long-short-inverse", pay, "; ".join(d), fid="C03-F2" if f2 else ("C03-F1" if f1 else None))
    return ok


def compare_tables(res, voc, spec, ns, it, mhdr, wf_expected):
    pay = {"schema": list(spec[:2]) + ([spec[2]] if len(str(spec[2])) < 20000 else []), "ns": ns}
    n_dis = 0
    if "exn" in it:
        res.violation("schema-loads", pay, it["exn"])
        return 1
    # specification (well-formed vocabularies): exactly the folded suffix forms, each on its own node
    if wf_expected:
        if voc.conflict:
            res.violation("wf-vocabulary", pay, "T4 vocabulary has conflicting forms", no_input=True)
        if it["table"] != voc.keys:
            extra = sorted(set(it["table"].items()) ^ set(voc.keys.items()))[:6]
            res.report("table-is-all-suffix-forms", pay, f"difference {extra}")
            n_dis += 1
        if it["dups"]:
            res.report("no-duplicates", pay, str(it["dups"])[:300])
        for name in voc.names:
            want = name + "/#" if (name + "/#") in voc.nameset and not name.endswith("/#") else None
            if it["vchild"].get(name) != want:
                res.report("value-child", pay, f"{name}: {it['vchild'].get(name)} vs {want}")
                n_dis += 1
                break
            if it["forms"].get(name) != [voc.long_base[name], voc.short[name]]:
                res.report("entry-names", pay, f"{name}: {it['forms'].get(name)}")
                n_dis += 1
                break
    if mhdr is None:
        return n_dis
    if mhdr[0] != "ok":
        res.violation("correspondence", pay, f"model could not load: {mhdr}", no_input=True)
        return n_dis + 1
    mtab = {}
    for k, e in reversed(mhdr[2]):
        mtab[dec(k)] = dec(e)
    # all_names is a dict keyed by the folded long name: a name registered twice keeps its first position
    mnames = list(dict.fromkeys(dec(x).casefold() for x in reversed(mhdr[3])))
    mdups = [(dec(k), dec(nm)) for k, nm in reversed(mhdr[4])]
    idups = []
    for k, lst in it["dups"].items():
        for nm in lst[1:]:
            idups.append((k, nm))
    diffs = []
    if mtab != it["table"]:
        diffs.append(f"table differs at {sorted(set(mtab.items()) ^ set(it['table'].items()))[:6]}")
    if mnames != it["names"]:
        diffs.append("registered names differ")
    if sorted(mdups) != sorted(idups):
        diffs.append(f"duplicates model={mdups[:5]} impl={idups[:5]}")
    if wf_expected and mhdr[1] != "1":
        diffs.append("WFschema false on a bundled/well-formed vocabulary")
    if diffs:
        res.violation("correspondence-table", pay, "; ".join(diffs), no_input=True)
        n_dis += 1
    return n_dis


def run(tier, seed, res, model_ok=True, proof_ok=True):
    global _SCRATCH
    rng = random.Random(seed)
    _SCRATCH = C.scratch_dir()
    try:
        return _run(tier, seed, res, rng, model_ok, proof_ok)
    finally:
        shutil.rmtree(_SCRATCH, ignore_errors=True)


def _run(tier, seed, res, rng, model_ok, proof_ok):
    quick = tier == "quick"
    wide = not proof_ok
    if not FIXED:     # the code before the repairs: the two historical classes are tolerated (and only those)
        for fid, what in HISTORICAL.items():
            res.known_ids.setdefault(fid, {"id": fid, "what": what})
    A = allsch()
    keys = QUICK_SCHEMAS if quick else EXPECTED
    vocs = {}
    for k in EXPECTED:
        u = X.schema_for_use(k, A)
        vocs[k] = Vocab(k, [t["long"] for t in u["tags"]], True)
    exe = C.build_driver("c03") if model_ok else None

    groups = []   # (spec, ns, voc, wf_expected, cases, model_subset_indices)
    hist = {}

    def add_group(spec, ns, voc, wf, cases, model_frac, dispatch=False):
        # in a schema group a text belongs to the member its own namespace names: the member model gets only those
        idx = [i for i, c in enumerate(cases) if in_alphabet(c["text"]) and
               (not dispatch or py_namespace(c["text"]) == ns) and
               (model_frac >= 1 or c["kind"] != "spelling" or rng.random() < model_frac)]
        groups.append((spec, ns, voc, wf, cases, idx))
        for c in cases:
            hk = c["kind"] + ":" + c.get("extkind", "-") + ":" + c.get("case", "-")
            hist[hk] = hist.get(hk, 0) + 1

    # fixed corpus first: the refuted witness and the known findings on the real vocabulary
    v83 = vocs["8_3_0"]
    dur = [n for n in v83.names if n.endswith("/Duration/#")][0]
    corpus = [{"kind": "corpus", "text": t} for t in
              ["Duration/#/#/more", "Label/#/#/x", "Duration/#/x", "Duration/#/#", "Red/Blue", "Red", "", "/", "#",
               "ts:Red", "Item/Object/#", "Red//x", "Label/Red", "Preß"]]
    corpus.append({"kind": "unicode", "text": "Preß/abc", "name": [n for n in v83.names if n.endswith("/Press")][0],
                   "form": "Press", "case": "unicode", "extkind": "ext", "len_changing": True,
                   "exp": expect(v83, [n for n in v83.names if n.endswith("/Press")][0], "Preß", "ext", "abc", "")})
    add_group(("file", "8_3_0", A["8_3_0"]["file"]), "", v83, True, corpus, 1)

    # bundled vocabularies: every tag x every suffix spelling x case x extension kind x prefix
    model_combos = (0.7 if quick else 0.75)
    for k in keys:
        for ns in ("", "ts:"):
            # quick: the full cross product without prefix, a third of the combinations with prefix
            cases = structured_cases(rng, vocs[k], ns, 4 if (quick and ns and not wide) else None)
            cases += malformed_cases(rng, vocs[k], ns, 800 if quick else 6000)
            cases += unicode_cases(rng, vocs[k], ns, 150 if quick else 600)
            cases += placeholder_cases(rng, vocs[k], ns, 40 if quick else 200)
            if wide:
                cases += malformed_cases(rng, vocs[k], ns, 20000)
            add_group(("file", k, A[k]["file"]), ns, vocs[k], True, cases, 1 if wide else model_combos / 12.0)

    # schema CONFIGURATIONS through load_schema_version: namespaced single, several libraries merged (with and
    # without one common prefix, string and list notation), schema groups with one namespace per member
    confs = schema_configurations(rng, quick)
    for arg in confs:
        spec = ("version", "cfg:" + json.dumps(arg), json.dumps(arg))
        members = config_members(arg)
        for ns, keys2 in members:
            voc = Vocab(spec[1] + "|" + ns, config_names(keys2), True)
            cases = structured_cases(rng, voc, ns, 1 if quick else 2)
            cases += malformed_cases(rng, voc, ns, 150)
            cases += unicode_cases(rng, voc, ns, 30)
            cases += placeholder_cases(rng, voc, ns, 20)
            if len(members) > 1:      # texts that name no member or another member are only checked for the equations
                for c in cases:
                    if py_namespace(c["text"]) != ns:
                        c.pop("exp", None)
            add_group(spec, ns, voc, True, cases, 1 if wide else 0.08, dispatch=len(members) > 1)

    # generated schemas: small trees with name collisions by suffix and by case, '#' children
    n_gen = (70 if quick else 1500) * (3 if wide else 1)
    for i in range(n_gen):
        spec, names = gen_schema(rng, i)
        voc = Vocab(spec[1], names, False)
        wf = not voc.conflict and len(set(x.casefold() for x in voc.shortkeys)) == \
            len([n for n in names if not n.endswith("/#")])
        ns = rng.choice(["", "ts:"])
        cases = (structured_cases(rng, voc, ns, None) if wf else []) + malformed_cases(rng, voc, ns, 40)
        if not wf:   # spellings of a vocabulary with refused duplicates: model against implementation only
            for name in names:
                for f in forms_of(name):
                    cases.append({"kind": "dup-spelling", "text": ns + recase(rng, f, rng.choice(CASES)) +
                                  rng.choice(["", "/Qzx9", "/3 ms"])})
        add_group(spec, ns, voc, wf, cases, 1)
    # generated libraries partnered with 8.3.0, stored unmerged, roots rooted in standard tags
    n_lib = (2 if quick else 30)
    for i in range(n_lib):
        spec, names = gen_schema(rng, 100000 + i, std_voc=v83)
        voc = Vocab(spec[1], names, True)
        ns = rng.choice(["", "ts:"])
        lib_only = Vocab(spec[1], names, True)
        cases = [c for c in structured_cases(rng, voc, ns, 2) if "Lib-" in c["name"] or rng.random() < 0.02]
        add_group(spec, ns, voc, True, cases, 1)

    import time as _t
    T0 = _t.time()
    timing = {}
    # ---------------- implementation
    jobs, where = [], []
    for gi, (spec, ns, voc, wf, cases, idx) in enumerate(groups):
        texts = [c["text"] for c in cases]
        step = 4000
        for a in range(0, len(texts), step):
            jobs.append((spec[:3], ns, texts[a:a + step]))
            where.append((gi, a))
    # populate the scratch schema cache once, before the workers read it concurrently
    _winit(_SCRATCH)
    try:
        from hed.schema import load_schema_version
        load_schema_version("8.3.0")
    except Exception:  # noqa -- a tree that cannot load its own schema is reported per case below
        pass
    with Pool(int(C.JOBS), initializer=_winit, initargs=(_SCRATCH,)) as pool:
        outs = pool.map(impl_batch, jobs, chunksize=1)
        tabs = pool.map(impl_table, [(g[0][:3], g[1]) for g in groups], chunksize=4)
        # whole annotations / data-frame columns
        sjobs = []
        for gi, (spec, ns, voc, wf, cases, idx) in enumerate(groups):
            if spec[0] == "file" and gi > 0:
                sp = [c for c in cases if c["kind"] == "spelling" and "," not in c["text"] and "(" not in c["text"]
                      and ")" not in c["text"]]
                pick = rng.sample(sp, min(len(sp), 600 if quick else 1500))
                items = [[c["text"] for c in pick[j:j + 3]] for j in range(0, len(pick) - 2, 3)]
                exps = [[c["exp"] for c in pick[j:j + 3]] for j in range(0, len(pick) - 2, 3)]
                sjobs.append((gi, items, exps))
        souts = pool.map(impl_strings, [(groups[gi][0][:3], groups[gi][1], items) for gi, items, _ in sjobs], chunksize=1)
    timing["impl"] = round(_t.time() - T0, 1)
    impl = [[None] * len(g[4]) for g in groups]
    for (gi, a), o in zip(where, outs):
        impl[gi][a:a + len(o)] = o

    evaluations = sum(len(g[4]) for g in groups)
    n_string_checks = 0
    for (gi, items, exps), so in zip(sjobs, souts):
        spec, ns = groups[gi][0], groups[gi][1]
        for texts, ex, r in zip(items, exps, so):
            n_string_checks += 1
            pay = {"schema": list(spec[:3]), "ns": ns, "texts": texts, "kind": "annotation"}
            if "exn" in r:
                res.report("annotation-forms", pay, r["exn"])
                continue
            want_s = ex[0]["short"] + ",(" + ",".join(e["short"] for e in ex[1:]) + ")"
            want_l = ex[0]["long"] + ",(" + ",".join(e["long"] for e in ex[1:]) + ")"
            got = [r["short"], r["long"], r["df_short_tag"][0], r["df_long_tag"][0], r["df_short_tag"][1],
                   r["df_long_tag"][1], r["ser_short_tag"][0], r["ser_long_tag"][0]]
            want = [want_s, want_l] * 4
            if got != want:
                res.report("annotation-forms", pay, f"got={got[:2]} want={want[:2]}")

    # ---------------- implementation-side oracle (testing)
    failing = set()
    for gi, (spec, ns, voc, wf, cases, idx) in enumerate(groups):
        for ci, (c, r) in enumerate(zip(cases, impl[gi])):
            if isinstance(r, dict) or wf:     # the statement is about well-formed (duplicate-free) vocabularies
                if not oracle_case(res, voc, spec, ns, c, r):
                    failing.add((gi, ci))

    timing["oracle"] = round(_t.time() - T0, 1)
    # ---------------- model: tables and identification
    disagreements = 0
    corr_cases = 0
    if model_ok:
        sessions, smap = [], []
        for gi, (spec, ns, voc, wf, cases, idx) in enumerate(groups):
            big = len(voc.names) > 300
            step = 2500 if big else 100000
            chunks = [idx[a:a + step] for a in range(0, len(idx), step)] or [[]]
            for j, ch in enumerate(chunks):
                sessions.append((voc.names, ns, [cases[i]["text"] for i in ch], j == 0))
                smap.append((gi, ch, j == 0))
        timing["model_sessions"] = len(sessions)
        mouts = model_sessions(exe, sessions)
        timing["model"] = round(_t.time() - T0, 1)
        for (gi, ch, first), (hdr, answers) in zip(smap, mouts):
            spec, ns, voc, wf, cases, idx = groups[gi]
            if first:
                disagreements += compare_tables(res, voc, spec, ns, tabs[gi], hdr, wf)
            elif hdr[0] != "ok":
                res.violation("correspondence", {"schema": list(spec[:2])}, f"model load: {hdr}", no_input=True)
            for i, m in zip(ch, answers):
                corr_cases += 1
                r = impl[gi][i]
                if isinstance(r, dict):
                    continue
                mo = model_obs(m)
                if mo != r[0]:
                    disagreements += 1
                    if (gi, i) not in failing:
                        d = [f"{k}: impl={a!r} model={b!r}" for k, a, b in zip(OBS, r[0], mo) if a != b]
                        res.violation("correspondence", case_payload(spec, ns, cases[i]), "; ".join(d), no_input=True)
    else:
        for gi, (spec, ns, voc, wf, cases, idx) in enumerate(groups):
            disagreements += compare_tables(res, voc, spec, ns, tabs[gi], None, wf)

    # ---------------- histories on one schema object / one HedTag / one HedString (harness/c03_hist.py)
    from harness import c03_hist as H
    me = sys.modules[__name__]
    h_evals, h_corr, h_dis, h_scen = H.run_schema_histories(res, rng, tier, me, vocs, _SCRATCH, exe)
    timing["schema_histories"] = round(_t.time() - T0, 1)
    f_steps = H.run_form_histories(res, rng, tier, me, vocs, _SCRATCH)
    timing["form_histories"] = round(_t.time() - T0, 1)
    # ---------------- whole columns through the column entry points (harness/c03_cols.py)
    from harness import c03_cols as CO
    cjobs, cmeta = [], []
    for gi, (spec, ns, voc, wf, cases, idx) in enumerate(groups):
        if gi == 0 or spec[0] == "xml" or not wf:
            continue
        ncol = (24 if spec[0] == "file" else 6) * (1 if quick else 4)
        cols = CO.make_columns(rng, me, voc, ns, ncol)
        for a in range(0, len(cols), 12):
            cjobs.append((spec[:3], ns, _SCRATCH, [([c[0] for c in col], labels, kind)
                                                    for col, labels, kind in cols[a:a + 12]]))
            cmeta.append((spec, ns, cols[a:a + 12]))
    with Pool(int(C.JOBS), initializer=_winit, initargs=(_SCRATCH,)) as pool:
        couts = pool.map(CO.columns_worker, cjobs, chunksize=1)
    col_cells = 0
    for (spec, ns, cols), o in zip(cmeta, couts):
        col_cells += CO.check_columns(res, spec, ns, cols, o)
    timing["columns"] = round(_t.time() - T0, 1)
    evaluations += h_evals + f_steps + col_cells
    corr_cases += h_corr
    disagreements += h_dis

    # the model's folding against CPython on everything that was sent to the model is implied by in_alphabet();
    # record the alphabet actually used
    alphabet = set()
    for g in groups:
        for i in g[5][:2000]:
            alphabet.update(g[4][i]["text"])
    distinct = len({(g[0][1], g[1], c["text"]) for g in groups for c in g[4]
                    if c["kind"] in ("spelling", "unicode", "dup-spelling") and
                    ("/" in c["text"] or c.get("case") not in (None, "asis"))})
    samples = [groups[1][4][0]["text"], groups[1][4][len(groups[1][4]) // 2]["text"], groups[2][4][7]["text"],
               groups[-1][4][0]["text"] if groups[-1][4] else ""]
    return {
        "evaluations": evaluations,
        "distinct_nontrivial": distinct,
        "rule": "per schema and namespace ('' / 'ts:'): every tag x every '/'-suffix spelling x {as-is, upper, lower, "
                "random case} x {no suffix, extension, value}; plus random malformed texts, spellings through "
                "non-ASCII case variants, generated small schemas with colliding names and generated partnered "
                "libraries with rooted nodes.  Non-trivial = a spelling that is a partial/full path or not in the "
                "schema's own letter case (distinct (schema, namespace, text)).  Bundled schemas: "
                + ", ".join(keys),
        "samples": samples,
        "histogram": hist,
        "exhaustive": False,
        "disagreements_checked": disagreements,
        "correspondence_cases": corr_cases,
        "schemas_bundled": len(keys), "schemas_generated": n_gen + n_lib,
        "annotation_checks": n_string_checks,
        "model_alphabet_size": len(alphabet),
        "tables_compared": len(groups),
        "fixed_semantics": bool(FIXED),
        "schema_history_scenarios": h_scen, "schema_history_lookups": h_evals, "form_history_steps": f_steps,
        "column_cells": col_cells, "columns": sum(len(m[2]) for m in cmeta),
        "column_row_labels": CO.LABEL_KINDS,
        "timing_s": dict(timing, total=round(_t.time() - T0, 1)),
    }


def replay(payload):
    global _SCRATCH
    case = payload.get("case") or {}
    if case.get("kind") == "column":
        from harness import c03_cols as CO
        return CO.replay(case)
    if case.get("kind") in ("schema-history", "tag-history", "string-history"):
        from harness import c03_hist as H
        return H.replay(case)
    if "text" not in case and "texts" not in case:
        print("no concrete input in replay:", str(payload.get("detail", ""))[:600])
        return 1
    _SCRATCH = C.scratch_dir()
    try:
        _winit(_SCRATCH)
        sc = case["schema"]
        if sc[0] == "file":
            spec = ("file", sc[1], allsch()[sc[1]]["file"])
            names = [t["long"] for t in X.schema_for_use(sc[1], allsch())["tags"]]
        elif sc[0] == "version":
            spec = ("version", sc[1], sc[2])
            names = config_names(dict(config_members(json.loads(sc[2])))[case.get("ns", "")])
        else:
            if len(sc) < 3:
                print("generated schema text not stored in this replay")
                return 1
            spec = ("xml", sc[1], sc[2])
            names = None
        ns = case.get("ns", "")
        if "texts" in case:
            print(impl_strings((spec, ns, [case["texts"]])))
            return 1
        r = impl_batch((spec, ns, [case["text"]]))[0]
        print("schema:", sc[:2], "namespace:", repr(ns), "text:", repr(case["text"]))
        print("impl:", r)
        res = C.Result(PROP)
        res.known_ids = {}
        if names is None:
            p = os.path.join(_SCRATCH, "replay.xml")
            open(p, "w").write(sc[2])
            s = X.load_file(p)
            if s["withStandard"] and s["unmerged"]:
                s = X.merged_view(s, allsch()["8_3_0"])
            names = [t["long"] for t in s["tags"]]
        voc = Vocab(sc[1], names, True)
        oracle_case(res, voc, spec, ns, case, r)
        for v in res.violations:
            print("FAILS:", v["clause"], v["detail"])
        return 1 if res.violations else 0
    finally:
        shutil.rmtree(_SCRATCH, ignore_errors=True)
