"""C01 generator: conforming annotations and single-rule mutations, built ONLY from the independent XML reading
(harness/schema_xml.py) -- never from hed-python.  Every case carries the expectation of the property statement:
    expect = None            conforming  => no error-severity issue
    expect = "<SPEC CODE>"   one injected violation => that HED-specification code among the errors
"""
import random
import re

# HED-specification code per rule (hand-written; mirrors spec_code of coq/Props/C01.v)
SPEC = {
    "char": "CHARACTER_INVALID", "tilde": "TILDES_UNSUPPORTED", "curly": "CHARACTER_INVALID",
    "paren": "PARENTHESES_MISMATCH", "empty": "TAG_EMPTY", "missing_comma": "COMMA_MISSING",
    "slash": "TAG_INVALID", "prefix": "TAG_NAMESPACE_PREFIX_INVALID", "tagchar": "CHARACTER_INVALID",
    "unknown": "TAG_INVALID", "ext_term": "TAG_EXTENSION_INVALID", "ext_forbidden": "TAG_EXTENSION_INVALID",
    "placeholder": "PLACEHOLDER_INVALID", "require_child": "TAG_REQUIRES_CHILD",
    "bad_unit": "UNITS_INVALID", "bad_value": "VALUE_INVALID", "bad_value_char": "CHARACTER_INVALID",
    "definition": "DEFINITION_INVALID", "def_undeclared": "DEF_INVALID", "def_extra": "DEF_INVALID",
    "def_missing": "DEF_INVALID", "defexpand_altered": "DEF_EXPAND_INVALID",
    "tag_group": "TAG_GROUP_ERROR", "top_level": "TAG_GROUP_ERROR", "multi_top": "TAG_GROUP_ERROR",
    "unique_dup": "TAG_NOT_UNIQUE", "repeat_tag": "TAG_EXPRESSION_REPEATED",
    "repeat_group": "TAG_EXPRESSION_REPEATED", "repeat_group_permuted": "TAG_EXPRESSION_REPEATED",
    "empty_group": "TAG_EMPTY", "char_in_text_value": "CHARACTER_INVALID",
    "onset_no_def": "TEMPORAL_TAG_ERROR", "onset_too_many_defs": "TEMPORAL_TAG_ERROR",
    "onset_wrong_groups": "TEMPORAL_TAG_ERROR", "onset_tag_outside": "TEMPORAL_TAG_ERROR",
    "duration_other_tags": "TEMPORAL_TAG_ERROR", "duration_wrong_groups": "TEMPORAL_TAG_ERROR",
    "top_level_copy": "TAG_GROUP_ERROR", "tag_group_copy": "TAG_GROUP_ERROR",
    "repeat_nested": "TAG_EXPRESSION_REPEATED", "empty_groups_repeated": "TAG_EMPTY",
}

# definitions handed to the DefinitionDict
DEFS = ["(Definition/MyDef,(Blue,Red))", "(Definition/ValDef/#,(Green,Label/#))",
        "(Definition/OnDef,(Blue))", "(Definition/OnVal/#,(Label/#))", "(Definition/OnDef2,(Blue))",
        "(Definition/ExtraDef,(Blue,Red))", "(Definition/MissDef/#,(Green,Label/#))",
        "(Definition/AltDef,(Blue,Red))", "(Definition/LenDef/#,(Distance/#,Green))",
        # placeholder tag with a sibling (tag / group) that shares its text up to the '#'
        "(Definition/CueDef/#,(Label/#,Label/Fixation))",
        "(Definition/TwoDef/#,((Distance/#,Red),(Distance/2 m,Blue)))"] + []

# SHAPES of declared definitions as an input dimension of the Def / Def-expand rules:
# (name, declaration, takes value, contents of the expansion as a function of the value)
DEF_SHAPES = [
    ("EmptyDef", "(Definition/EmptyDef)", False, lambda v: None),                      # no contents at all
    ("OneDef", "(Definition/OneDef,(Blue))", False, lambda v: ["Blue"]),               # one tag
    ("NestDef", "(Definition/NestDef,(Blue,(Red,(Green))))", False, lambda v: ["Blue", ["Red", ["Green"]]]),
    ("GrpDef", "(Definition/GrpDef,((Blue,Red)))", False, lambda v: [["Blue", "Red"]]),  # one group only
    ("PhOneDef", "(Definition/PhOneDef/#,(Label/#))", True, lambda v: ["Label/" + v]),
    ("PhNestDef", "(Definition/PhNestDef/#,(Blue,(Red,Label/#)))", True, lambda v: ["Blue", ["Red", "Label/" + v]]),
]
SHAPE_DEFS = [d[1] for d in DEF_SHAPES]


def def_shape_cases(rng, V, n_cases):
    """Conforming Def / Def-expand of every definition shape, and ONE alteration of the Def-expand group
    (member added / removed / replaced, group added) => DEF_EXPAND_INVALID."""
    out = []
    for _ in range(n_cases):
        name, _, takes, contents = rng.choice(DEF_SHAPES)
        v = rng.choice(["abc", "x1", "Name-2"])
        ref = name + ("/" + v if takes else "")
        body = contents(v)
        good = ["Def-expand/" + ref] + ([deep(body)] if body is not None else [])
        x = rng.random()
        if x < 0.25:
            out.append(("Def/" + ref, None, "v_def_shape_" + name))
        elif x < 0.55:
            g = deep(good)
            if len(g) > 1 and rng.random() < 0.4:
                g = g[::-1]
            out.append((g, None, "v_defexpand_shape_" + name))
        else:
            g = deep(good)
            extra = rng.choice(V.plain)["short"]
            how = rng.choice(["add_tag", "add_group", "add_inner", "remove", "replace"])
            if body is None or how == "add_tag":
                if how in ("add_group", "add_inner") or (body is None and rng.random() < 0.5):
                    g.append([extra] if rng.random() < 0.6 else [extra, ["Blue"]])
                else:
                    g.append(extra)
            elif how == "add_group":
                g.append([extra])
            elif how == "add_inner":
                g[1].append(extra)
            elif how == "remove":
                if len(g[1]) > 1:
                    g[1].pop(rng.randrange(len(g[1])))
                else:
                    g.pop(1)
            else:
                g[1][rng.randrange(len(g[1]))] = extra
            out.append((g, "DEF_EXPAND_INVALID", "defexpand_shape_altered_" + name))
    return out


def def_unit_value_cases(rng, V, n_cases):
    """Def / Def-expand of a definition whose placeholder sits in a UNIT-CLASS tag (LenDef: Distance/#): values that are
    numeric / non-numeric, written with a valid unit / a bad unit / no unit.  A wrongly valued Def must carry the
    rule's code (DEF_INVALID / DEF_EXPAND_INVALID) at ERROR severity, whatever other findings accompany it."""
    sym, _ = unit_forms(V, "physicalLengthUnits")
    good_units = sorted(u for u in sym if u in ("m", "km", "cm", "mm")) or ["m"]
    out = []
    for _ in range(n_cases):
        num = rng.choice(["3", "1.5", "25"])
        word = rng.choice(["abc", "x3", "three", "3q", "1.5.5"])
        unit = rng.choice(good_units)
        badu = rng.choice(["xyz", "qqq", "zorkmids"])
        kind, val, codes = rng.choice([
            ("valid_unit", num + " " + unit, None), ("valid_nounit", num, None),
            ("word_nounit", word, ["VALUE_INVALID"]), ("word_unit", word + " " + unit, ["VALUE_INVALID"]),
            ("num_badunit", num + " " + badu, ["UNITS_INVALID"]), ("word_badunit", word + " " + badu, ["VALUE_INVALID"])])
        if rng.random() < 0.6:
            item, code = "Def/LenDef/" + val, "DEF_INVALID"
        else:
            item, code = ["Def-expand/LenDef/" + val, ["Distance/" + val, "Green"]], "DEF_EXPAND_INVALID"
        out.append((item, (codes + [code]) if codes else None, "def_unit_value_" + kind))
    return out


# Definition NAMES as an input dimension (schemas with the 8.3 character rules only): ASCII, plain non-ASCII letters,
# and letters whose lower() differs from their casefold() (sharp s, long s, final sigma, ligatures, Cherokee, ...)
_SPECIAL = [ch for ch in map(chr, range(0xA0, 0x10000))
            if ch.isalpha() and ch.isprintable() and ch.lower() != ch.casefold()]
_PICK = [c for c in "\u00df\u017f\u03c2\u0149\u01f0\u03d0\u1e9e\ufb01\ufb06\u13a0\u1f80\u0587" if c in _SPECIAL]
NAME_POOL = (["Ma" + c for c in _PICK[:4]] + [c + "tart" for c in _PICK[4:8]] + ["x" + c + "y" for c in _PICK[8:]]
             + ["Stra\u00dfe", "\u03a3\u03c4\u03cc\u03c7\u03bf\u03c2", "Caf\u00e9", "\u00dcn\u00ef", "\u5b9a\u4e49"])
NAME_DEFS = (["(Definition/%s,(Blue,Red))" % n for n in NAME_POOL]
             + ["(Definition/%sV/#,(Green,Label/#))" % n for n in NAME_POOL])


def name_cases(rng, V, n_cases):
    """Conforming references (spelled exactly as declared) to the definitions of NAME_DEFS, and undeclared names."""
    out = []
    for _ in range(n_cases):
        n = rng.choice(NAME_POOL)
        kind = "special" if any(c in _SPECIAL for c in n) else "plain"
        forms = ["Def/" + n, ["Def-expand/" + n, ["Blue", "Red"]], "Def/" + n + "V/abc",
                 ["Def-expand/" + n + "V/x1", ["Green", "Label/x1"]]]
        if V.temporal:
            forms += [["Def/" + n, rng.choice(V.temporal)], ["Def/" + n + "V/abc", "Onset"]]
        out.append((rng.choice(forms), None, "v_def_name_" + kind))
        if rng.random() < 0.3:
            bad = n[:-1] + ("q" if n[-1] != "q" else "z") + "9"
            out.append((rng.choice(["Def/" + bad, ["Def-expand/" + bad, ["Blue", "Red"]]]),
                        "DEF_EXPAND_INVALID" if False else None, "def_name_undeclared"))
    return out


# conforming Def-expand groups of the two definitions above: values sorting before AND after the sibling's value
PLACEHOLDER_SIBLING_EXPANSIONS = (
    [["Def-expand/CueDef/" + v, ["Label/" + v, "Label/Fixation"]] for v in ("Alpha", "Target", "Fix", "Fixations", "a1", "zz-9")]
    + [["Def-expand/TwoDef/" + v, [["Distance/" + v, "Red"], ["Distance/2 m", "Blue"]]]
       for v in ("5 m", "1 m", "10 m", "2 km", "3 foot", "1.5 m")])
# a definition written in unsorted order (former finding C01-F1, repaired by cbb8087)
DEFS_F1 = ["(Definition/OrdDef,(Red,Blue))"]

SPECIAL_NAMES = {"def", "def-expand", "definition", "onset", "offset", "inset", "duration", "delay", "event-context"}


class Vocab:
    """Tag vocabulary of one schema, from the XML only."""

    def __init__(self, sch):
        self.key = (sch["library"] + "_" if sch["library"] else "") + sch["version"]
        self.version = tuple(int(x) for x in sch["version"].split("."))
        self.library = sch["library"]
        by_long = {t["long"]: t for t in sch["tags"]}
        self.nodes = []
        self.by_short = {}
        for t in sch["tags"]:
            if t["short"] == "#":
                continue
            parts = t["long"].split("/")
            a = t["attrs"]
            anc = ["/".join(parts[:i]) for i in range(1, len(parts) + 1)]
            vnode = by_long.get(t["long"] + "/#")
            n = {"long": t["long"], "parts": parts, "short": parts[-1], "attrs": a,
                 "ext_ok": any("extensionAllowed" in by_long[x]["attrs"] for x in anc),
                 "value": None if vnode is None else
                 {"unit": vnode["attrs"].get("unitClass", []) or [], "vclass": vnode["attrs"].get("valueClass", []) or [],
                  "attrs": vnode["attrs"]},
                 "require_child": "requireChild" in a,
                 "special": (parts[-1].casefold() in SPECIAL_NAMES
                             or any(k in a for k in ("tagGroup", "topLevelTagGroup", "unique", "required")))}
            if isinstance(n["value"], dict):
                for k in ("unit", "vclass"):
                    if n["value"][k] is True:
                        n["value"][k] = []
            self.nodes.append(n)
            self.by_short[parts[-1].casefold()] = n
        self.all_terms = {n["short"].casefold() for n in self.nodes}
        self.declared_vclasses = {v["name"] for v in sch["value_classes"]}
        self.units = {}
        self.blank_units = {}
        for uc in sch["unit_classes"]:
            us = []
            for u in uc["units"]:
                if "unitPrefix" in u["attrs"] or "deprecatedFrom" in u["attrs"]:
                    continue
                if " " in u["name"]:
                    # a unit whose NAME contains a blank (8.0.0/8.1.0 `degree Celsius`): former finding C01-F3 (the value
                    # was split at the last blank), repaired by 0669633; exercised by its own rule v_unit_with_blank
                    self.blank_units.setdefault(uc["name"], []).append(u["name"])
                    continue
                us.append({"name": u["name"], "symbol": "unitSymbol" in u["attrs"], "si": "SIUnit" in u["attrs"]})
            self.units[uc["name"]] = us
        self.mods_symbol = [m["name"] for m in sch["unit_modifiers"] if "SIUnitSymbolModifier" in m["attrs"]
                            and "deprecatedFrom" not in m["attrs"]]
        self.mods_word = [m["name"] for m in sch["unit_modifiers"] if "SIUnitModifier" in m["attrs"]
                          and "deprecatedFrom" not in m["attrs"]]
        self.plain = [n for n in self.nodes if not n["special"] and not n["require_child"] and n["value"] is None]
        self.valued = [n for n in self.nodes if not n["special"] and n["value"] is not None
                       and "deprecatedFrom" not in n["value"]["attrs"]]
        self.extendable = [n for n in self.plain if n["ext_ok"]]
        self.no_ext = [n for n in self.plain if not n["ext_ok"]]
        self.req_child = [n for n in self.nodes if n["require_child"]]

        def has(name, attr=None):
            n = self.by_short.get(name)
            return n is not None and (attr is None or attr in n["attrs"])
        self.has_defs = has("def") and has("def-expand") and has("definition") and all(
            has(x) for x in ("blue", "red", "green", "label", "distance"))
        self.temporal = [x for x in ("Onset", "Offset", "Inset") if has(x.casefold(), "topLevelTagGroup")]
        self.duration_top = [x for x in ("Duration", "Delay") if has(x.casefold(), "topLevelTagGroup")]
        self.event_context = has("event-context", "unique")
        # HedSchema.schema_83_props read from the XML: (partner) standard version >= 8.3.0 or an elementDomain property
        std = tuple(int(x) for x in (sch["withStandard"] or (sch["version"] if not sch["library"] else "0.0.0")).split("."))
        self.modern = std >= (8, 3, 0) or any(p["name"] == "elementDomain" for p in sch["properties"])
        self.filler = (self.plain[0]["short"] if self.plain else "Item")


def _value_text(rng, n):
    vcs = n["value"]["vclass"]
    if "numericClass" in vcs:
        return rng.choice(["3", "1.5", "12", "0.25"])
    if "dateTimeClass" in vcs:
        return "2021-03-04T05:06:07"
    if "nameClass" in vcs:
        return rng.choice(["abc", "Name-1", "x_y1"])
    if "textClass" in vcs:
        return rng.choice(["some text", "abc 1", "A b"])
    return rng.choice(["abc", "x1"])


def _unit_text(rng, V, n):
    ucs = [u for u in n["value"]["unit"] if V.units.get(u)]
    if not ucs:
        return None
    u = rng.choice(V.units[rng.choice(ucs)])
    name = u["name"]
    if u["si"] and rng.random() < 0.3:
        mods = V.mods_symbol if u["symbol"] else V.mods_word
        if mods:
            name = rng.choice(mods) + name
    return name


def form_of(rng, n, form=None):
    parts = n["parts"]
    form = form or rng.choice(["short", "short", "long", "mid"])
    if form == "short" or len(parts) == 1:
        s = parts[-1]
    elif form == "long":
        s = "/".join(parts)
    else:
        s = "/".join(parts[rng.randrange(0, len(parts)):])
    return s


def leaf_plain(rng, n, form=None):
    s = form_of(rng, n, form)
    if rng.random() < 0.08:
        s = s.lower()
    return s


def leaf_value(rng, V, n, form=None, with_unit=None, placeholder=False):
    base = form_of(rng, n, form)
    val = "#" if placeholder else _value_text(rng, n)
    unit = _unit_text(rng, V, n) if (with_unit if with_unit is not None else rng.random() < 0.7) else None
    if n["value"]["unit"] and "numericClass" not in n["value"]["vclass"] and not placeholder:
        val = "3"
    return base + "/" + val + (" " + unit if unit else "")


def leaf_ext(rng, n, form=None):
    return form_of(rng, n, form) + "/" + rng.choice(["Myext9", "Custom-term7", "qqext_1"])


class Builder:
    """Builds one conforming tree: nested lists of leaf strings (a python list = a parenthesised group)."""

    def __init__(self, rng, V, ph):
        self.rng, self.V, self.ph = rng, V, ph
        self.used = set()
        self.ph_used = False

    def node(self, pool):
        for _ in range(50):
            n = self.rng.choice(pool)
            if n["long"] not in self.used:
                self.used.add(n["long"])
                return n
        return None

    def leaf(self):
        rng, V = self.rng, self.V
        x = rng.random()
        if x < 0.55 or not V.valued:
            n = self.node(V.plain)
            return leaf_plain(rng, n) if n else None
        if x < 0.8:
            n = self.node(V.valued)
            if not n:
                return None
            if self.ph and not self.ph_used and rng.random() < 0.3:
                self.ph_used = True
                return leaf_value(rng, V, n, placeholder=True)
            return leaf_value(rng, V, n)
        if x < 0.93 and V.extendable:
            n = self.node(V.extendable)
            return leaf_ext(rng, n) if n else None
        if V.has_defs and "def:mydef" not in self.used:
            self.used.add("def:mydef")
            return rng.choice(["Def/MyDef", "def/mydef", "Def/ValDef/abc"]) if rng.random() < 0.7 else "Def/MyDef"
        n = self.node(V.plain)
        return leaf_plain(rng, n) if n else None

    def group(self, depth):
        items = []
        for _ in range(self.rng.randint(1, 3)):
            if depth > 1 and self.rng.random() < 0.35:
                items.append(self.group(depth - 1))
            else:
                lf = self.leaf()
                if lf:
                    items.append(lf)
        if not items:
            lf = self.leaf()
            items.append(lf if lf else self.V.filler)
        if depth > 1 and self.rng.random() < 0.12:     # ((...)): a group that is the only member of its group
            items = [items]
        return items

    def special(self):
        """One correctly placed tag-group / top-level-tag-group construct (each kind at most once)."""
        rng, V = self.rng, self.V
        opts = []
        if V.has_defs:
            if V.temporal and "t:onset" not in self.used:
                opts.append("onset")
            if "t:defexpand" not in self.used:
                opts.append("defexpand")
        if V.duration_top and "t:duration" not in self.used:
            opts.append("duration")
        if V.event_context and "t:ec" not in self.used:
            opts.append("ec")
        if not opts:
            return None
        k = rng.choice(opts)
        if k == "onset":
            self.used.add("t:onset")
            t = rng.choice(V.temporal)
            d = rng.choice(["Def/OnDef", "Def/OnVal/3"])
            g = [d, t]
            if t != "Offset" and rng.random() < 0.5:
                g.append(self.group(1))
            if "Delay" in V.duration_top and rng.random() < 0.2:
                g.append("Delay/2 s")
            rng.shuffle(g)
            return g
        if k == "defexpand":
            self.used.add("t:defexpand")
            g = rng.choice([["Def-expand/MyDef", ["Blue", "Red"]], ["Def-expand/ValDef/abc", ["Green", "Label/abc"]]])
            self.used.update(["x:blue", "x:red"])
            return g
        if k == "duration":
            self.used.add("t:duration")
            t = rng.choice(V.duration_top)
            return [t + "/" + rng.choice(["3 s", "2.5 ms", "1 second"]), self.group(1)]
        self.used.add("t:ec")
        return ["Event-context", self.group(1)]

    def tree(self, max_depth):
        rng = self.rng
        # tags used by the fixed definitions are reserved so that nothing is accidentally repeated
        for nm in ("Blue", "Red", "Green", "Label"):
            n = self.V.by_short.get(nm.casefold())
            if n:
                self.used.add(n["long"])
        items = []
        for _ in range(rng.randint(1, 4)):
            x = rng.random()
            if x < 0.3 and max_depth > 0:
                items.append(self.group(min(max_depth, rng.randint(1, 4))))
            elif x < 0.45:
                s = self.special()
                if s:
                    items.append(s)
            else:
                lf = self.leaf()
                if lf:
                    items.append(lf)
        if not items:
            items.append(self.leaf() or self.V.filler)
        return items



def render(tree, rng=None, top=True):
    seps = [",", ", ", ", ", " , "] if rng else [","]
    sep = rng.choice(seps) if rng else ","
    out = []
    for x in tree:
        if isinstance(x, list):
            out.append("(" + render(x, rng, False) + ")")
        else:
            out.append(x)
    return sep.join(out)


def paths(tree, prefix=()):
    """All positions: (path, is_leaf)."""
    for i, x in enumerate(tree):
        p = prefix + (i,)
        if isinstance(x, list):
            yield p, False
            yield from paths(x, p)
        else:
            yield p, True


def get(tree, path):
    for i in path:
        tree = tree[i]
    return tree


def parent_of(tree, path):
    return get(tree, path[:-1]) if len(path) > 1 else tree


def deep(tree):
    return [deep(x) if isinstance(x, list) else x for x in tree]


def in_special(tree, path):
    """True if the position lies inside one of the special templates (their shape must stay intact)."""
    for k in range(1, len(path) + 1):
        g = get(tree, path[:k])
        if isinstance(g, list) and any(isinstance(y, str) and y.split("/")[0].casefold() in SPECIAL_NAMES for y in g):
            return True
    if len(path) == 1:
        return False
    return False


STRUCT_RULES = ["unknown", "ext_term", "ext_forbidden", "placeholder", "require_child", "bad_unit", "bad_value",
                "bad_value_char", "definition", "def_undeclared", "def_extra", "def_missing", "defexpand_altered",
                "tag_group", "top_level", "multi_top", "unique_dup", "repeat_tag", "repeat_group",
                "repeat_group_permuted", "prefix", "tagchar", "empty_group", "char_in_text_value",
                "onset_no_def", "onset_too_many_defs", "onset_wrong_groups", "onset_tag_outside",
                "duration_other_tags", "duration_wrong_groups", "top_level_copy", "tag_group_copy", "repeat_nested", "empty_groups_repeated"]
TEXT_RULES = ["char", "tilde", "curly", "paren", "empty", "missing_comma", "slash"]


def mutate(rng, V, tree, rule, ph, modern):
    """Return the mutated text (or None when the rule does not apply to this vocabulary / tree)."""
    t = deep(tree)
    leaves = [p for p, lf in paths(t) if lf and not in_special(t, p)]
    groups = [p for p, lf in paths(t) if not lf and not in_special(t, p)]

    def put(text, replace=True):
        if leaves and replace and rng.random() < 0.7:
            p = rng.choice(leaves)
            parent_of(t, p)[p[-1]] = text
        else:
            tgt = get(t, rng.choice(groups)) if groups and rng.random() < 0.5 else t
            tgt.insert(rng.randint(0, len(tgt)), text)
        return render(t, rng)

    if rule == "unknown":
        return put(rng.choice(["Notatag9", "Qzx/Wvu", "Zzz-yy"]))
    if rule == "ext_term":
        if not V.extendable:
            return None
        n = rng.choice(V.extendable)
        o = rng.choice(V.nodes)
        if o["long"].startswith(n["long"] + "/") or o["short"].casefold() in {p.casefold() for p in n["parts"]}:
            return None
        return put(form_of(rng, n) + "/" + o["short"])
    if rule == "ext_forbidden":
        if not V.no_ext:
            return None
        return put(leaf_ext(rng, rng.choice(V.no_ext)))
    if rule == "placeholder":
        if ph or not V.valued:
            return None
        n = rng.choice(V.valued)
        return put(form_of(rng, n) + "/#")
    if rule == "require_child":
        if not V.req_child:
            return None
        return put(form_of(rng, rng.choice(V.req_child)))
    if rule == "bad_unit":
        c = [n for n in V.valued if any(V.units.get(u) for u in n["value"]["unit"])]
        if not c:
            return None
        n = rng.choice(c)
        return put(form_of(rng, n) + "/3 " + rng.choice(["qqq", "zorkmids", "xx-units"]))
    if rule == "bad_value":
        c = [n for n in V.valued if n["value"]["vclass"] in (["numericClass"], ["dateTimeClass"])]
        if not c:
            return None
        n = rng.choice(c)
        u = _unit_text(rng, V, n)
        return put(form_of(rng, n) + "/" + rng.choice(["abc", "x-y", "3q"]) + (" " + u if u and rng.random() < 0.5 else ""))
    if rule == "bad_value_char":
        c = [n for n in V.valued if n["value"]["vclass"] == ["nameClass"] and not n["value"]["unit"]]
        if not c:
            return None
        return put(form_of(rng, rng.choice(c)) + "/" + rng.choice(["a$b", "x!y", "q%"]))
    if rule == "char_in_text_value":
        # a forbidden character inside a value whose class (textClass) would itself allow it
        c = [n for n in V.valued if n["value"]["vclass"] == ["textClass"] and not n["value"]["unit"]]
        if not c:
            return None
        bad = "[]" if ph else "[]{}"
        return put(form_of(rng, rng.choice(c)) + "/ab" + rng.choice(bad) + "cd")
    if rule == "prefix":
        n = rng.choice(V.plain)
        return put(rng.choice(["a1:", "xx:", ":", "q-:"]) + form_of(rng, n, "short"))
    if rule == "tagchar":
        n = rng.choice(V.plain)
        s = form_of(rng, n)
        k = rng.randrange(1, len(s) + 1)
        return put(s[:k] + rng.choice("$%!@*") + s[k:])
    if rule == "empty_group":
        tgt = get(t, rng.choice(groups)) if groups and rng.random() < 0.5 else t
        tgt.insert(rng.randint(0, len(tgt)), [])
        return render(t, rng)
    if rule == "repeat_tag":
        if not leaves:
            return None
        p = rng.choice(leaves)
        par = parent_of(t, p)
        par.insert(rng.randint(0, len(par)), get(t, p))
        return render(t, rng)
    if rule in ("repeat_group", "repeat_group_permuted"):
        if not groups:
            return None
        p = rng.choice(groups)
        g = deep(get(t, p))
        if rule == "repeat_group_permuted":
            if len(g) < 2:
                return None
            g = g[1:] + g[:1]
        par = parent_of(t, p)
        par.insert(rng.randint(0, len(par)), g)
        return render(t, rng)
    if not V.has_defs and rule in ("definition", "def_undeclared", "def_extra", "def_missing", "defexpand_altered",
                                   "tag_group", "multi_top"):
        return None
    if rule == "definition":
        t.insert(rng.randint(0, len(t)), ["Definition/NewDef9", ["Green"]])
        return render(t, rng)
    if rule == "def_undeclared":
        return put(rng.choice(["Def/Nope9", "Def/Nope9/3"]), replace=False)
    if rule == "def_extra":
        return put("Def/ExtraDef/3", replace=False)
    if rule == "def_missing":
        return put("Def/MissDef", replace=False)
    if rule == "defexpand_altered":
        tgt = get(t, rng.choice(groups)) if groups and rng.random() < 0.4 else t
        tgt.insert(rng.randint(0, len(tgt)), rng.choice([["Def-expand/AltDef", ["Blue", "Green"]],
                                                         ["Def-expand/AltDef", ["Blue"]],
                                                         ["Def-expand/Nope9", ["Blue", "Red"]]]))
        return render(t, rng)
    if rule == "tag_group":
        t.insert(rng.randint(0, len(t)), "Def-expand/AltDef")
        return render(t, rng)
    if rule == "top_level":
        if not V.temporal and not V.duration_top:
            return None
        if V.temporal and V.has_defs and rng.random() < 0.6:
            inner = ["Def/OnDef2", rng.choice(V.temporal)]
        elif V.temporal and rng.random() < 0.5:
            t.insert(rng.randint(0, len(t)), rng.choice(V.temporal))
            return render(t, rng)
        elif V.duration_top:
            inner = [rng.choice(V.duration_top) + "/3 s", [V.filler]]
        else:
            return None
        t.insert(rng.randint(0, len(t)), [rng.choice(V.plain)["short"], inner])
        return render(t, rng)
    if rule == "multi_top":
        if len(V.temporal) < 2:
            return None
        a, b = rng.sample(V.temporal, 2)
        t.insert(rng.randint(0, len(t)), ["Def/OnDef2", a, b])
        return render(t, rng)
    if rule == "empty_groups_repeated":
        # two equal groups that hold nothing but empty groups (possibly next to tags): every empty group is TAG_EMPTY and
        # validation must not raise (IndexError before fix commit 3e47c8c)
        a = rng.choice(V.plain)["short"]
        g = rng.choice([[], [[]], [[], []], [[], [a]], [[[]], []]])
        g2 = deep(g)
        if len(g2) > 1 and rng.random() < 0.5:
            g2 = g2[::-1]
        tgt = get(t, rng.choice(groups)) if groups and rng.random() < 0.4 else t
        tgt.insert(rng.randint(0, len(tgt)), g)
        tgt.insert(rng.randint(0, len(tgt)), g2)
        return render(t, rng)
    if rule == "repeat_nested":
        # a planted repeat (tag or group, copy possibly reordered / respelled) inside a fresh group that is wrapped
        # 0-3 times in one-member groups and placed at the top level or inside an existing group (depth <= 4)
        if len(V.plain) < 4:
            return None
        a, b, c = rng.sample(V.plain, 3)
        x = rng.random()
        if x < 0.35:
            g = [form_of(rng, a), form_of(rng, a)]
        elif x < 0.55:
            g = [form_of(rng, a), form_of(rng, b), form_of(rng, a).lower()]
        elif x < 0.8:
            g = [[a["short"], b["short"]], [b["short"], a["short"]]]
        else:
            g = [[a["short"], [b["short"], c["short"]]], c["short"], [[c["short"], b["short"]], a["short"]]]
        for _ in range(rng.randint(0, 3)):
            g = [g]
        tgt = get(t, rng.choice(groups)) if groups and rng.random() < 0.5 else t
        tgt.insert(rng.randint(0, len(tgt)), g)
        return render(t, rng)
    if rule == "top_level_copy":
        # a correctly placed top-level-group construct AND an identical copy of it (same members, same order) in a
        # wrong place: nested at depth >= 2.  Placement must be decided by position, never by content.
        tl_names = {x.casefold() for x in V.temporal + V.duration_top} | ({"event-context"} if V.event_context else set())
        if not tl_names or len(V.plain) < 4:
            return None
        have = [x for x in t if isinstance(x, list)
                and any(isinstance(y, str) and y.split("/")[0].casefold() in tl_names for y in x)]
        p1, p2, p3 = [n["short"] for n in rng.sample(V.plain, 3)]
        if have and rng.random() < 0.6:
            grp = rng.choice(have)
        else:
            opts = []
            if V.temporal and V.has_defs:
                opts.append(["Def/OnDef2", rng.choice(V.temporal)])
            if V.duration_top:
                opts.append([rng.choice(V.duration_top) + "/3 s", [p3]])
            if V.event_context and not any(isinstance(x, list) and "Event-context" in x for x in t):
                opts.append(["Event-context", [p3]])
            if not opts:
                return None
            grp = rng.choice(opts)
            t.insert(rng.randint(0, len(t)), grp)
        copy = deep(grp)
        wrapped = [p1, copy] if rng.random() < 0.5 else [p1, [p2, copy]]
        if rng.random() < 0.5:
            rng.shuffle(wrapped)
        t.insert(rng.randint(0, len(t)), wrapped)
        return render(t, rng)
    if rule == "tag_group_copy":
        # a tag-group tag outside parentheses while an identical, correctly grouped occurrence exists elsewhere
        if not V.has_defs:
            return None
        where = get(t, rng.choice(groups)) if groups and rng.random() < 0.4 else t
        where.insert(rng.randint(0, len(where)), ["Def-expand/AltDef", ["Blue", "Red"]])
        t.insert(rng.randint(0, len(t)), "Def-expand/AltDef")
        return render(t, rng)
    if rule.startswith("onset_"):
        if not (V.temporal and V.has_defs) or len(V.plain) < 4:
            return None
        p1, p2, p3 = [n["short"] for n in rng.sample(V.plain, 3)]
        t0 = rng.choice(V.temporal)
        if rule == "onset_no_def":
            g = [t0] + ([[p1]] if t0 != "Offset" and rng.random() < 0.5 else [])
        elif rule == "onset_too_many_defs":
            g = ["Def/OnDef2", "Def/AltDef", t0]
        elif rule == "onset_wrong_groups":
            g = ["Def/OnDef2", "Offset", [p1]] if ("Offset" in V.temporal and rng.random() < 0.4) \
                else ["Def/OnDef2", rng.choice([x for x in V.temporal if x != "Offset"] or ["Onset"]), [p1], [p2, p3]]
        else:
            t1 = rng.choice([x for x in V.temporal if x != "Offset"] or ["Onset"])
            g = ["Def/OnDef2", t1, p1]
        rng.shuffle(g)
        t.insert(rng.randint(0, len(t)), g)
        return render(t, rng)
    if rule.startswith("duration_"):
        if not V.duration_top or len(V.plain) < 4 or any(
                isinstance(x, list) and any(isinstance(y, str) and y.split("/")[0] in V.duration_top for y in x) for x in t):
            return None
        p1, p2, p3 = [n["short"] for n in rng.sample(V.plain, 3)]
        d = rng.choice(V.duration_top) + "/3 s"
        if rule == "duration_other_tags":
            g = [d, p1, [p2]]
        else:
            g = rng.choice([[d], [d, [p1], [p2, p3]]])
        rng.shuffle(g)
        t.insert(rng.randint(0, len(t)), g)
        return render(t, rng)
    if rule == "unique_dup":
        if not V.event_context or any(isinstance(x, list) and "Event-context" in x for x in t):
            return None
        a, b = rng.sample(V.plain, 2)
        t.insert(rng.randint(0, len(t)), ["Event-context", [a["short"]]])
        t.insert(rng.randint(0, len(t)), ["Event-context", [b["short"]]])
        return render(t, rng)

    # ---- text level rules
    s = render(t, rng)
    tagpos = [i for i, c in enumerate(s) if c not in ",() "]
    if rule in ("char", "tilde", "curly"):
        if rule == "char":
            bad = ["[", "]"] + (["\x07", "​", "\n"] if modern else ["é", "中"])
        elif rule == "tilde":
            bad = ["~"]
        else:
            if ph:
                return None
            bad = ["{", "}"]
        k = rng.choice(tagpos) if tagpos else 0
        return s[:k] + rng.choice(bad) + s[k:]
    if rule == "paren":
        x = rng.random()
        if x < 0.35:
            return "(" + s
        if x < 0.7:
            return s + ")"
        idx = [i for i, c in enumerate(s) if c in "()"]
        if not idx:
            return s + "("
        k = rng.choice(idx)
        return s[:k] + s[k + 1:]
    if rule == "empty":
        x = rng.random()
        idx = [i for i, c in enumerate(s) if c == ","]
        close = [i for i, c in enumerate(s) if c == ")"]
        if close and x < 0.15:
            k = rng.choice(close)
            return s[:k] + rng.choice([",", ", "]) + s[k:]
        if x < 0.35 or not idx:
            return rng.choice([s + ",", "," + s, s + " , "])
        k = rng.choice(idx)
        return s[:k] + rng.choice([",,", ", ,"]) + s[k + 1:]
    if rule == "missing_comma":
        idx = [i for i in range(len(s) - 1) if s[i] == ")" and s[i + 1:].lstrip(" ").startswith(",")
               and not s[i + 1:].lstrip(" ,").startswith(")") and s[i + 1:].lstrip(" ,") != ""]
        idx2 = [i for i in range(1, len(s)) if s[i] == "(" and s[:i].rstrip(" ").endswith(",")
                and s[:i].rstrip(" ,") and s[:i].rstrip(" ,")[-1] not in "(,"]
        x = rng.random()
        if idx and x < 0.4:
            k = rng.choice(idx)
            j = s.index(",", k)
            return s[:j] + " " + s[j + 1:]
        if idx2 and x < 0.8:
            k = rng.choice(idx2)
            j = s.rindex(",", 0, k)
            return s[:j] + " " + s[j + 1:]
        return s + " (" + V.filler + ")"
    if rule == "slash":
        x = rng.random()
        idx = [i for i, c in enumerate(s) if c == "/"]
        if idx and x < 0.4:
            k = rng.choice(idx)
            return s[:k] + rng.choice(["//", "/ ", " /"]) + s[k + 1:]
        spans = []
        for m in re.finditer(r"[^,()]+", s):
            a0, b0 = m.start(), m.end()
            while a0 < b0 and s[a0] == " ":
                a0 += 1
            while b0 > a0 and s[b0 - 1] == " ":
                b0 -= 1
            if a0 < b0:
                spans.append((a0, b0))
        if not spans:
            return "/" + s
        a0, b0 = rng.choice(spans)
        return s[:a0] + "/" + s[a0:] if x < 0.7 else s[:b0] + "/" + s[b0:]
    raise ValueError(rule)


# ---------------------------------------------------------------------------------------------------------------
# value classes: expectation computed from the XML reading + class_regex.json only
VALUE_CANDIDATES = ["5", "5.5", "-3e2", ".5", "loud", "very-loud", "level_2", "some text", "2021-03-04T05:06:07",
                    "5.5.5", "+-3", "very loud", "a$b", "1.5e", "3 dB", "x!y", "12:30", "a.b"]


class ClassRegex:
    """class_regex.json evaluated independently of hed-python (python `re` on the literals of the file)."""

    def __init__(self, path):
        import json
        d = json.load(open(path, encoding="utf8"))
        self.char_regex, self.class_chars, self.class_words = d["char_regex"], d["class_chars"], d["class_words"]

    def word_ok(self, cls, value):
        rx = self.class_words.get(cls)
        return True if not rx else re.match(rx, value) is not None

    def bad_chars(self, cls, value):
        names = self.class_chars.get(cls) or []
        if not names:
            return []
        rx = re.compile("|".join(self.char_regex[n] for n in names))
        return [ch for ch in value if not rx.match(ch)]

    def verdict(self, classes, value):
        """('ok', set()) or ('bad', codes that must be reported) for a tag with these value classes."""
        if not classes:
            return "ok", set()
        per = [(self.word_ok(c, value), self.bad_chars(c, value)) for c in classes]
        if any(w and not b for w, b in per):
            return "ok", set()
        codes = set()
        for w, b in per:
            if not w:
                codes.add("VALUE_INVALID")
            elif any(ch in "{}" for ch in b):
                codes.add("SIDECAR_BRACES_INVALID")
            if w and any(ch not in "{}" for ch in b):
                codes.add("CHARACTER_INVALID")
        return "bad", codes

    def accepting(self, classes, value):
        return sum(1 for c in classes if self.word_ok(c, value) and not self.bad_chars(c, value))


EXT_OK = set("-_/.+-^ _#: ")


def value_expectation(CR, n, value, declared=None):
    """Expected verdict for `<tag>/<value>` (no unit written) of the valued node n.  A valueClass attribute that names
    a class the schema does not define (8.0.0 / testlib 1.0.2: labelClass) is no value class."""
    vcs, ucs = n["value"]["vclass"], n["value"]["unit"]
    if declared is not None:
        vcs = [c for c in vcs if c in declared]
    if not vcs and not ucs:
        bad = [ch for ch in value if not (ch.isalnum() or ch in EXT_OK)]
        return ("bad", {"CHARACTER_INVALID"}) if bad else ("ok", set())
    return CR.verdict(vcs, value)


def value_cases(rng, V, CR, per_set):
    """Every value-class SET of the schema (incl. tags with several value classes): `per_set` tags each,
    every candidate value; returns (text, expect_kind, codes, meta)."""
    groups = {}
    for n in V.valued:
        groups.setdefault((tuple(n["value"]["vclass"]), bool(n["value"]["unit"])), []).append(n)
    out = []
    for key in sorted(groups):
        ns = groups[key]
        chosen = ns if per_set is None or len(ns) <= per_set else rng.sample(ns, per_set)
        for n in chosen:
            for v in VALUE_CANDIDATES:
                if n["value"]["unit"] and " " in v:
                    continue
                kind, codes = value_expectation(CR, n, v, V.declared_vclasses)
                base = form_of(rng, n)
                acc = CR.accepting([c for c in n["value"]["vclass"] if c in V.declared_vclasses], v)
                out.append((base + "/" + v, kind, codes,
                            {"classes": list(key[0]), "unit": key[1], "accepted_by": acc}))
    return out


def unit_forms(V, uc):
    """Spellings the schema admits for the units of class uc (symbols case sensitive)."""
    sym, word = set(), set()
    for u in V.units.get(uc, []):
        if u["symbol"]:
            sym.add(u["name"])
            if u["si"]:
                sym.update(m + u["name"] for m in V.mods_symbol)
        else:
            for nm in (u["name"], u["name"] + "s", u["name"] + "es"):
                word.add(nm.casefold())
                if u["si"]:
                    word.update((m + nm).casefold() for m in V.mods_word)
    return sym, word


def def_case_pairs(rng, V):
    """(good, bad) values of Def/LenDef/# that differ ONLY in letter case: valid SI symbol vs an invalid respelling."""
    sym, word = unit_forms(V, "physicalLengthUnits")
    pairs = []
    for m in V.mods_symbol + [""]:
        good = m + "m"
        if good not in sym:
            continue
        for bad in {good.upper(), good.capitalize(), good.swapcase()}:
            if bad != good and bad not in sym and bad.casefold() not in word and bad.casefold() == good.casefold():
                pairs.append((good, bad))
    return pairs
