"""C19 -- The schema cache never serves or keeps a torn schema file.

Real processes (forked, one per modelled process) run the real hed code on a scratch cache
directory.  Every file operation of the anchored code is intercepted by proxies installed on the
hed modules inside the child (no source hooks) and turned into a *gate*: the child reports the
operation it is about to do and blocks until the controller lets it go.  A schedule of
Run p / Crash p (SIGKILL) / Tick d events is executed on the real processes and then on the
extracted Coq model; traces (which operation each step performed), outcomes, final directory
state, time stamp and network use are compared, and the clauses of the property statement are
checked directly on what the implementation did (oracle)."""
import os
import random
import shutil
import signal
import sys
import time
import traceback
from multiprocessing import get_context, Pipe

from harness import common as C

PROP = "C19"
COQ_TARGETS = ["Props/C19.vo", "Extract/ExtractC19.vo"]
TRUSTED = [
    "Model/Cache.v is a hand transcription of hed_cache.get_hed_versions/get_hed_version_path/cache_local_versions/"
    "_copy_installed_folder_to_cache/cache_xml_versions(offline)/_safe_move_tmp_to_folder, CacheLock.__enter__/__exit__/"
    "_read_last_cached_time/_write_last_cached_time and hed_schema_io._load_schema_version_sub, one model step per file "
    "operation; tied by executing the same schedules on real forked processes gated at every operation",
    "POSIX file semantics assumed by the model: open('wb') truncates, writes go to the writer's own offset (a write "
    "beyond the end leaves zero bytes), os.replace is atomic, a killed process loses its advisory lock; shutil.copy / "
    "copyfile are replaced in the children by an equivalent open+chunked-write loop so that a kill inside a copy can "
    "be placed at a chosen offset",
    "portalocker advisory-lock semantics (real portalocker is used; the controller probes the lock file itself)",
    "no network: make_url_request is replaced by a stub raising URLError (this sandbox is offline anyway)",
    "the code as it is = /repo with the fix commits da46472 (C19-F1 lock acquired), 19ec63c (C19-F2 copy to "
    "<name>.<pid>.tmp then os.replace), 160dd4a (C19-F3 missing bundled version looked up in the installed folder, "
    "except tuples), b23f2f7 (C19-F4 tolerant stamp read + atomic stamp write), 8dfe516 (C19-F5 parse fall-back "
    "to the installed file): it is driven against the model kinds "
    "KLoadFixed/KRefreshFixed (VERIF_C19_FIXED>=1) and the oracle accepts no class of those four findings. "
    "VERIF_C19_FIXED=0 drives a tree from BEFORE those commits against KLoad/KRefresh (record of the repaired "
    "defects); VERIF_C19_FIXED=2 (the default: /repo carries fix-F5 as commit 8dfe516) drives a tree that also has the parse fall-back (parse_fallback); VERIF_C19_FIXED=1 a tree before 8dfe516. In the children "
    "the real portalocker.Lock is used (file opened once, every attempt locks that open file); only its retry pacing "
    "is replaced: MAXTRIES attempts, one gate each = the model's max_tries",
    "platform trust, not proved: the locking primitive behind portalocker (BSD flock on Linux) gives locks that "
    "belong to the open file (model switch per_process_locks = false) and are dropped when the process dies; the "
    "same-process / nested-CacheLock schedules of every run test exactly this on the platform at hand",
]
ASSUMPTIONS = [
    "process death = the process stops between two file operations (or between two chunks of a copy); the model's "
    "chunk granularity is 2 per file in the harness runs, arbitrary in the theorems",
    "time.time() is replaced by a virtual clock in the children; the refresh interval is the code's own "
    "CACHE_TIME_THRESHOLD",
    "fixed_load_terminates bounds the loader's own steps; lock-attempt pacing (sleep between attempts) is abstracted "
    "into max_tries",
    "directory states: the theorems C19_*_any_directory start from an ARBITRARY directory (leftover temporary files, "
    "any/torn stamp, lock file, foreign locks, any clock) under the single requirement dir_ok = every final-name "
    "HED*.xml already present is complete; the harness prepares such directories AND directories with torn "
    "final-name files -- before fix commit 8dfe516 the code failed on those (C19-F5, record: C19_preexisting_torn_file_witness); "
    "mixing pre-fix and current processes in one schedule is not modelled",
    "a bundled file is ONE index in the model, used by the cache look-up and by the installed-folder look-up alike; "
    "that both look-ups of the real code use the same key (version AND library name) is tested, not proved: every "
    "bundled version, standard and library, is loaded by number through the default cache directory and through "
    "xml_folder after populations interrupted before its own file was renamed",
    "merged requests ('lib_a_x,lib_b_y': several bundled versions into one schema) are checked by the oracle only: "
    "both orders, each requested file complete / missing / torn, also after an interrupted population; the loaded "
    "schema must equal the bundled merge (libraries, versions, number and names of tags). The model has one version "
    "per load; how the loader combines the parts is not modelled",
    "clock: schedules contain forward ticks and steps BACK (model event Back), and prepared time stamps lie before, "
    "at and after the caller's clock; one virtual clock per schedule (hosts with skewed clocks are represented by a "
    "stamp in the future / a step back, not by per-process clocks)",
    "contenders living in threads of one process or in nested CacheLock objects are checked by the oracle on the "
    "real processes only (who is inside after every event); the Coq theorem covers them as separate lock owners "
    "under per_process_locks = false",
]

NCH = 2
VT0 = 10000
MAXTRIES = 3
# 2 (default): the tree under test is the code as it is = /repo with the five fix commits da46472 (C19-F1), 19ec63c
#    (C19-F2), 160dd4a (C19-F3), b23f2f7 (C19-F4), 8dfe516 (C19-F5, parse_fallback); it is driven against
#    KLoadFixed / KRefreshFixed with parse_fallback on, and NO finding class is accepted.
# 1: a tree from before 8dfe516 (the first four fixes only): the class of the repaired defect C19-F5 (pre-existing
#    torn final-name file) is accepted, nothing else.  (record)
# 0: a tree from before all those commits, driven against KLoad / KRefresh.  (record of the repaired defects)
FIXED = int(os.environ.get("VERIF_C19_FIXED", "2"))   # 2: /repo carries fix-F5 as commit 8dfe516


def _fid(x):
    if x == "C19-F5":
        return x if FIXED < 2 else None
    return None if FIXED else x

# ------------------------------------------------------------------------------------------------
# child side: proxies installed on the hed modules
# ------------------------------------------------------------------------------------------------


class _Instr:
    # per-contender state: one contender per thread (ordinary processes have just the main thread)
    _TL = {"conn", "vtime", "phase", "net_in_refresh", "netcalls", "listing", "read_status", "enters", "populated",
           "inside", "callkind"}

    def __init__(self, conn, spec):
        import threading
        object.__setattr__(self, "_tl", threading.local())
        self.spec = spec
        self.dir = os.path.realpath(spec["dir"])
        self.gv = [float(spec.get("vtime", VT0))]   # the process's clock: the latest time any contender was told
        self.reset(conn)

    def __setattr__(self, n, v):
        if n in _Instr._TL:
            setattr(self._tl, n, v)
        else:
            object.__setattr__(self, n, v)

    def __getattr__(self, n):
        if n in _Instr._TL:
            return getattr(object.__getattribute__(self, "_tl"), n)
        raise AttributeError(n)

    def reset(self, conn):
        self.conn = conn
        self.vtime = self.gv[0]
        self.phase = "normal"
        self.net_in_refresh = 0
        self.netcalls = 0
        self.listing = None       # the listing the lookup decision was based on
        self.read_status = None   # status of the file handed to load_schema
        self.enters = []          # (write_time, "ok"/"CacheException"/..., stamp empty?)
        self.populated = False
        self.inside = 0           # number of CacheLock objects this contender is inside (successful __enter__ .. end
        self.callkind = self.spec["kind"]                                            # of __exit__)

    # -- gate: report the next operation, wait for the controller
    def gate(self, *name):
        self.conn.send(("gate", list(name), int(self.inside)))
        msg = self.conn.recv()
        self.vtime = float(msg[1])
        self.gv[0] = self.vtime      # the controller's clock at the latest 'go' (it may have been stepped back)

    def install(self):
        import hed.schema.hed_cache as hc
        import hed.schema.hed_cache_lock as hl
        import hed.schema.hed_schema_io as hio
        import hed.schema.schema_io.schema_util as su
        I = self
        self.hc, self.hl, self.hio = hc, hl, hio
        hc.INSTALLED_CACHE_LOCATION = self.spec["inst"]
        self.inst = hc.INSTALLED_CACHE_LOCATION
        self.inst_files = inst_files(self.inst)

        class PathProxy:
            def __getattr__(s, n):
                return getattr(os.path, n)

            def exists(s, p):
                d, b = os.path.split(p)
                if os.path.realpath(d) == I.dir and b in I.inst_files:
                    I.gate("Exists", I.inst_files.index(b))
                return os.path.exists(p)

        class OsProxy:
            path = PathProxy()

            def __getattr__(s, n):
                return getattr(os, n)

            def listdir(s, d):
                if os.path.realpath(d) == I.dir:
                    if I.phase == "recheck":
                        I.phase = "rechecked"
                        I.gate("Recheck")
                    elif I.phase == "normal":
                        I.gate("LList")
                    out = os.listdir(d)
                    I.listing = sorted(out)
                    return out
                return os.listdir(d)

            def _in_cache(s, x):
                try:
                    return os.path.realpath(os.path.dirname(os.fspath(x))) == I.dir
                except TypeError:
                    return False

            def remove(s, x, *a, **k):
                if s._in_cache(x):
                    I.gate("Unlink", os.path.basename(os.fspath(x)).replace(" ", "_"))
                return os.remove(x, *a, **k)

            unlink = remove

            def scandir(s, d="."):
                if os.path.realpath(os.fspath(d)) == I.dir:
                    I.gate("Scan")
                    return iter(list(os.scandir(d)))
                return os.scandir(d)

            def rmdir(s, x, *a, **k):
                if s._in_cache(x):
                    I.gate("Unlink", os.path.basename(os.fspath(x)))
                return os.rmdir(x, *a, **k)

            def replace(s, a, b):
                if I.callkind == "move":
                    I.gate("DReplace", I.findex(b))
                elif os.path.realpath(os.path.dirname(b)) == I.dir and os.path.basename(b) in I.inst_files:
                    I.gate("Replace", I.findex(b))
                return os.replace(a, b)

        class ShutilProxy:
            def __getattr__(s, n):
                return getattr(shutil, n)

            def rmtree(s, x, *a, **k):
                if os.path.realpath(os.path.dirname(os.fspath(x))) == I.dir or os.path.realpath(os.fspath(x)) == I.dir:
                    I.gate("Unlink", os.path.basename(os.fspath(x)))
                return shutil.rmtree(x, *a, **k)

            def copy(s, src, dst):
                if os.path.realpath(os.path.dirname(dst)) != I.dir:
                    return shutil.copy(src, dst)
                I.chunked(src, dst, "Open", "Write", I.findex(src))
                shutil.copymode(src, dst)
                return dst

        def copyfile(src, dst):
            I.chunked(src, dst, "DOpen", "DWrite", I.spec.get("findex", 0))
            return dst

        import pathlib

        class PathProxy2(type(pathlib.Path())):
            """pathlib.Path whose directory scans and unlinks on the cache folder are gates"""

            def _cache_dir(s):
                try:
                    return os.path.realpath(str(s)) == I.dir
                except OSError:
                    return False

            def glob(s, pattern, **k):
                if s._cache_dir():
                    I.gate("Scan")
                    return iter([PathProxy2(x) for x in sorted(pathlib.Path(str(s)).glob(pattern, **k))])
                return super().glob(pattern, **k)

            def rglob(s, pattern, **k):
                if s._cache_dir():
                    I.gate("Scan")
                    return iter([PathProxy2(x) for x in sorted(pathlib.Path(str(s)).rglob(pattern, **k))])
                return super().rglob(pattern, **k)

            def iterdir(s):
                if s._cache_dir():
                    I.gate("Scan")
                    return iter([PathProxy2(x) for x in sorted(pathlib.Path(str(s)).iterdir())])
                return super().iterdir()

            def unlink(s, *a, **k):
                if os.path.realpath(os.path.dirname(str(s))) == I.dir:
                    I.gate("Unlink", s.name.replace(" ", "_"))
                return super().unlink(*a, **k)

        class GlobProxy:
            def __getattr__(s, n):
                import glob as g
                return getattr(g, n)

            def glob(s, pat, *a, **k):
                import glob as g
                if os.path.realpath(os.path.dirname(str(pat))) == I.dir:
                    I.gate("Scan")
                return g.glob(pat, *a, **k)

            iglob = glob

        class LockOsProxy:
            path = os.path

            def __getattr__(s, n):
                return getattr(os, n)

            def replace(s, a, b):
                if os.path.basename(b) == hl.TIMESTAMP_FILENAME and os.path.realpath(os.path.dirname(b)) == I.dir:
                    I.gate("XExit")
                return os.replace(a, b)

        import portalocker as real_pl

        class GatedLock(real_pl.Lock):
            """the real portalocker.Lock (the file is opened ONCE, every attempt tries to lock that open file);
            only the pacing of the retry loop is replaced: MAXTRIES attempts, one gate each, no sleeping"""

            def _mine(s):
                return os.path.realpath(os.path.dirname(str(s.filename))) == I.dir

            def _get_fh(s):
                if s._mine():
                    I.gate("Acquire")          # first attempt = open (creating the file) + try to lock
                return super()._get_fh()

            def _timeout_generator(s, timeout, check_interval):
                yield 0
                for i in range(1, MAXTRIES):
                    if s._mine():
                        I.gate("Acquire")      # a further attempt on the same open file
                    yield i

        class PLProxy:
            exceptions = real_pl.exceptions
            Lock = GatedLock

            def __getattr__(s, n):
                return getattr(real_pl, n)

        def net(url, *a, **k):
            from urllib.error import URLError
            I.netcalls += 1
            if I.net_in_refresh == 0:
                I.net_in_refresh = 1
                I.gate("Net")
            raise URLError("offline (C19 harness)")

        class TimeProxy:
            def __getattr__(s, n):
                return getattr(time, n)

            def time(s):
                return I.gv[0]

        class StampFile:
            def __init__(s, f):
                s.f = f

            def write(s, x):
                I.gate("StampWrite")
                r = s.f.write(x)
                s.f.flush()
                return r

            def __enter__(s):
                return s

            def __exit__(s, *a):
                s.f.close()

            def __getattr__(s, n):
                return getattr(s.f, n)

        def open_(path, mode="r", *a, **k):
            if os.path.basename(str(path)) == hl.TIMESTAMP_FILENAME and "w" in mode \
                    and os.path.realpath(os.path.dirname(path)) == I.dir:
                I.gate("StampOpen")
                return StampFile(open(path, mode, *a, **k))
            return open(path, mode, *a, **k)

        orig_enter, orig_exit = hl.CacheLock.__enter__, hl.CacheLock.__exit__

        def enter(lk):
            mine = os.path.realpath(lk.cache_folder) == I.dir
            stamp_empty = False
            if mine:
                I.net_in_refresh = 0
                I.gate("Enter")
                sp = os.path.join(I.dir, hl.TIMESTAMP_FILENAME)
                stamp_empty = os.path.exists(sp) and os.path.getsize(sp) == 0
            try:
                r = orig_enter(lk)
            except BaseException as e:
                if mine:
                    I.enters.append([bool(lk.write_time), type(e).__name__, stamp_empty])
                raise
            if mine:
                I.inside += 1
                I.enters.append([bool(lk.write_time), "ok", stamp_empty])
                if I.callkind in ("hold", "nested") and I.inside == 1:
                    I.gate("Inside")
            return r

        def exit_(lk, *a):
            if os.path.realpath(lk.cache_folder) == I.dir and not lk.write_time and \
                    not (I.callkind in ("hold", "nested") and I.inside == 1):
                I.gate("ExistsEnd")
                I.gate("Exit")
                I.populated = True
            try:
                return orig_exit(lk, *a)
            finally:
                if os.path.realpath(lk.cache_folder) == I.dir:
                    I.inside = max(0, I.inside - 1)

        orig_load = hio.load_schema

        def load_schema(path, *a, **k):
            if path and os.path.realpath(os.path.dirname(str(path))) == I.dir:
                I.gate("Read")
                I.read_status = file_status(path, os.path.join(I.inst, os.path.basename(path)))[0]
            elif path and os.path.realpath(os.path.dirname(str(path))) == os.path.realpath(I.inst):
                I.gate("ReadInstalled")
                I.read_status = "installed"
            return orig_load(path, *a, **k)

        orig_cxv = hc.cache_xml_versions

        def cache_xml_versions(*a, **k):
            try:
                return orig_cxv(*a, **k)
            finally:
                if I.phase == "normal":
                    I.phase = "recheck"

        hc.os = OsProxy()
        hc.shutil = ShutilProxy()
        if hasattr(hc, "Path"):
            hc.Path = PathProxy2
        if hasattr(hc, "glob"):
            hc.glob = GlobProxy()
        hc.copyfile = copyfile
        hc.make_url_request = net
        su.make_url_request = net
        hc.cache_xml_versions = cache_xml_versions
        hl.time = TimeProxy()
        hl.open = open_
        hl.os = LockOsProxy()
        hl.portalocker = PLProxy()
        hl.CacheLock.__enter__ = enter
        hl.CacheLock.__exit__ = exit_
        hio.load_schema = load_schema
        self.orig_load = orig_load

    def findex(self, path):
        b = os.path.basename(path)
        return self.inst_files.index(b) if b in self.inst_files else 99

    def chunked(self, src, dst, gopen, gwrite, f):
        """open(dst,'wb') ; write the chunks one by one (unbuffered) -- what shutil.copy/copyfile do"""
        data = open(src, "rb").read()
        bounds = chunk_bounds(len(data), self.spec.get("nchunks", NCH))
        self.gate(gopen, f)
        fd = open(dst, "wb", buffering=0)
        try:
            for i, (a, b) in enumerate(bounds):
                self.gate(gwrite, f, i)
                fd.write(data[a:b])
        finally:
            fd.close()

    # -- the programs
    def run(self):
        """one call, or (kind 'seq') several calls made one after the other by this one OS process"""
        self.hc.set_cache_directory(self.dir)
        if self.spec["kind"] == "threads":
            return self.run_threads()
        calls = self.spec["calls"] if self.spec["kind"] == "seq" else [self.spec]
        out = None
        for k, call in enumerate(calls):
            out = self.run_call(call)
            if k < len(calls) - 1:
                self.conn.send(("calldone", out))
        return out

    def run_threads(self):
        """several contenders in THIS OS process, one thread each, each with its own channel to the controller"""
        import threading

        def agent(conn, call):
            self.reset(conn)
            try:
                res = self.run_call(call)
            except BaseException:  # noqa
                res = {"harness_error": traceback.format_exc()[-1500:]}
            conn.send(("done", res))

        ths = [threading.Thread(target=agent, args=(c, a)) for c, a in zip(self.spec["conns"], self.spec["agents"])]
        [t.start() for t in ths]
        [t.join() for t in ths]
        return None

    def run_call(self, call):
        hc, hl, hio = self.hc, self.hl, self.hio
        kind = call["kind"]
        self.callkind = kind
        self.phase, self.net_in_refresh, self.netcalls = "normal", 0, 0
        self.listing, self.read_status, self.enters, self.populated = None, None, [], False
        out = {"kind": kind}
        try:
            if kind == "load":
                v = call["version"]
                if call.get("via") == "xml_folder":
                    # the cache directory is passed explicitly; the default one is somewhere else
                    other = self.dir + "-default"
                    hc.set_cache_directory(other)
                    s = hio.load_schema_version(v, xml_folder=self.dir)
                else:
                    s = hio.load_schema_version(v)
                if "," in v:
                    # a MERGED request (several bundled versions into one schema): the bundled merge is what the
                    # same request gives on the installed folder, where every file is complete
                    ref = hio.load_schema_version(v, xml_folder=self.inst)
                else:
                    ref = self.orig_load(os.path.join(self.inst, vfile(v)))
                out["result"] = ["ok", bool(s == ref)]

                def brief(x):        # content, not only 'it loaded': libraries, versions, number and names of tags
                    try:
                        names = sorted(x.tags.keys())
                        return [x.library, x.get_formatted_version(), len(names),
                                __import__("hashlib").sha1(",".join(names).encode()).hexdigest()[:10]]
                    except Exception as ex:  # noqa
                        return ["?", type(ex).__name__]
                out["got"], out["want"] = brief(s), brief(ref)
                if out["got"] != out["want"]:
                    out["result"] = ["ok", False]
            elif kind == "refresh":
                r = hc.cache_xml_versions(cache_folder=self.dir)
                out["result"] = ["ret", r]
            elif kind == "move":
                dest = os.path.join(self.dir, self.inst_files[call["findex"]])
                r = hc._safe_move_tmp_to_folder(call["tmp"], dest)
                out["result"] = ["ret", "dest" if r == dest else repr(r)]
            elif kind == "hold":
                with hl.CacheLock(self.dir, write_time=False):
                    pass
                out["result"] = ["ret", "held"]
            elif kind == "populate":
                out["result"] = ["ret", hc.cache_local_versions(self.dir)]
            elif kind == "nested":
                # the same thread uses a second CacheLock on the directory while it holds the first
                with hl.CacheLock(self.dir, write_time=False):
                    if call.get("inner") == "lock":
                        try:
                            with hl.CacheLock(self.dir, write_time=False):
                                out["inner"] = "entered"
                        except hl.CacheException:
                            out["inner"] = -1
                    else:
                        out["inner"] = hc.cache_local_versions(self.dir)
                    self.gate("Inside2")
                out["result"] = ["ret", "held"]
        except BaseException as e:  # noqa -- the exception IS the observation
            out["result"] = ["exc", type(e).__name__, str(getattr(e, "code", "")), str(e)[:160]]
        out.update(listing=self.listing, read_status=self.read_status, enters=self.enters,
                   netcalls=self.netcalls, populated=self.populated)
        return out


def child_main(conn, spec):
    try:
        signal.signal(signal.SIGINT, signal.SIG_DFL)
        I = _Instr(conn, spec)
        I.install()
        res = I.run()
    except BaseException:  # noqa
        res = {"harness_error": traceback.format_exc()[-1500:]}
    try:
        if spec["kind"] != "threads":
            conn.send(("done", res))
            conn.close()
    finally:
        os._exit(0)


# ------------------------------------------------------------------------------------------------
# shared helpers
# ------------------------------------------------------------------------------------------------

def snapshot_installed(scratch):
    """private snapshot of the bundled schemas (files matching the version pattern) + the library_data folder, so
    that files other processes may drop into the shared source tree during the run cannot interfere"""
    import hed.schema.hed_cache as hc
    src = os.path.realpath(os.path.join(C.REPO, "hed/schema/schema_data"))
    if os.path.realpath(hc.INSTALLED_CACHE_LOCATION) != src:
        raise RuntimeError(f"INSTALLED_CACHE_LOCATION {hc.INSTALLED_CACHE_LOCATION} is not {src}")
    dst = os.path.join(scratch, "installed")
    os.makedirs(os.path.join(dst, "library_data"))
    for n in os.listdir(src):
        if hc.version_pattern.match(n) and not os.path.isdir(os.path.join(src, n)):
            shutil.copy(os.path.join(src, n), os.path.join(dst, n))
    ld = os.path.join(src, "library_data", "library_data.json")
    if os.path.exists(ld):
        shutil.copy(ld, os.path.join(dst, "library_data"))
    return dst


def inst_files(inst):
    """bundled files in the order _copy_installed_folder_to_cache visits them"""
    return [n for n in os.listdir(inst) if not os.path.isdir(os.path.join(inst, n))]


def chunk_bounds(n, k):
    cuts = [n * i // k for i in range(k + 1)]
    return [(cuts[i], cuts[i + 1]) for i in range(k)]


def file_status(path, inst_path, nchunks=NCH):
    """(class, cells): identical | torn (prefix / zero holes on chunk borders) | other | missing"""
    if not os.path.exists(path):
        return "missing", None
    data = open(path, "rb").read()
    ref = open(inst_path, "rb").read()
    cells = []
    for a, b in chunk_bounds(len(ref), nchunks):
        if len(data) <= a:
            break
        if len(data) >= b and data[a:b] == ref[a:b]:
            cells.append("G")
        elif len(data) >= b and data[a:b] == b"\0" * (b - a):
            cells.append("H")
        else:
            cells.append("X")
    if len(data) > len(ref):
        cells.append("X")
    if data == ref:
        return "identical", cells
    if "X" in cells:
        # any proper prefix is still the in-place-copy artefact
        return ("torn" if ref.startswith(data) else "other"), cells
    return "torn", cells


def dir_state(d, inst, files, stampname="last_update.txt"):
    st = {"files": {}, "other": []}
    for n in sorted(os.listdir(d)):
        p = os.path.join(d, n)
        if n in files:
            st["files"][files.index(n)] = file_status(p, os.path.join(inst, n))
        elif n == stampname:
            txt = open(p).read()
            st["stamp"] = "T" if txt == "" else ["A", int(float(txt))]
        elif n == "cache_lock.lock":
            st["lockfile"] = 1
        else:
            st["other"].append(n)
    st.setdefault("stamp", "N")
    st.setdefault("lockfile", 0)
    return st


def prepare_dir(d, inst, files, init):
    """init = {'files': {idx: cells}, 'stamp': 'N'|'T'|['A',t], 'lockfile': 0/1}"""
    os.makedirs(d, exist_ok=True)
    for idx, cells in init.get("files", {}).items():
        ref = open(os.path.join(inst, files[int(idx)]), "rb").read()
        out = b""
        for (a, b), c in zip(chunk_bounds(len(ref), NCH), cells):
            out += ref[a:b] if c == "G" else b"\0" * (b - a)
        with open(os.path.join(d, files[int(idx)]), "wb") as f:
            f.write(out)
    st = init.get("stamp", "N")
    if st == "T":
        open(os.path.join(d, "last_update.txt"), "w").close()
    elif st != "N":
        with open(os.path.join(d, "last_update.txt"), "w") as f:
            f.write(str(float(st[1])))
    if init.get("lockfile"):
        open(os.path.join(d, "cache_lock.lock"), "a").close()


# ------------------------------------------------------------------------------------------------
# controller: run one schedule on real processes
# ------------------------------------------------------------------------------------------------

class _P:
    pass


def run_case(case):
    """case = {id, init, procs:[spec..], schedule:[[R,p]|[C,p]|[T,d]..], finish:bool, probe_lock_after:int|None}
    returns executed events with gate names, results, final state"""
    inst = case["inst"]
    files = inst_files(inst)
    d = os.path.join(case["scratch"], "case-%s" % case["id"])
    shutil.rmtree(d, ignore_errors=True)
    prepare_dir(d, inst, files, case.get("init", {}))
    vtime = VT0
    procs = []
    out = {"id": case["id"], "events": [], "gates": [], "results": [], "killed": [], "lock_probe": None,
           "inside": [], "overlap": None, "refresh_attempts": []}
    try:
        for spec in case["procs"]:
            spec = dict(spec, dir=d, vtime=vtime, inst=inst)
            if spec["kind"] == "move":
                spec["tmp"] = os.path.join(case["scratch"], "src-%s-%d.xml" % (case["id"], len(procs)))
                shutil.copyfile(os.path.join(inst, files[spec["findex"]]), spec["tmp"])
            if spec["kind"] == "threads":
                # one OS process, one contender per thread, each with its own channel
                pipes = [Pipe() for _ in spec["agents"]]
                spec["conns"] = [b for _, b in pipes]
                pid = os.fork()
                if pid == 0:
                    for a, _ in pipes:
                        a.close()
                    child_main(None, spec)
                    os._exit(0)
                for (a, b), ag in zip(pipes, spec["agents"]):
                    b.close()
                    p = _P()
                    p.pid, p.conn, p.state, p.at, p.result, p.inside = pid, a, "live", None, None, 0
                    p.calls = [ag]
                    p.base = sum(len(q.calls) for q in procs)
                    p.call, p.results = 0, []
                    procs.append(p)
                continue
            a, b = Pipe()
            pid = os.fork()
            if pid == 0:
                a.close()
                child_main(b, spec)
                os._exit(0)
            b.close()
            p = _P()
            p.pid, p.conn, p.state, p.at, p.result, p.inside = pid, a, "live", None, None, 0
            # model process ids: one per CALL (a 'seq' process makes several calls one after the other)
            p.calls = spec["calls"] if spec["kind"] == "seq" else [spec]
            p.base = sum(len(q.calls) for q in procs)
            p.call, p.results = 0, []
            procs.append(p)
        for p in procs:
            _wait(p)

        def mp(q):
            return q.base + min(q.call, len(q.calls) - 1)

        def do(ev):
            # after every executed event: who is inside 'with CacheLock' (reported by the processes themselves)
            n0 = len(out["events"])
            do_raw(ev)
            if len(out["events"]) > n0:
                ins = []
                for q in procs:
                    if q.state == "live":
                        ins += [mp(q)] * int(q.inside)     # (a contender may be inside two CacheLock objects)
                out["inside"] += [ins] * (len(out["events"]) - n0)
                if len(ins) >= 2 and out["overlap"] is None:
                    out["overlap"] = {"step": n0, "event": out["events"][n0], "inside": ins,
                                      "at": [q.at for q in procs if q.state == "live" and q.inside],
                                      "os_locked": _probe(d, procs)["os_locked"]}

        def do_raw(ev):
            nonlocal vtime
            k, x = ev
            if k == "T":
                if x < 0:
                    x = -min(-x, vtime)                                      # (the clock never goes below 0)
                vtime += x
                out["events"].append(["T", x] if x >= 0 else ["B", -x])    # B: the clock is stepped back
                out["gates"].append(None)
                return
            p = procs[x]
            if p.state != "live":
                return
            if k == "C":
                os.kill(p.pid, signal.SIGKILL)
                os.waitpid(p.pid, 0)
                for q in procs:          # every contender (thread) of that OS process dies with it
                    if q.pid == p.pid and q.state == "live":
                        q.state = "dead"
                        q.inside = 0
                        out["killed"].append([mp(q), q.at])
                        out["events"].append(["C", mp(q)])
                        out["gates"].append(None)
                return
            out["events"].append(["R", mp(p)])
            out["gates"].append(p.at)
            if p.at == ["Enter"] and p.calls[min(p.call, len(p.calls) - 1)]["kind"] == "refresh":
                # the oracle's own reading of the SHARED stamp at the moment this refresh is attempted
                sp = os.path.join(d, "last_update.txt")
                try:
                    age = vtime - float(open(sp).read())
                except (OSError, ValueError):
                    age = None
                out["refresh_attempts"].append({"mp": mp(p), "age": age, "vtime": vtime})
            p.conn.send(("go", vtime))
            _wait(p)

        for i, ev in enumerate(case["schedule"]):
            if ev[0] == "U":          # run process x until the call it is in has returned
                q, c0, guard = procs[ev[1]], procs[ev[1]].call, 0
                while q.state == "live" and q.call == c0 and guard < 400:
                    do(["R", ev[1]])
                    guard += 1
            else:
                do(ev)
            if case.get("probe_lock_after") == i:
                out["lock_probe"] = _probe(d, procs)
        if case.get("finish", True):
            guard = 0
            while any(p.state == "live" for p in procs) and guard < 4000:
                for i, p in enumerate(procs):
                    if p.state == "live":
                        do(["R", i])
                        guard += 1
        out["results"] = []
        for p in procs:
            rs = list(p.results) + ([p.result] if p.state == "done" else [{"state": p.state, "at": p.at}])
            rs += [{"state": "notstarted"}] * (len(p.calls) - len(rs))
            out["results"] += rs
        out["final"] = dir_state(d, inst, files)
        out["vtime"] = vtime
    finally:
        for p in procs:
            if p.state == "live":
                try:
                    os.kill(p.pid, signal.SIGKILL)
                    os.waitpid(p.pid, 0)
                except OSError:
                    pass
            elif p.state == "done":
                try:
                    os.waitpid(p.pid, 0)
                except OSError:
                    pass
        shutil.rmtree(d, ignore_errors=True)
        shutil.rmtree(d + "-default", ignore_errors=True)
        for spec in case["procs"]:
            pass
        for n in os.listdir(case["scratch"]):
            if n.startswith("src-%s-" % case["id"]):
                os.remove(os.path.join(case["scratch"], n))
    return out


def _wait(p, timeout=120):
    if not p.conn.poll(timeout):
        p.state = "hung"
        p.result = {"harness_error": "child hung at %s" % (p.at,)}
        return
    try:
        msg = p.conn.recv()
    except EOFError:
        p.state = "done"
        p.result = {"harness_error": "child died"}
        return
    if msg[0] == "calldone":      # one call of a multi-call process has returned; it goes on to the next
        p.results.append(msg[1])
        p.call += 1
        return _wait(p, timeout)
    if msg[0] == "gate":
        p.at = msg[1]
        p.inside = int(msg[2])
    else:
        p.state = "done"
        p.inside = 0
        p.result = msg[1]


def _probe(d, procs):
    """who is inside 'with CacheLock' right now, and is the lock file actually locked?"""
    inside = [i for i, p in enumerate(procs) if p.state == "live" and p.inside]
    import portalocker
    fn = os.path.join(d, "cache_lock.lock")
    existed = os.path.exists(fn)
    lk = portalocker.Lock(fn, timeout=0.05, fail_when_locked=True)
    try:
        lk.acquire()
        lk.release()
        locked = False
    except portalocker.exceptions.LockException:
        locked = True
    if not existed and os.path.exists(fn):
        os.remove(fn)
    return {"inside": inside, "os_locked": locked}


# ------------------------------------------------------------------------------------------------
# model side
# ------------------------------------------------------------------------------------------------

def mprocs(case):
    """the model's processes: one per call (a 'seq' OS process makes several calls one after the other)"""
    out = []
    for s in case["procs"]:
        out += s["calls"] if s["kind"] == "seq" else s["agents"] if s["kind"] == "threads" else [s]
    return out


def model_line(case, nfiles, th):
    init = case.get("init", {})
    fl = []
    for idx, cells in sorted(init.get("files", {}).items()):
        fl.append(["V", int(idx), list(cells)])
    st = init.get("stamp", "N")
    kinds = []
    for s in mprocs(case):
        kinds.append({"load": lambda: ["LF" if FIXED else "L", s["vindex"]],
                      "refresh": lambda: "RF" if FIXED else "R",
                      "move": lambda: ["D", s["findex"]]}[s["kind"]]())
    return C.to_sx([[nfiles, NCH, th, MAXTRIES, 2 if FIXED >= 2 else 0], [fl, st, init.get("lockfile", 0), VT0], kinds,
                    [list(e) for e in case["events_executed"]]])


def pc_gate(pc, nfiles):
    if pc == "-":
        return None
    n = pc[0]
    if n in ("LList1", "LList2"):
        return ["LList"]
    if n in ("PEnter", "LFallback"):
        return ["Enter"]
    if n == "PExists":
        return ["Exists", int(pc[1])] if int(pc[1]) < nfiles else ["ExistsEnd"]
    if n == "POpen":
        return ["Open", int(pc[1])]
    if n == "PWrite":
        return ["Write", int(pc[1]), int(pc[2])]
    if n == "PExit":
        return ["Exit"]
    if n == "LRead":
        return ["Read"]
    if n == "RBody":
        return ["Net"]
    if n == "RExitOpen":
        return ["StampOpen"]
    if n == "RExitWrite":
        return ["StampWrite"]
    if n == "LRecheck":
        return ["Recheck"]
    if n in ("FList1", "FCheck"):
        return ["LList"]
    if n in ("FEnter", "XEnter"):
        return ["Enter"]
    if n in ("FAcquire", "XAcquire"):
        return ["Acquire"]
    if n == "FExists":
        return ["Exists", int(pc[1])] if int(pc[1]) < nfiles else ["ExistsEnd"]
    if n == "FTOpen":
        return ["Open", int(pc[1])]
    if n == "FTWrite":
        return ["Write", int(pc[1]), int(pc[2])]
    if n == "FReplace":
        return ["Replace", int(pc[1])]
    if n == "FRelease":
        return ["Exit"]
    if n == "FRead":
        return ["Read"]
    if n == "FReadInstalled":
        return ["ReadInstalled"]
    if n == "XBody":
        return ["Net"]
    if n in ("DOpen", "DReplace"):
        return [n, int(pc[1])]
    if n == "DWrite":
        return ["DWrite", int(pc[1]), int(pc[2])]
    return [n]


def canon_result(res):
    """implementation result -> the model's outcome vocabulary"""
    if res is None or "result" not in res:
        return "live" if res and res.get("state") in ("dead", "live", "notstarted") else "harness"
    r = res["result"]
    if r[0] == "ok":
        return "loaded" if r[1] else "loaded-different"
    if r[0] == "ret":
        return {"-1": "skipped", "dest": "moved"}.get(str(r[1]), "ret:" + str(r[1]))
    name, code, msg = r[1], r[2], r[3]
    if name == "HedFileError" and code == "cannotParseXML":
        return "parse"
    if name == "HedFileError" and code == "fileNotFound":
        return "notcached"
    if name == "URLError":
        return "urlerror"
    if name == "ValueError" and "float" in msg:
        return "valueerror"
    return "exc:" + name + ":" + code


def model_outcome(proc):
    pc = proc[0]
    if pc[0] == "Done":
        return pc[1]
    return "live"


# ------------------------------------------------------------------------------------------------
# oracle: the clauses of the statement, on the implementation's behaviour only
# ------------------------------------------------------------------------------------------------

def oracle(case, out, res, nfiles):
    cid = {"id": case["id"], "init": case.get("init", {}), "procs": case["procs"],
           "schedule": case["schedule"], "finish": case.get("finish", True),
           "probe_lock_after": case.get("probe_lock_after"), "what": case.get("what", "")}
    init = case.get("init", {})
    killed_at = {k: at for k, at in out["killed"]}
    for i, (spec, r) in enumerate(zip(mprocs(case), out["results"])):
        if r and "harness_error" in r:
            res.violation("harness-error", cid, r["harness_error"], no_input=True)
            continue
        if not r or "result" not in r:
            continue
        o = canon_result(r)
        if spec["kind"] == "load":
            # clause: loading a bundled version succeeds and returns the bundled schema
            if o == "loaded":
                continue
            if "," in spec["version"]:
                res.report("load-succeeds/merged-request", cid,
                           f"proc {i}: load of the merged request {spec['version']!r}: outcome {o} {r['result'][:4]}; "
                           f"loaded [library, version, #tags, names] = {r.get('got')}, bundled merge = {r.get('want')}")
                continue
            listing = r.get("listing") or []
            vname = vfile(spec["version"])
            pre = init.get("files", {}).get(spec.get("vindex"), init.get("files", {}).get(str(spec.get("vindex"))))
            if o == "parse" and r.get("read_status") == "torn" and FIXED and pre is not None \
                    and list(pre) != ["G"] * NCH:
                res.report("load-succeeds/pre-existing-torn-file", cid,
                           f"proc {i}: {r['result'][1:4]} reading {vname}, which was already torn ({list(pre)}) "
                           "when the processes started", fid=_fid("C19-F5"))
            elif o == "parse" and r.get("read_status") == "torn":
                res.report("load-succeeds/no-torn-file-served", cid,
                           f"proc {i}: {r['result'][1:4]} reading a torn {vname}", fid=_fid("C19-F2"))
            elif o in ("urlerror", "notcached") and listing and vname not in listing:
                res.report("load-succeeds/partial-cache", cid,
                           f"proc {i}: {r['result'][1:4]}; cache listing {listing} lacks {vname}", fid=_fid("C19-F3"))
            elif o == "valueerror" and (r.get("enters") or [[0, "", False]])[-1][1:] == ["ValueError", True]:
                res.report("load-succeeds/torn-stamp", cid,
                           f"proc {i}: {r['result'][1:4]}: CacheLock.__enter__ read an empty last_update.txt", fid=_fid("C19-F4"))
            else:
                res.report("load-succeeds", cid, f"proc {i}: outcome {o} {r['result']} listing={listing} "
                                                 f"read={r.get('read_status')}")
        if spec["kind"] in ("hold", "populate", "nested", "refresh", "load"):
            # clause: a holder that cannot get the lock gives up with the documented cache error (nothing else)
            for ent in r.get("enters") or []:
                if ent[1] not in ("ok", "CacheException"):
                    res.report("lock-timeout-cache-error", cid, f"contender {i}: CacheLock.__enter__ raised {ent[1]}")
        if spec["kind"] == "nested" and "inner" in r and r["inner"] != -1:
            res.report("lock-exclusive", cid, f"contender {i} holds the lock and a second CacheLock of the SAME thread "
                                              f"on that directory did not give up with the cache error: {r.get('inner')}")
        if spec["kind"] == "refresh":
            # clause: a refresh attempted within the refresh interval is skipped
            st = init.get("stamp", "N")
            if isinstance(st, list) and spec.get("expect_skip"):
                if o != "skipped" or r.get("netcalls"):
                    res.report("refresh-within-interval-skipped", cid,
                               f"proc {i}: stamp age {VT0 - st[1]} < threshold but outcome {o}, "
                               f"{r.get('netcalls')} network requests")
    # clause: a refresh attempted within the refresh interval is skipped -- judged for EVERY refresh call of every
    # process against the controller's own reading of the shared last_update.txt when the call entered CacheLock
    th = case.get("th", 1800)
    for att in out.get("refresh_attempts", []):
        r = out["results"][att["mp"]]
        if att["age"] is None or not r or "result" not in r:
            continue
        # (a recorded time up to one interval AHEAD of the caller's clock -- clock stepped back, skewed hosts --
        #  is inside the interval just as well: now - last < threshold)
        if -th < att["age"] < th and (canon_result(r) != "skipped" or r.get("netcalls")):
            res.report("refresh-within-interval-skipped", cid,
                       f"call {att['mp']} entered cache_xml_versions {att['age']:.0f} s after the time recorded in "
                       f"last_update.txt (interval {th} s) but was not skipped: result {r['result']}, "
                       f"{r.get('netcalls')} network requests")
    # clause: a finished population leaves byte-identical copies
    final = out.get("final", {})
    populated = [i for i, r in enumerate(out["results"]) if r and r.get("populated")]
    for idx, (cls, cells) in final.get("files", {}).items():
        if cls == "identical":
            continue
        pre = init.get("files", {}).get(idx, init.get("files", {}).get(str(idx)))
        if pre is not None and list(pre) == cells:
            continue        # was put there torn by the test itself (reported through the load that reads it)
        culprit = [k for k, at in killed_at.items() if at and at[0] in ("Write", "DWrite", "Open") and at[1] == idx]
        if case["procs"][0]["kind"] == "move":
            res.report("safe-move-atomic", cid, f"destination file {idx} left {cls} {cells}")
        elif culprit and cls == "torn":
            res.report("no-torn-file-kept", cid, f"file {idx} left torn {cells} by killed proc {culprit}", fid=_fid("C19-F2"))
        else:
            res.report("finished-population-identical", cid, f"file {idx} is {cls} {cells}, no killed copier explains it")
    if populated and not out["killed"]:
        missing = [i for i in range(nfiles) if i not in final.get("files", {})]
        if missing:
            res.report("finished-population-identical", cid, f"population finished but files {missing} are missing")
    if case["procs"][0]["kind"] == "move" and not out["killed"]:
        idx = case["procs"][0]["findex"]
        if final.get("files", {}).get(idx, ("missing",))[0] != "identical":
            res.report("safe-move-atomic", cid, "finished move did not leave the complete file")
    # clause: two holders never overlap / a contender gives up with the cache error
    # (mutual exclusion is checked on the real processes after EVERY event of EVERY schedule: each process
    #  reports whether it is between a successful CacheLock.__enter__ and the end of __exit__)
    ov = out.get("overlap")
    if ov:
        msg = (f"after event #{ov['step']} {ov['event']} processes {ov['inside']} (blocked at {ov['at']}) are inside "
               f"'with CacheLock' for one directory together; lock file locked by someone: {ov['os_locked']}")
        if not ov["os_locked"]:
            res.report("lock-exclusive", cid, msg, fid=_fid("C19-F1"))
        else:
            res.report("lock-exclusive", cid, msg)
    if case.get("external_lock"):
        r = out["results"][0]
        ent = (r or {}).get("enters") or []
        if ent and ent[0][1] == "ok":
            res.report("lock-timeout-cache-error", cid, "CacheLock entered while another process holds the lock file "
                                                        "(lock object never acquired)", fid=_fid("C19-F1"))
        elif not ent or ent[0][1] != "CacheException":
            res.report("lock-timeout-cache-error", cid, f"contender saw {ent} instead of CacheException")


def compare(case, out, m, res, nfiles):
    """correspondence: trace, outcomes, final state"""
    cid = {"id": case["id"], "init": case.get("init", {}), "procs": case["procs"], "schedule": case["schedule"],
           "finish": case.get("finish", True), "what": case.get("what", "")}
    if m[0] != "ok":
        return [f"model driver: {m}"]
    diffs = []
    mg = [pc_gate(pc, nfiles) for pc in m[1]]
    if mg != out["gates"]:
        k = next((i for i, (a, b) in enumerate(zip(mg, out["gates"])) if a != b), min(len(mg), len(out["gates"])))
        diffs.append(f"trace differs at step {k}: impl {out['gates'][k:k + 3]} model {mg[k:k + 3]}")
    mo = [model_outcome(p) for p in m[7]]
    io = [canon_result(r) for r in out["results"]]
    if mo != io:
        diffs.append(f"outcomes impl={io} model={mo}")
    mf = {int(f[1]): list(f[2]) for f in m[2] if f[0] == "V"}
    imf = {int(k): v[1] for k, v in out["final"]["files"].items()}
    if mf != imf:
        diffs.append(f"files impl={imf} model={mf}")
    ms = m[3] if isinstance(m[3], str) else ["A", int(m[3][1])]
    if ms != out["final"]["stamp"]:
        diffs.append(f"stamp impl={out['final']['stamp']} model={ms}")
    mnet = int(m[6])
    inet = sum(1 for r in out["results"] if r and r.get("netcalls")) + \
        sum(1 for k, at in out["killed"] if at and at[0] in ("StampOpen", "StampWrite", "XExit"))
    if mnet != inet:
        diffs.append(f"refreshes that reached the network impl={inet} model={mnet}")
    if len(m) > 8:
        mins = [[int(x) for x in l] for l in m[8]]
        if mins != out["inside"]:
            k = next((i for i, (a, b) in enumerate(zip(mins, out["inside"])) if a != b), -1)
            diffs.append(f"who is inside 'with CacheLock' differs after event {k}: impl {out['inside'][k:k + 1]} "
                         f"model {mins[k:k + 1]}")
    mpop = [int(p[2]) for p in m[7]]
    ipop = [1 if (r and r.get("populated")) else 0 for r in out["results"]]
    for i, (a, b) in enumerate(zip(mpop, ipop)):
        if a != b and out["results"][i] and "result" in out["results"][i]:
            diffs.append(f"populated flag proc {i} impl={b} model={a}")
    return diffs


# ------------------------------------------------------------------------------------------------
# cases
# ------------------------------------------------------------------------------------------------

def vfile(version):
    """file name of a bundled version given by number: '8.3.0' / 'score_2.0.0' (library_version)"""
    return "HED" + ("_" if "_" in version else "") + version + ".xml"


def load_spec0(version, files, via="default"):
    """via: 'default' = through the default cache directory, 'xml_folder' = load_schema_version(v, xml_folder=dir)"""
    return {"kind": "load", "version": version, "vindex": files.index(vfile(version)), "via": via}


def build_cases(rng, tier, files, th, wide, inst_dir=None):
    nf = len(files)
    full = 4 * nf + 6           # gates of a complete first load: list enter (exists open w w)* end exit list read
    cases = []
    V = "8.3.0"
    vi = files.index("HED8.3.0.xml")
    # EVERY bundled version, standard and library (score_x, testlib_x), as it is given by number
    versions = sorted(n[3:-4].lstrip("_") for n in files)
    _ls = load_spec0

    def load_spec(v, fs, via=None):          # the way in is an input dimension too
        return _ls(v, fs, via or rng.choice(["default", "default", "xml_folder"]))

    def add(what, procs, schedule, init=None, **kw):
        cases.append(dict(id=len(cases), what=what, procs=procs, schedule=schedule, init=init or {}, **kw))

    # -- corpus: the refuted witnesses, on the real bundled folder
    g_mid = 2 + 4 * vi + 3       # P0 is between the two chunks of the copy of V
    g_between = 2 + 4 * vi       # P0 is about to test exists(V): everything before is copied
    if vi == 0:
        g_between = 2 + 4        # make sure something is in the directory
    L = load_spec(V, files)
    v2 = next(v for v in versions if files.index(vfile(v)) > 0)
    add("F2 torn: kill inside the in-place copy, then load", [L, L], [["R", 0]] * g_mid + [["C", 0]])
    add("F2 torn-live: concurrent load reads the half-copied file", [L, L], [["R", 0]] * g_mid + [["R", 1]] * 3)
    Lb = load_spec(V if vi > 0 else v2, files)
    gb = 2 + 4 * files.index("HED" + Lb["version"] + ".xml")
    add("F3 partial: kill between copies, then two loads", [Lb, Lb, Lb],
        [["R", 0]] * gb + [["C", 0]] + [["R", 1]] * 60 + [["T", 10]] + [["R", 2]] * 60)
    add("F3 partial-live: load lists the directory during population", [Lb, Lb], [["R", 0]] * gb + [["R", 1]] * 60)
    add("F4 torn stamp: CacheLock.__enter__ reads the half-written last_update.txt", [L, L, Lb],
        [["R", 1]] + [["R", 0]] * 4 + [["R", 2]] * 4 + [["R", 1]])
    add("F1 lock overlap: both inside with CacheLock", [L, L], [["R", 0], ["R", 1]] * 3,
        probe_lock_after=5 if FIXED else 3)
    add("F1 lock timeout: contender while lock file is held", [{"kind": "hold"}], [], external_lock=True)
    # -- EVERY bundled version after a population interrupted before its own file was renamed (also before the
    #    first rename), loaded through the default cache directory and through xml_folder
    per = 5 if FIXED else 4
    for v in versions:
        idx = files.index(vfile(v))
        hi = 2 + (1 if FIXED else 0) + per * idx + (per - 1)        # the gate of v's own rename / last write
        g = rng.randint(1, max(1, hi))
        add(f"population killed at gate {g} before {v} is in the cache, then loads of {v}",
            [_ls(rng.choice(versions), files, "default"), _ls(v, files, "default"), _ls(v, files, "xml_folder")],
            [["R", 0]] * g + [["C", 0]] + [["R", 1]] * 70 + [["T", rng.choice([10, th + 10])]] + [["R", 2]] * 70)
    # -- recorded time before / equal / AFTER 'now' and around the threshold (clock stepped back, skewed hosts)
    for age in [-1, -5, -(th - 1), -th, -(th + 50), -3 * th]:
        add(f"refresh at stamp age {age}", [{"kind": "refresh"}], [], init={"stamp": ["A", VT0 - age]})
    add("refresh, clock stepped back, refresh again", [{"kind": "seq", "calls": [{"kind": "refresh"}] * 2},
                                                        {"kind": "refresh"}],
        [["U", 0], ["T", -5], ["U", 1], ["T", -(th // 2)], ["U", 0]])
    # -- MERGED requests (several bundled library versions into one schema, both orders) on directories in which
    #    each requested file is complete / missing / torn; also after an interrupted population.  The loaded schema
    #    is compared with the bundled merge (libraries, versions, tag count and names), not only 'it loaded'.
    withstd = {}
    for n in files:
        m_ = __import__("re").search(r'withStandard="([^"]+)"', open(os.path.join(inst_dir, n), errors="ignore").read(600))
        if m_ and "_" in n[3:]:
            withstd.setdefault(m_.group(1), []).append(n[4:-4])
    pairs = []
    for std, libs in sorted(withstd.items()):
        byname = {}
        for l_ in libs:
            byname.setdefault(l_.rsplit("_", 1)[0], []).append(l_)
        names = sorted(byname)
        for i_ in range(len(names)):
            for j_ in range(i_ + 1, len(names)):
                for a_ in byname[names[i_]]:
                    for b_ in byname[names[j_]]:
                        pairs += [(a_, b_), (b_, a_)]
    states = [["G", "G"], None, [], ["G"], ["H", "G"]]          # complete, missing, torn (empty / half / hole)
    n_m = 14 if tier == "quick" else 80
    for k in range(n_m if pairs else 0):
        a_, b_ = pairs[k % len(pairs)] if k < 2 * len(pairs) else rng.choice(pairs)
        ia, ib = files.index(vfile(a_)), files.index(vfile(b_))
        init = {"files": {i: ["G", "G"] for i in range(nf) if rng.random() < rng.choice([0.0, 0.5, 1.0])}}
        sa, sb = (states[0], rng.choice(states[2:])) if k < 2 * len(pairs) else (rng.choice(states), rng.choice(states))
        if k % 4 == 1:
            sa, sb = sb, sa
        for i_, st_ in ((ia, sa), (ib, sb)):
            if st_ is None:
                init["files"].pop(i_, None)
            else:
                init["files"][i_] = st_
        if rng.random() < 0.3:
            init["stamp"] = ["A", VT0 - rng.choice([5, th + 7])]
        spec_ = {"kind": "load", "version": a_ + "," + b_, "vindex": ia,
                 "via": rng.choice(["default", "xml_folder"])}
        if k % 5 == 4:        # ... and after a population that was interrupted
            add("merged request after an interrupted population", [_ls(rng.choice(versions), files, "default"), spec_],
                [["R", 0]] * rng.randint(1, 5 * nf + 2) + [["C", 0]])
        else:
            add("merged request on a directory with complete / missing / torn files", [spec_], [], init=init)
    # -- lock queues: >= 3 contenders that all found the folder empty; a waiter is already blocked inside acquire
    #    (lock file open, an attempt failed) when the holder leaves / is killed; later arrivals try afterwards
    pop = 5 * nf + 2 if FIXED else 4 * nf + 2
    add("lock queue: A holds, B waits inside acquire, A leaves, B enters and stays, C tries", [L, L, L],
        [["R", 0], ["R", 1], ["R", 2]] + [["R", 0]] * 2 + [["R", 1]] * 2 + [["R", 0]] * (pop + 6) + [["R", 1]] * 3 +
        [["R", 2]] * 5)
    add("lock queue: holder killed while B waits, C arrives later", [L, L, L],
        [["R", 0], ["R", 1], ["R", 2]] + [["R", 0]] * 6 + [["R", 1]] * 2 + [["C", 0]] + [["R", 1]] * 4 + [["R", 2]] * 5)
    # -- where the contenders live: other OS processes, other THREADS of one process, a second CacheLock object of the
    #    same thread (nested); mixed three-party orders.  (contender index = position in the flattened list)
    H, P_, N1, N2 = {"kind": "hold"}, {"kind": "populate"}, {"kind": "nested", "inner": "populate"}, \
        {"kind": "nested", "inner": "lock"}
    T = lambda *ags: {"kind": "threads", "agents": list(ags)}          # noqa: E731
    add("same process, two threads: A holds, B tries", [T(H, H)], [["R", 0]] * 2 + [["R", 1]] * 5)
    add("same thread, second CacheLock while the first is held", [T(N1)], [["R", 0]] * 8)
    add("same thread, nested with CacheLock", [T(N2)], [["R", 0]] * 8)
    add("A holds; B in A's process enters and leaves; Q in another process must time out",
        [T(H, P_), H], [["R", 0]] * 2 + [["R", 1]] * (pop + 4) + [["R", 2]] * 5)
    for k in range(10 if tier == "quick" else 80):
        groups = rng.choice([[2], [2, 1], [1, 2], [3], [2, 2], [1, 1, 2], [2, 1, 1]])
        ps, flat = [], []
        for g in groups:
            ags = [dict(rng.choice([H, H, P_, {"kind": "refresh"}])) for _ in range(g)]
            if rng.random() < 0.25:
                ags[0] = dict(rng.choice([N1, N2]))
            ps.append(T(*ags) if g > 1 or rng.random() < 0.3 else ags[0])
            flat += ags
        n = len(flat)
        order = list(range(n))
        rng.shuffle(order)
        a = order[0]
        sch = [["R", a]] * 2                                  # a is inside (hold / nested stay, populate goes on)
        for o in order[1:]:
            sch += [["R", o]] * rng.choice([1, 2, 4, 5, pop + 4])
        if rng.random() < 0.2:
            sch.append(["C", rng.randrange(n)])
        for _ in range(rng.randint(0, 20)):
            sch.append(["R", rng.randrange(n)])
        add("contenders in threads / nested / other processes, random arrivals", ps, sch)
    # -- a holder stopped INSIDE its population (also between a temporary copy and its rename) while every other
    #    contender, which has listed the folder before, performs its next operations; then the holder goes on
    g_tmp = 7 if FIXED else 5         # list enter [acquire] exists open write write -> next: rename / exists
    add("holder between temporary copy and rename, the others do their next 3 operations", [L, L, L],
        [["R", 0], ["R", 1], ["R", 2]] + [["R", 0]] * (g_tmp - 1) + [["R", 1]] * 3 + [["R", 2]] * 3 +
        [["R", 0]] * (pop + 8))
    for k in range(6 if tier == "quick" else 50):
        n = rng.choice([2, 3])
        ps = [load_spec(rng.choice(versions), files) for _ in range(n)]
        order = list(range(n))
        rng.shuffle(order)
        sch = [["R", i] for i in order]
        a = order[0]
        sch += [["R", a]] * (2 + rng.randint(1, pop - 2))
        for o in order[1:]:
            sch += [["R", o]] * rng.choice([1, 2, 3, 4])
        sch += [["R", a]] * rng.choice([1, 3, pop + 8])
        for _ in range(rng.randint(0, 12)):
            sch.append(["R", rng.randrange(n)])
        add("holder stopped inside its population, others proceed", ps, sch)
    # -- several calls made by ONE OS process, interleaved with other processes and clock ticks: what a process did
    #    or read earlier must not influence a later decision (refresh interval against the SHARED stamp)
    RR = {"kind": "refresh"}
    add("two OS processes, two refresh calls each: read, other refreshes, try again",
        [{"kind": "seq", "calls": [RR, RR]}, {"kind": "seq", "calls": [RR, RR]}],
        [["U", 0], ["T", th + 10], ["U", 1], ["T", 5], ["U", 0], ["T", 5], ["U", 1]])
    add("skipped first call, other process refreshes later, try again",
        [{"kind": "seq", "calls": [RR, RR]}, {"kind": "seq", "calls": [RR]}],
        [["U", 0], ["T", th], ["U", 1], ["T", 7], ["U", 0]], init={"stamp": ["A", VT0 - 100]})
    for k in range(8 if tier == "quick" else 60):
        n = rng.choice([2, 2, 3])
        ps = []
        for i in range(n):
            calls = [dict(RR) for _ in range(rng.choice([2, 2, 3]))]
            if rng.random() < 0.3:
                calls[0] = load_spec(rng.choice(versions), files)
            ps.append({"kind": "seq", "calls": calls})
        sch = []
        for _ in range(rng.randint(4, 9)):
            x = rng.randrange(n)
            sch.append(["U", x] if rng.random() < 0.75 else ["R", x])
            if rng.random() < 0.7:
                sch.append(["T", rng.choice([1, 5, 60, th // 2, th - 1, th, th + 10, 2 * th, -3, -60, -(th // 2), -th])])
        init = {}
        if rng.random() < 0.5:
            init["stamp"] = ["A", VT0 - rng.choice([0, 100, th - 1, th, th + 50, 4 * th, -4, -100, -(th - 1), -2 * th])]
        add("several calls per OS process interleaved with ticks", ps, sch, init=init)
    for k in range(8 if tier == "quick" else 60):
        n = rng.choice([3, 3, 4])
        ps = [load_spec(rng.choice(versions), files) for _ in range(n)]
        order = list(range(n))
        rng.shuffle(order)
        sch = [["R", i] for i in order]                     # everybody lists the empty folder
        a, b, rest = order[0], order[1], order[2:]
        sch += [["R", a]] * 2 + [["R", b]] * 2              # a holds; b: threshold test, first attempt fails
        for c_ in rest:
            sch += [["R", c_]] * rng.choice([0, 1, 2])      # others may start waiting too
        if rng.random() < 0.25:
            sch += [["R", a]] * rng.randint(1, pop) + [["C", a]]
        else:
            sch += [["R", a]] * (pop + rng.choice([0, 1, 6]))   # a leaves (and maybe finishes its load)
        sch += [["R", b]] * rng.choice([1, 2, 4])           # b's next attempt: it enters and stays inside
        for c_ in rest:
            sch += [["R", c_]] * rng.choice([2, 3, 5])      # later arrivals must not get in while b is inside
        for _ in range(rng.randint(0, 30)):
            sch.append(["R", rng.randrange(n)])
        add("lock queue: random arrivals of %d contenders" % n, ps, sch)
    add("single load of an empty cache", [L], [])
    add("two loads one after the other", [L, L], [["R", 0]] * (full + 2))
    # -- refresh interval
    for age in [0, 1, th // 2, th - 1, th, th + 1, 2 * th] + [rng.randint(0, 2 * th) for _ in range(4)]:
        add(f"refresh at stamp age {age}", [{"kind": "refresh", "expect_skip": age < th}], [],
            init={"stamp": ["A", VT0 - age]})
    add("refresh without stamp, then again at once", [{"kind": "refresh"}, {"kind": "refresh", "expect_skip": True}],
        [["R", 0]] * 10 + [["T", 5]])
    cases[-1]["second_skip"] = True
    add("refresh with torn stamp", [{"kind": "refresh"}], [], init={"stamp": "T"})
    # -- prepared directories, single load (structured: mostly sane states; malformed stream: torn/holed files)
    n_prep = (30 if tier == "quick" else 400) * (3 if wide else 1)
    for k in range(n_prep):
        v = rng.choice(versions)
        idx = files.index(vfile(v))
        init = {"files": {}}
        mode = rng.random()
        present = [i for i in range(nf) if rng.random() < rng.choice([0.0, 0.3, 0.9, 1.0])]
        for i in present:
            init["files"][i] = ["G", "G"]
        if mode < 0.35:      # malformed: some final-name file torn (left by a version before 19ec63c, or by hand)
            j = rng.choice(present + [idx])
            init["files"][j] = rng.choice([[], ["G"], ["H", "G"], ["G", "H"], ["H"]])
        st = rng.random()
        if st < 0.3:
            init["stamp"] = ["A", VT0 - rng.choice([0, 5, th - 1, th, th + 7, 3 * th])]
        elif st < 0.38:
            init["stamp"] = "T"
        if rng.random() < 0.15:
            init["lockfile"] = 1
        add("prepared directory", [load_spec(v, files)], [], init=init)
    # -- kill sweep: every operation of the population (incl. inside copies), then a load, later another load
    pts = list(range(1, full)) if tier == "thorough" or wide else \
        sorted(set(list(range(1, 12)) + list(range(4 * vi - 2, 4 * vi + 10)) + list(range(full - 8, full)) +
                   rng.sample(range(1, full), 8)))
    for g in pts:
        if 0 < g < full:
            v = V if tier == "quick" else rng.choice(versions)
            Lv = load_spec(v, files)
            add(f"kill at gate {g}", [L if tier == "quick" else Lv] + [Lv, Lv],
                [["R", 0]] * g + [["C", 0]] + [["R", 1]] * 70 + [["T", rng.choice([10, th + 10])]] + [["R", 2]] * 70)
    # -- live sweep: a second process runs to completion while the first is stopped at gate g
    for g in (rng.sample(range(1, full), 10 if tier == "quick" else 40)):
        add(f"stop at gate {g}, other runs", [L, L], [["R", 0]] * g + [["R", 1]] * 80)
    # -- kills in the fallback / stamp path
    for g in range(1, 7):
        add(f"kill in fallback at gate {g}", [Lb, Lb], [["R", 0]] * g + [["C", 0]] + [["T", 3]],
            init={"files": {0 if Lb["vindex"] != 0 else 1: ["G", "G"]}})
    # -- all-interleavings sample: two populators and one loader (+ optional kill)
    n_rand = (24 if tier == "quick" else 500) * (3 if wide else 1)
    for k in range(n_rand):
        ps = [load_spec(rng.choice(versions), files) for _ in range(3)]
        sched = []
        burst = rng.choice([1, 1, 2, 5, 9])
        for _ in range(rng.randint(5, 3 * full // burst)):
            sched += [["R", rng.randrange(3)]] * rng.randint(1, burst)
        if rng.random() < 0.4:
            sched.insert(rng.randrange(len(sched)), ["C", rng.randrange(3)])
        if rng.random() < 0.3:
            sched.insert(rng.randrange(len(sched)), ["T", rng.choice([1, th])])
        add("random interleaving 2 populators + loader", ps, sched)
    # -- download path: _safe_move_tmp_to_folder with kills at every operation
    for dest_present in (False, True):
        for g in range(0, 2 * NCH + 6):
            sch = [["R", 0]] * g + [["C", 0]]      # (killing a finished process is a no-op)
            add(f"safe move, kill at gate {g}", [{"kind": "move", "findex": vi}], sch, finish=True,
                init={"files": {vi: ["G", "G"]}} if dest_present else {})
    add("two concurrent safe moves", [{"kind": "move", "findex": vi}, {"kind": "move", "findex": vi}],
        [["R", 0], ["R", 1], ["R", 1], ["R", 0], ["R", 0], ["C", 1]])
    return cases


def _pool_init():
    signal.signal(signal.SIGINT, signal.SIG_IGN)


def run_case_safe(case):
    try:
        if case.get("external_lock"):
            return run_external_lock(case)
        return run_case(case)
    except BaseException:  # noqa
        return {"id": case["id"], "error": traceback.format_exc()[-2000:]}


def run_external_lock(case):
    """a well-behaved holder (the controller, via portalocker) holds cache_lock.lock; a real process then tries
    'with CacheLock(dir, write_time=False)'"""
    import portalocker
    d = os.path.join(case["scratch"], "case-%s" % case["id"])
    os.makedirs(d, exist_ok=True)
    lk = portalocker.Lock(os.path.join(d, "cache_lock.lock"), timeout=1)
    lk.acquire()
    try:
        c2 = dict(case)
        c2.pop("external_lock")
        c2["init"] = {}
        # keep the directory (and our lock) in place: run_case would remove it, so inline a tiny version
        a, b = Pipe()
        pid = os.fork()
        if pid == 0:
            a.close()
            child_main(b, {"kind": "hold", "dir": d, "vtime": VT0, "inst": case["inst"]})
            os._exit(0)
        b.close()
        p = _P()
        p.pid, p.conn, p.state, p.at, p.result, p.inside = pid, a, "live", None, None, False
        p.calls, p.base, p.call, p.results = [{"kind": "hold"}], 0, 0, []
        _wait(p)
        n = 0
        while p.state == "live" and n < 20:
            p.conn.send(("go", VT0))
            _wait(p)
            n += 1
        if p.state == "live":
            os.kill(p.pid, signal.SIGKILL)
        os.waitpid(p.pid, 0)
        return {"id": case["id"], "events": [], "gates": [], "results": [p.result], "killed": [],
                "final": {"files": {}, "stamp": "N", "lockfile": 1}, "lock_probe": None, "external": True}
    finally:
        lk.release()
        shutil.rmtree(d, ignore_errors=True)


def execute(cases, scratch):
    import hed.schema  # noqa: imported before forking, never used to load a schema in this process
    import hed.schema.hed_cache  # noqa
    import portalocker  # noqa
    import hed.schema.hed_cache_lock as hl0
    for c in cases:
        c["scratch"] = scratch
        c["inst"] = os.path.join(scratch, "installed")
        c["th"] = int(hl0.CACHE_TIME_THRESHOLD)
    ctx = get_context("fork")
    with ctx.Pool(min(14, int(C.JOBS)), initializer=_pool_init) as pool:
        outs = pool.map(run_case_safe, cases, chunksize=1)
    return outs


def judge(cases, outs, res, model_ok, nfiles, th):
    """oracle on every case, then correspondence with the model"""
    checked = 0
    disagreements = 0
    usable = []
    for case, out in zip(cases, outs):
        if "error" in out:
            res.violation("harness-error", {"id": case["id"], "what": case.get("what")}, out["error"], no_input=True)
            continue
        oracle(case, out, res, nfiles)
        if case.get("second_skip"):
            r = out["results"][1]
            if canon_result(r) != "skipped" or r.get("netcalls"):
                res.report("refresh-within-interval-skipped", {"id": case["id"], "what": case["what"], "second_skip": True,
                                                               "procs": case["procs"], "schedule": case["schedule"]},
                           f"second refresh 5 s after the first: {r.get('result')} netcalls={r.get('netcalls')}")
        if not out.get("external") and all(s["kind"] not in ("hold", "threads", "populate", "nested")
                                           and "," not in str(s.get("version", ""))
                                           and all("," not in str(c_.get("version", "")) for c_ in s.get("calls", []))
                                           for s in case["procs"]):
            usable.append((case, out))
    if model_ok:
        exe = C.build_driver("c19")
        lines = []
        for case, out in usable:
            case["events_executed"] = out["events"]
            lines.append(model_line(case, nfiles, th))
        ms = C.run_driver(exe, lines, shards=min(8, max(1, len(lines) // 20)))
        for (case, out), m in zip(usable, ms):
            checked += 1
            diffs = compare(case, out, m, res, nfiles)
            if diffs:
                disagreements += 1
                cid = {"id": case["id"], "init": case.get("init", {}), "procs": case["procs"],
                       "schedule": case["schedule"], "finish": case.get("finish", True), "what": case.get("what", "")}
                res.violation("correspondence", cid, "; ".join(diffs)[:1500], no_input=True)
    return checked, disagreements


def run(tier, seed, res, model_ok=True, proof_ok=True):
    rng = random.Random(seed)
    import hed.schema.hed_cache_lock as hl
    th = int(hl.CACHE_TIME_THRESHOLD)
    scratch = C.scratch_dir("hedverif-c19-")
    try:
        files = inst_files(snapshot_installed(scratch))
        nfiles = len(files)
        cases = build_cases(rng, tier, files, th, wide=not proof_ok, inst_dir=os.path.join(scratch, "installed"))
        outs = execute(cases, scratch)
        checked, disagreements = judge(cases, outs, res, model_ok, nfiles, th)
    finally:
        shutil.rmtree(scratch, ignore_errors=True)
    hist = {}
    nontrivial = set()
    for case, out in zip(cases, outs):
        key = case["what"].split(" at ")[0].split(" age ")[0]
        hist[key] = hist.get(key, 0) + 1
        if len(out.get("events", [])) >= 3 or case.get("init"):
            nontrivial.add(repr((case.get("init"), [(p["kind"], p.get("version")) for p in case["procs"]],
                                 out.get("events"))))
    return {
        "evaluations": len(cases),
        "distinct_nontrivial": len(nontrivial),
        "rule": "one evaluation = one schedule executed on real forked hed processes (2-3 per schedule) and on the "
                "model; non-trivial = distinct (initial directory, processes, executed event list) with at least 3 "
                "events or a prepared directory",
        "samples": [{"what": c["what"], "schedule_len": len(c["schedule"]), "init": c.get("init")}
                    for c in (cases[0], cases[2], cases[len(cases) // 2], cases[-1])],
        "histogram": hist,
        "file_operations_executed": sum(len(o.get("events", [])) for o in outs),
        "disagreements_checked": disagreements,
        "correspondence_cases": checked,
        "exhaustive": False,
        "bundled_files": nfiles, "threshold_s": th,
    }


def replay(payload):
    case = payload.get("case")
    if not case or "procs" not in case:
        print("no concrete schedule in replay:", str(payload.get("detail", ""))[:800])
        return 1
    scratch = C.scratch_dir("hedverif-c19-")
    try:
        files = inst_files(snapshot_installed(scratch))
        case = dict(case)
        case["inst"] = os.path.join(scratch, "installed")
        case["init"] = {k: ({int(a): b for a, b in v.items()} if k == "files" else v)
                        for k, v in case.get("init", {}).items()}
        case["scratch"] = scratch
        import hed.schema.hed_cache_lock as hl0
        case["th"] = int(hl0.CACHE_TIME_THRESHOLD)
        out = run_case_safe(case)
    finally:
        shutil.rmtree(scratch, ignore_errors=True)
    print("what:", case.get("what"))
    print("executed:", list(zip(out.get("events", []), out.get("gates", [])))[:400])
    for i, r in enumerate(out.get("results", [])):
        print("proc", i, r)
    print("final:", out.get("final"), "lock_probe:", out.get("lock_probe"))
    res = C.Result(PROP)
    res.known_ids = {}
    if "error" in out:
        print(out["error"])
        return 1
    oracle(case, out, res, len(files))
    if case.get("second_skip"):
        r = out["results"][1]
        if canon_result(r) != "skipped" or r.get("netcalls"):
            res.violation("refresh-within-interval-skipped", case, f"second refresh: {r.get('result')}")
    for v in res.violations:
        print("FAILS:", v["clause"], v["detail"])
    return 1 if res.violations else 0
