"""C08 -- Sidecar validation is total and flags each structural fault."""
import copy
import io
import itertools
import json
import os
import random
import re
import warnings
from multiprocessing import Pool

from harness import common as C
from harness import c08_translate

PROP = "C08"
COQ_TARGETS = ["Props/C08.vo", "Extract/ExtractC08.vo"]
DRIVERS = ["c08"]
TRUSTED = [
    "Model/Sidecar.v is a hand transcription of Sidecar.load_sidecar_files/all_hed_columns/get_column_refs, "
    "ColumnMetadata._detect_column_type/hed_dict/get_hed_strings/expected_pound_sign_count and "
    "SidecarValidator.validate/validate_structure/_validate_column_structure/_validate_categorical_column/"
    "_validate_refs/_find_non_matching_braces/_check_for_key/_check_definitions_bad_spot over a JSON datatype; "
    "tied by the correspondence run (Ok sorted (code, is-error) multiset / exception class)",
    "string-level HED validation (HedString construction, run_basic_checks, run_full_string_checks, definition "
    "extraction, '#' counting after remove_refs/remove_definitions/shrink_defs, df_util.replace_ref substitution) is "
    "abstract in Coq (section variables V_*); in the correspondence run the harness answers the model's queries "
    "with the real hed-python functions (answer_queries replicates ~20 lines of SidecarValidator.validate)",
    "Gen/SidecarCodes.v (kind -> published code, severity, reserved names) is regenerated from error_types.py / "
    "error_messages.py / sidecar_validator.py by harness/c08_translate.py (Python ast, fail closed); the reference "
    "regex literal is compared textually and find_refs/is_ref_char are compared with CPython re on every run",
    "pandas: pd.Series(str|dict of str, dtype=str).items() yields the entries in order (only reached with string "
    "values; shown in Coq); dict.update on 2-sequences at top level is not modelled (Unmodelled, oracle only)",
    "JSON object keys are unique (json.load); numbers matter only through truthiness",
]
ASSUMPTIONS = [
    "theorems quantify over ALL json values and ALL string-level validators V_* (section variables); 'strings "
    "individually valid' in C08_wellformed_clean = the V_* answers carry no error-severity issue on the strings of the "
    "document and their reference substitutions, placeholders are counted exactly on definition-free strings, and no "
    "column mixes definition and non-definition strings",
    "struct_ok (Model/Sidecar.v) formalises the structural rules of the statement; it additionally requires category "
    "maps and their strings to be non-empty and the key HED not to occur inside plain metadata (both are reported by "
    "the code); it is compared on every run with the harness's statement-level python predicate",
    "the '#'-count fault theorems conclude 'PLACEHOLDER_INVALID reported, or the structure/reference screening "
    "already reported an error (early exit)': the placeholder check runs after the only allowed early exit",
    "part II of Props/C08.v (fixed=false) is the record of the behaviour BEFORE the fix commits ae9929b, 8a59f35, "
    "f477d0a; /repo contains all three and the model is run in the matching mode (FIXED=1)",
    "DECLARED DEVIATION: 'never raises' is proved for every document whose root is a JSON object; for other JSON "
    "documents the literal clause is false of the current code, which refuses them with HedFileError since 8a59f35 "
    "(C08_nonobject_refused states exactly that; the oracle accepts HedFileError for non-object roots only)",
    "'never raises' covers the structure/reference plumbing only: the string-level validators are total Coq "
    "functions (section variables), so an exception raised inside HedString/HedValidator is excluded by construction "
    "in Coq and is caught only by the implementation-side oracle (testing)",
    "struct_ok does not use the validator's column type detection (spec_bearing); references are find_refs, "
    "characterised declaratively by C08_find_refs_spec; check_for_key (key HED at any depth) is its own definition; "
    "hed_bearing / all_hed_columns in fault-theorem hypotheses are characterised by C08_hed_bearing_spec / "
    "C08_is_hed_column_spec",
    "the '#'-count fault theorems: for EVERY sidecar the conclusion is 'PLACEHOLDER_INVALID or early exit'; for a "
    "sidecar obeying all other rules (struct_ok_but_hash) or whose screening is clean the early exit is proved "
    "impossible and PLACEHOLDER_INVALID is reported (C08_fault_*_hash_wellformed / _screened)",
    "correspondence is exhaustive only over the stated small alphabets (bounded); the fault-injection stream is random",
    "V_hashes is answered with the number of '#' CHARACTERS of the rendered string (the rule of the statement), not "
    "with the implementation's helper; the position-independence of the rule is C08_fault_*_hash_anywhere",
    "letter-case insensitivity of tag names (Definition/Def/Def-expand and ordinary tags) lives inside the abstract "
    "string-level validators: proved is only that every string of every HED-bearing entry reaches them "
    "(C08_definitions_from_every_string); that 'definition/X' declares and 'DEF/x' uses a definition is TESTED (letter "
    "case is a dimension of the rule-abiding and definition streams); rule-abiding sidecars whose definition strings "
    "hold '#' are outside struct_ok (Coq) and are checked for cleanliness on the implementation only",
    "rarely used parameters (name, extra_def_dicts empty in several forms, error_handler without warnings), column "
    "order incl. the position of the definition column, many-column documents and numeric edge values (-0.0, NaN, "
    "1e308, big ints) are generator dimensions (tested)",
    "the clean clause is also checked with a precondition established independently of the sidecar validator "
    "(assembled_valid: every template with each {column} replaced by each of that column's own annotations validates on "
    "its own with HedValidator) on every rule-abiding document of every stream, incl. a stream of strings naming 2-3 "
    "different columns in either order relative to the alphabetical order of their names (tested; in Coq the "
    "pairing of references and combinations is abstract in V_full)",
    "equivalence of the entry points (Sidecar.validate, SidecarValidator.validate, list of files, file path, two merged "
    "files) and independence of the answer from an earlier validate() on the same object are TESTED only (every "
    "generated case is run through one of them in rotation and compared with the entry-point-agnostic model)",
]

# 1 (default) = the code as it is in /repo: it contains the fix commits ae9929b (C08-F1), 8a59f35 (C08-F2) and
# f477d0a (C08-F3); the model runs with fixed=true.  0 = the behaviour before those commits (model fixed=false); only
# useful for replaying the repaired defects against a checkout that predates them.
FIXED = int(os.environ.get("VERIF_C08_FIXED", "1") or 0)

_S = None


def schema():
    global _S
    if _S is None:
        warnings.filterwarnings("ignore")
        from hed.schema import load_schema
        _S = load_schema(os.path.join(C.REPO, "hed/schema/schema_data/HED8.3.0.xml"))
    return _S


def translate():
    return c08_translate.translate()


# ---------------------------------------------------------------- encoding

def jsx(x):
    """JSON value -> s-expression of the driver protocol."""
    if x is None:
        return "N"
    if isinstance(x, bool):
        return ["B", 1 if x else 0]
    if isinstance(x, (int, float)):
        return ["I", 0 if x == 0 else 1]      # only truthiness matters (-0.0 is falsy; NaN, inf, 1e308 are truthy)
    if isinstance(x, str):
        return ["S", C.cps(x)]
    if isinstance(x, list):
        return ["A", [jsx(y) for y in x]]
    if isinstance(x, dict):
        return ["O", [[C.cps(k), jsx(v)] for k, v in x.items()]]
    raise TypeError(x)


def sxs(x):
    return C.uncps(x)


# ---------------------------------------------------------------- implementation side

def canon(issues):
    from hed.errors.error_types import ErrorSeverity
    return sorted([i["code"], 1 if i["severity"] < ErrorSeverity.WARNING else 0] for i in issues)


ENTRY_MODES = ["Sidecar.validate", "SidecarValidator.validate", "list-of-files", "file-path", "validate-twice",
               "two-merged-files", "name+empty-extra-def-dicts", "error-handler-without-warnings"]
ERRORS_ONLY_MODES = {7}     # the caller asked for errors only: warnings are compared as absent


EQUIV_MODES = {1, 2, 3, 5, 6}      # must give exactly the answer of the plain entry point (mode 0)


def impl_one(text, mode=0):
    """impl_mode, plus for the equivalent entry points a direct comparison with the plain entry point."""
    r = impl_mode(text, mode)
    if mode in EQUIV_MODES:
        base = impl_mode(text, 0)
        if base != r:
            return ["entry", base, r]
    return r


def impl_mode(text, mode=0):
    """Observable behaviour of the implementation on one JSON text.

    mode selects the entry point / history (all must give the same answer):
      0 Sidecar(io).validate(schema)              1 SidecarValidator(schema).validate(Sidecar(io))
      2 Sidecar([io]).validate(schema)            3 Sidecar(path of a scratch file).validate(schema)
      4 the same Sidecar object validated twice (both answers reported)
      5 the columns split over two files that are merged by Sidecar([io1, io2]) (objects only)
      6 the rarely used parameters: Sidecar(io, name=...).validate(schema, extra_def_dicts=<empty>, name=...)
      7 validate(schema, error_handler=ErrorHandler(check_for_warnings=False)): same errors, no warnings"""
    from hed.models.sidecar import Sidecar
    from hed.validator.sidecar_validator import SidecarValidator
    tmp = None
    try:
        try:
            if mode == 2:
                sc = Sidecar([io.StringIO(text)])
            elif mode == 3:
                tmp = C.scratch_dir("hedverif-c08-")
                path = os.path.join(tmp, "task-x_events.json")
                with open(path, "w", encoding="utf8") as f:
                    f.write(text)
                sc = Sidecar(path)
            elif mode == 5 and isinstance(json.loads(text), dict) and len(json.loads(text)) >= 2:
                doc = json.loads(text)
                keys = list(doc)
                h = len(keys) // 2
                sc = Sidecar([io.StringIO(json.dumps({k: doc[k] for k in keys[:h]})),
                              io.StringIO(json.dumps({k: doc[k] for k in keys[h:]}))])
            else:
                sc = Sidecar(io.StringIO(text))
        except Exception as e:  # noqa
            return ["exn", "load", type(e).__name__]
        try:
            if mode == 1:
                issues = SidecarValidator(schema()).validate(sc)
            elif mode == 6:
                from hed.models.definition_dict import DefinitionDict
                extra = [[DefinitionDict()], DefinitionDict(), [], [DefinitionDict(), DefinitionDict()], None][len(text) % 5]
                issues = sc.validate(schema(), extra_def_dicts=extra, name="task-x_events.json")
            elif mode == 7:
                from hed.errors import ErrorHandler
                issues = sc.validate(schema(), error_handler=ErrorHandler(check_for_warnings=False))
                if isinstance(issues, list) and any(c[1] == 0 for c in canon(issues)):
                    return ["exn", "validate", "warning-returned-although-errors-only-requested"]
            else:
                issues = sc.validate(schema())
            if mode == 4:
                first = issues
                issues = sc.validate(schema())
                if isinstance(first, list) and isinstance(issues, list) and canon(first) != canon(issues):
                    return ["history", canon(first), canon(issues)]
        except Exception as e:  # noqa
            return ["exn", "validate", type(e).__name__]
        if not isinstance(issues, list):
            return ["exn", "validate", "not-a-list"]
        return ["ok", canon(issues)]
    finally:
        if tmp:
            import shutil
            shutil.rmtree(tmp, ignore_errors=True)


def answer_queries(ds, queries):
    """Answers of the real string-level validator to the model's queries (V_* instantiation).
    Mirrors the string-level calls of SidecarValidator.validate / Sidecar.extract_definitions."""
    from hed.errors import ErrorHandler
    from hed.models.definition_dict import DefinitionDict
    from hed.models.hed_string import HedString
    from hed.models.model_constants import DefTagNames
    from hed.models import df_util
    from hed.validator import HedValidator
    S = schema()
    eh = ErrorHandler()
    dd = DefinitionDict()
    d_issues = []
    for s in ds:
        d_issues += dd.check_for_definitions(HedString(s, S), eh)
    merged = DefinitionDict([dd] if dd else [])
    d_issues = d_issues + merged.issues
    hv = HedValidator(S, def_dicts=merged, definitions_allowed=True)
    out = []
    cache = {}

    def obj(s):
        if s not in cache:
            h = HedString(s, hed_schema=S, def_dict=merged)
            h.remove_refs()
            cache[s] = h
        return cache[s]
    for q in queries:
        k = q[0]
        if k == "D":
            out.append(["D", [[C.cps(c), e] for c, e in canon(d_issues)]])
        elif k == "B":
            s = sxs(q[1])
            iss = hv.run_basic_checks(copy.deepcopy(obj(s)), allow_placeholders=True)
            out.append(["B", q[1], [[C.cps(c), e] for c, e in canon(iss)]])
        elif k == "C":
            s = sxs(q[1])
            n = len(obj(s).find_tags({DefTagNames.DEFINITION_KEY}, recursive=True, include_groups=0))
            out.append(["C", q[1], n])
        elif k == "H":
            s = sxs(q[1])
            h = copy.deepcopy(obj(s))
            h.remove_definitions()
            h.shrink_defs()
            out.append(["H", q[1], str(h).count("#")])
        elif k == "F":
            s = sxs(q[1])
            refs = [sxs(r) for r in q[2]]
            combo = [sxs(r) for r in q[3]]
            ref_dict = dict(zip(refs, combo))
            modified = s
            for ref in refs:
                modified = df_util.replace_ref(modified, f"{{{ref}}}", ref_dict[ref])
            h = HedString(modified, hed_schema=S, def_dict=merged)
            iss = hv.run_full_string_checks(h)
            out.append(["F", q[1], q[2], q[3], [[C.cps(c), e] for c, e in canon(iss)]])
        else:
            raise RuntimeError(f"unknown query {q}")
    return out


_HV = None


def assembled_valid(doc):
    """The precondition "assembled from individually valid annotation strings", established WITHOUT the sidecar
    validator: every annotation a row can assemble -- each template with every {column} replaced (plain str.replace)
    by one of THAT column's own annotations -- is validated on its own by the string validator.
    Returns True / a witness string for the first invalid assembly / None when not applicable (not rule-abiding,
    definitions or {HED} involved)."""
    global _HV
    from hed.models.hed_string import HedString
    from hed.validator import HedValidator
    if not struct_ok(doc):
        return None
    text = json.dumps(doc)
    if "def" in text.lower() or "{HED}" in text:
        return None
    if _HV is None:
        _HV = HedValidator(schema())
    S = schema()
    cols = {k: col_strings(v) for k, v in doc.items() if isinstance(v, dict) and "HED" in v}
    for k, strs in cols.items():
        for template in strs:
            names = sorted(set(REF_RE.findall(template)))
            for values in itertools.product(*[cols[n] for n in names]):
                t = template
                for n, val in zip(names, values):
                    t = t.replace("{" + n + "}", val)
                issues = _HV.validate(HedString(t, S), allow_placeholders=True)
                bad = [c for c, e in canon(issues) if e]
                if bad:
                    return f"{k!r}: {template!r} -> {t!r}: {bad}"
    return True


def work(arg):
    """(text, phase-1 output of the model or None, mode) -> (impl result, answer table or error string,
    assembled_valid verdict)."""
    text, q, mode = arg
    r = impl_one(text, mode)
    try:
        assembled = assembled_valid(json.loads(text))
    except Exception as e:  # noqa   (the independent precondition could not be established: clause not applied)
        assembled = "precondition-error:" + type(e).__name__
    table = None
    if q is not None and isinstance(q, list) and q and q[0] != "ERR":
        try:
            table = answer_queries([sxs(s) for s in q[0]], q[1:])
        except Exception as e:  # noqa
            table = "answer-error:" + type(e).__name__ + ":" + str(e)[:100]
    return r, table, assembled


# ---------------------------------------------------------------- specification side (independent python)

REF_RE = re.compile(r"\{([a-z_\-0-9]+)\}", re.IGNORECASE)
NAME_OK = re.compile(r"^[a-z_\-0-9]+$", re.IGNORECASE)


def braces_ok(s):
    depth = 0
    for c in s:
        if c == "{":
            depth += 1
            if depth > 1:
                return False
        elif c == "}":
            depth -= 1
            if depth < 0:
                return False
    return depth == 0


def col_kind(v):
    """'cat' / 'value' / 'none' (no HED entry) for well-typed columns, else 'bad'."""
    if not isinstance(v, dict):
        return "none" if FIXED else "bad"     # plain metadata (any JSON value) is legal since fix ae9929b
    if "HED" not in v:
        return "none"
    h = v["HED"]
    if isinstance(h, str):
        return "value"
    if isinstance(h, dict) and h and all(isinstance(x, str) and x for x in h.values()):
        return "cat"
    return "bad"


def has_key_deep(key, d):
    if isinstance(d, dict):
        return key in d or any(has_key_deep(key, x) for x in d.values())
    if isinstance(d, list):
        return any(has_key_deep(key, x) for x in d)
    return False


def col_strings(v):
    h = v["HED"]
    return [h] if isinstance(h, str) else list(h.values())


def is_definition_string(s):
    return "definition/" in s.lower()


def struct_ok(doc, chk_hash=True, defs_exempt=False):
    """The structural rules of the statement, written from the statement (not from the code).
    chk_hash=False: every rule except the '#' counts (Coq: struct_ok_but_hash)."""
    if not isinstance(doc, dict) or "HED" in doc:
        return False
    kinds = {k: col_kind(v) for k, v in doc.items()}
    if "bad" in kinds.values():
        return False
    hed_cols = {k for k, kd in kinds.items() if kd in ("cat", "value")}
    refs_of = {}
    for k, v in doc.items():
        if kinds[k] == "none":
            if has_key_deep("HED", v):
                return False
            continue
        strs = col_strings(v)
        if chk_hash and kinds[k] == "value" and strs[0].count("#") != 1:
            return False
        if kinds[k] == "cat":
            if "n/a" in v["HED"] or (chk_hash and any("#" in s for s in strs
                                                       if not (defs_exempt and is_definition_string(s)))):
                return False
        rs = []
        for s in strs:
            if not braces_ok(s):
                return False
            rs += REF_RE.findall(s)
        refs_of[k] = rs
    for k, rs in refs_of.items():
        for r in rs:
            if r == k or (r != "HED" and r not in hed_cols):
                return False
            if r in refs_of and refs_of[r]:
                return False
    return True


SCREENING_CODES = {"SIDECAR_INVALID", "SIDECAR_BRACES_INVALID", "sidecarUnknownColumn", "wrongHedDataType",
                   "blankValueString"}


def hash_fault(doc):
    """A definition-free string that breaks the '#' count rule (value column: exactly one, categorical entry:
    none), wherever the '#' characters stand; None when the rule is obeyed.  Statement-level, independent of the code."""
    if not isinstance(doc, dict):
        return None
    for k, v in doc.items():
        if k == "HED" or not isinstance(v, dict) or "HED" not in v:
            continue
        h = v["HED"]
        if isinstance(h, str):
            if "def" not in h.lower() and h.count("#") != 1:
                return f"value column {k!r}: {h!r}"
        elif isinstance(h, dict) and h and all(isinstance(x, str) and x for x in h.values()):
            for ck, x in h.items():
                if "def" not in x.lower() and "#" in x:
                    return f"categorical entry {k!r}/{ck!r}: {x!r}"
    return None


def hed_bearing_strings(v):
    """Strings of a HED-bearing entry (string with '#', or map of strings), else None."""
    if not isinstance(v, dict) or not v or "HED" not in v:
        return None
    h = v["HED"]
    if isinstance(h, str):
        return [h] if "#" in h else None
    if isinstance(h, dict) and all(isinstance(x, str) for x in h.values()):
        return list(h.values())
    return None


def expected_fault_codes(doc):
    """Codes that MUST appear among the error codes, by the fault theorems that hold for EVERY sidecar
    (C08_fault_hed_column / na_key / hed_entry_type / category_nonstring / category_blank / braces / unknown_ref /
    self_ref / nested_ref).  Written from the rules of the statement; returns [(code, reason)]."""
    out = []
    if not isinstance(doc, dict):
        return out
    hed_cols = {k for k, v in doc.items() if isinstance(v, dict) and v and "HED" in v}
    refs_of = {}
    for name, v in doc.items():
        if name == "HED":
            out.append(("SIDECAR_INVALID", "HED used as a column name"))
        if isinstance(v, dict) and name != "HED" and "HED" in v:
            h = v["HED"]
            if not isinstance(h, (str, dict)):
                out.append(("sidecarUnknownColumn", f"HED entry of {name!r} is neither a string nor a map"))
            if isinstance(h, dict):
                for k, val in h.items():
                    if not val:
                        out.append(("blankValueString", f"empty category value {name!r}/{k!r}"))
                    elif not isinstance(val, str):
                        out.append(("wrongHedDataType", f"non-string category value {name!r}/{k!r}"))
                    elif k == "n/a":
                        out.append(("SIDECAR_INVALID", f"n/a category key in {name!r}"))
        strs = hed_bearing_strings(v)
        if strs is not None:
            refs_of[name] = [m for s_ in strs for m in REF_RE.findall(s_)]
            for s_ in strs:
                if not braces_ok(s_):
                    out.append(("SIDECAR_BRACES_INVALID", f"unbalanced/nested braces in {name!r}: {s_!r}"))
                for m in REF_RE.findall(s_):
                    if m == name:
                        out.append(("SIDECAR_BRACES_INVALID", f"self reference in {name!r}"))
                    elif m != "HED" and m not in hed_cols:
                        out.append(("SIDECAR_BRACES_INVALID", f"reference to unknown column {m!r} in {name!r}"))
    for n1, r1 in refs_of.items():
        for m in r1:
            if m != n1 and refs_of.get(m):
                out.append(("SIDECAR_BRACES_INVALID", f"nested reference {n1!r} -> {m!r} -> ..."))
    return out


STRUCT_ONLY_CODES = {"SIDECAR_INVALID", "sidecarUnknownColumn", "wrongHedDataType", "blankValueString"}


def classify_exception(doc, r):
    """Class of a raising input among the (repaired) defects C08-F1 ae9929b / F2 8a59f35 / F3 f477d0a, or None.
    known_findings.json lists them under "fixed", so every raising input is a VIOLATION on the current /repo; the
    classes only matter when an old checkout is replayed with VERIF_C08_FIXED=0."""
    stage, name = r[1], r[2]
    if not isinstance(doc, dict):
        if stage == "load" and name in ("TypeError", "ValueError"):
            return "C08-F2"
        if stage == "validate" and name == "AttributeError":
            try:
                d = dict(doc)
            except Exception:  # noqa
                return None
            if any(not isinstance(v, dict) for v in d.values()):
                return "C08-F2"
        return None
    nondict = any(not isinstance(v, dict) for v in doc.values())
    if name == "AttributeError" and stage == "validate" and nondict:
        return "C08-F1"
    if name == "KeyError" and stage == "validate" and not nondict:
        for k, v in doc.items():
            h = v.get("HED")
            if isinstance(h, str) and "#" not in h:
                if any(ref != "HED" and ref not in doc for ref in REF_RE.findall(h)):
                    return "C08-F3"
    return None


def oracle(case, r, res):
    """Check each clause of the statement on the implementation's behaviour."""
    doc = case["doc"]
    rep = {"json": case["text"], "kind": case["kind"], "fault": case.get("fault"), "mode": case.get("mode", 0)}
    if FIXED and r == ["exn", "load", "HedFileError"] and not isinstance(doc, dict):
        return      # repaired behaviour: a document that is not an object is refused with the documented HedFileError
    rep["entry"] = ENTRY_MODES[case.get("mode", 0)]
    if r[0] == "entry":
        res.report("entry-point-equivalence", rep, f"{ENTRY_MODES[case.get('mode', 0)]} gives {r[2]} but the plain "
                                                   f"Sidecar(io).validate(schema) gives {r[1]}")
        return
    if r[0] == "history":
        res.report("history-independent", rep, f"the same Sidecar object validated twice: first {r[1]} then {r[2]}")
        return
    if r[0] == "exn":
        res.report("never-raises", rep, f"{r[2]} during {r[1]}", fid=classify_exception(doc, r))
        return
    errs = [c for c, e in r[1] if e]
    ok = struct_ok(doc)
    if case.get("valid_strings") and not ok and struct_ok(doc, defs_exempt=True) and errs:
        # definition strings may hold '#' (the placeholder rule is about the entries outside definitions); not covered
        # by the Coq predicate struct_ok, checked on the implementation only
        res.report("wellformed-clean", rep, f"error codes {errs} on a rule-abiding sidecar with placeholder definitions")
    if ok and case.get("assembled") is True and errs:
        # precondition established independently of the sidecar validator (assembled_valid): every annotation a row
        # can assemble from this rule-abiding sidecar is valid on its own
        res.report("wellformed-clean", rep, f"error codes {errs} on a rule-abiding sidecar all of whose assembled "
                                            "annotations (each reference replaced by its own column's text) are valid")
    elif case.get("valid_strings") and ok and errs:
        res.report("wellformed-clean", rep, f"error codes {errs} on a structurally well-formed sidecar")
    elif ok and set(errs) & STRUCT_ONLY_CODES:
        # whatever the strings are worth, these codes are never produced by string-level validation
        res.report("wellformed-clean", rep, f"structural error codes {sorted(set(errs) & STRUCT_ONLY_CODES)} on a "
                                            "structurally well-formed sidecar")
    hf = hash_fault(doc)
    if hf and "PLACEHOLDER_INVALID" not in errs and not (set(errs) & SCREENING_CODES):
        # C08_fault_value_hash / C08_fault_category_hash: PLACEHOLDER_INVALID, or the screening reported an error
        res.report("fault-flagged", rep, f"'#' count rule broken by {hf} but neither PLACEHOLDER_INVALID nor a "
                                         f"structure/reference error is reported (errors {errs})")
    if hf and struct_ok(doc, chk_hash=False) and "PLACEHOLDER_INVALID" not in errs:
        # C08_fault_*_hash_wellformed: every other rule obeyed => no early exit, the code IS reported
        res.report("fault-flagged", rep, f"'#' count rule broken by {hf} in an otherwise well-formed sidecar: expected "
                                         f"PLACEHOLDER_INVALID, got errors {errs}")
    for code, why in expected_fault_codes(doc):
        if code not in errs:
            res.report("fault-flagged", rep, f"{why}: expected {code}, got errors {errs}")
            break
    exp = case.get("expect")
    if exp and exp not in errs:
        res.report("fault-flagged", rep, f"fault {case['fault']}: expected {exp}, got errors {errs}")


# ---------------------------------------------------------------- cases

LEAVES_Q = [None, True, 0, "", "Red", "Red/#", "Label/##", "{a}", "{zz}", "{a", "{a, {b}, Label/#", [], {}]
LEAVES_T = LEAVES_Q + [1, False, "{b}", "{HED}", "Label/#, {b}", "Blue, {a}", "{a}}", "Label/#, {zz}", ["Red"],
                       "Label/#, Label/#", "n/a", "{b}, Label/#_#", "Description/# and #"]


def column_values(leaves, thorough):
    cv = list(leaves) + [["Red"], {"x": "Red"}]
    hv = list(leaves)
    hv += [[l] for l in leaves[:3]]
    hv += [{"x": c} for c in cv]
    hv += [{"n/a": c} for c in leaves[:7]]
    small = ["Red", "Red/#", "{b}", None, 1] if thorough else ["Red", "{b}", None]
    hv += [{"x": c1, "y": c2} for c1 in small for c2 in small]
    out = list(leaves)
    out += [[h] for h in (leaves[:4] + [{"HED": "Red"}])]
    out += [{"HED": h} for h in hv]
    out += [{"Levels": h} for h in (leaves[:6] + [{"HED": "Red"}, [{"HED": 1}], {"x": {"HED": None}}])]
    out += [{"HED": h, "Levels": {"x": "d"}} for h in ("Red/#", {"x": "Red"}, None)]
    out += [{"Levels": {"x": "d"}, "HED": "Label/#"}]
    seen, uniq = set(), []
    for v in out:
        t = json.dumps(v)
        if t not in seen:
            seen.add(t)
            uniq.append(v)
    return uniq


def enum_docs(tier):
    thorough = tier == "thorough"
    leaves = LEAVES_T if thorough else LEAVES_Q
    cols = column_values(leaves, thorough)
    docs = []
    # top level: every leaf, lists, single columns under several names
    docs += list(leaves) + [[l] for l in leaves] + [["ab"], [["a", 1]], [["a", {"HED": "Red"}]], [[[1], 2]],
                                                    [{"a": 1, "b": 2}], [[1, 2, 3]], "ab"]
    for name in ("a", "HED", "n/a", ""):
        docs += [{name: c} for c in cols]
    second = cols if thorough else [c for c in cols if isinstance(c, dict)][::3] + leaves[:4]
    first = cols if thorough else cols[::2]
    for c1 in first:
        for c2 in second:
            docs.append({"a": c1, "b": c2})
    if thorough:
        # three columns (chains of references a -> b -> c) over a sub-alphabet of HED-bearing / faulty entries
        hedc = [c for c in cols if isinstance(c, dict) and "HED" in c]
        sub = hedc[::5] + [{"HED": "Label/#, {c}"}, {"HED": {"x": "Red, {c}"}}, {"HED": "Label/#, {a}"}, "rest", {}]
        for c1 in sub:
            for c2 in sub:
                for c3 in sub:
                    docs.append({"a": c1, "b": c2, "c": c3})
    return docs, len(cols)


COLNAMES = ["trial_type", "response", "rt", "stim_file", "resp-2", "Cond_1", "x9", "duration2", "2nd", "7", "a-b-c", "_x",
            "K9", "-lead", "UPPER"]
CATKEYS = ["go", "stop", "1", "left", "right", "A b", "N/A", "n/a ", "NA", "#", "{x}", "é", "", "HED", "0.5", "na"]
CAT_STR = ["Red", "Blue", "Green", "(Square, Large)", "Sensory-event", "Agent-action, Press", "Item/Object",
           "Label/abc", "Circle", "Ellipse", "Rectangle", "Star", "Cross", "Move", "Walk", "Jump"]
VAL_STR = ["Label/#", "(Weight/# kg, Yellow)", "Description/#", "Parameter-value/#", "ID/#", "(Age/# years, Violet)",
           "Description/# and more", "(Label/#, (Maroon, Small))"]
# value strings whose single '#' stands in a Def / Def-expand of the definition column (rarely used entity kinds)
DEF_VAL_STR = ["Def/Acc/#", "(Def-expand/Acc/#, (Label/#, Purple)), Olive", "(Def/Acc/#, Olive)"]
DEF_STR = ["(Definition/MyDef, (Triangle, Small))", "(Definition/Acc/#, (Label/#, Purple))"]
DEF_HEADS = {"definition", "def", "def-expand"}
TOKEN_RE = re.compile(r"[^,()]+")


def recase(text, rng, style):
    """Letter case of tag names as an input dimension (HED tags are case-insensitive): the first path component of
    every tag -- and the definition name after Definition/Def/Def-expand -- is rewritten; values, units, '#' and
    {references} are left alone.  style: lower / upper / swap / mixed (each tag draws its own)."""
    def one(word, st):
        if st == "lower":
            return word.lower()
        if st == "upper":
            return word.upper()
        if st == "swap":
            return word.swapcase()
        return word

    def tok(m):
        t = m.group(0)
        body = t.strip()
        if not body or body.startswith("{") or "{" in body:
            return t
        st = style if style != "mixed" else rng.choice(["lower", "upper", "swap", "same"])
        parts = body.split("/")
        head = parts[0]
        parts[0] = one(head, st)
        if head.lower() in DEF_HEADS and len(parts) > 1 and parts[1] != "#" and rng.random() < 0.5:
            parts[1] = one(parts[1], rng.choice(["lower", "upper", "swap"]))
        return t.replace(body, "/".join(parts))
    return TOKEN_RE.sub(tok, text)


def recase_doc(doc, rng):
    """Apply one letter-case style to every HED string of the document (in place)."""
    style = rng.choice(["lower", "upper", "swap", "mixed", "mixed"])
    for v in doc.values():
        if isinstance(v, dict) and "HED" in v:
            h = v["HED"]
            if isinstance(h, str):
                v["HED"] = recase(h, rng, style)
            elif isinstance(h, dict):
                for k in h:
                    if isinstance(h[k], str):
                        h[k] = recase(h[k], rng, style)
    return style
IGN_VAL = [{"Description": "free text"}, {"Levels": {"1": "one", "2": "two"}, "LongName": "x"}, {"Units": "s"}, {}]
if FIXED:   # BIDS metadata that is not an object (legal since fix ae9929b)
    IGN_VAL = IGN_VAL + ["rest", 3, None, ["a", {"x": 1}], True, 0, ""]
TAIL_DEFAULT = ["Cyan", "Magenta", "Pink", "Orange", "Brown", "Gray", "Black", "White", "Teal", "Navy", "Coral", "Lime",
                "Salmon", "Tan", "Plum"]
TAIL_OF = {"trial_type": "Cyan", "response": "Magenta", "rt": "Pink", "stim_file": "Orange", "resp-2": "Brown",
           "Cond_1": "Gray", "x9": "Black", "duration2": "White"}


def gen_wellformed(rng):
    """A structurally well-formed sidecar whose strings and substitutions are individually valid."""
    n = rng.randint(1, 4) if rng.random() < 0.95 else rng.randint(8, 13)     # degenerate sizes: many columns
    names = rng.sample(COLNAMES, n)
    doc, kinds = {}, {}
    avail_cat = rng.sample(CAT_STR, len(CAT_STR))     # every string is used at most once per document
    avail_val = rng.sample(VAL_STR, len(VAL_STR))
    for nm in names:
        k = rng.choice(["cat", "cat", "value", "value", "ignore"])
        if (k == "cat" and len(avail_cat) < 3) or (k == "value" and not avail_val):
            k = "ignore"
        kinds[nm] = k
        if k == "cat":
            keys = rng.sample(CATKEYS, rng.randint(1, 3))
            vals = [avail_cat.pop() for _ in keys]
            doc[nm] = {"HED": dict(zip(keys, vals))}
        elif k == "value":
            doc[nm] = {"HED": avail_val.pop()}
        else:
            doc[nm] = copy.deepcopy(rng.choice(IGN_VAL))
        if k != "ignore" and rng.random() < 0.4:
            doc[nm] = {"Description": "d", **doc[nm]} if rng.random() < 0.5 else {**doc[nm], "LongName": "n"}
    if rng.random() < 0.25:
        doc["defs"] = {"HED": {"d" + str(i): s for i, s in enumerate(rng.sample(DEF_STR, rng.randint(1, 2)))}}
        kinds["defs"] = "defs"
        if "Acc/#" in json.dumps(doc["defs"]) and rng.random() < 0.6:
            tgt = [nm for nm in names if kinds[nm] == "value" and "{" not in doc[nm]["HED"]]
            if tgt:
                doc[tgt[0]]["HED"] = rng.choice(DEF_VAL_STR)
        if "MyDef" in json.dumps(doc["defs"]) and rng.random() < 0.5:
            tgt = [nm for nm in names if kinds[nm] == "cat"]
            if tgt:
                h = doc[tgt[0]]["HED"]
                k0 = next(iter(h))
                h[k0] = h[k0] + ", Def/MyDef"
    # references: hosts reference leaf columns (which themselves hold no references)
    hed = [nm for nm in names if kinds[nm] in ("cat", "value")]
    rng.shuffle(hed)
    if len(hed) >= 2 and rng.random() < 0.6:
        host, leaf = hed[0], hed[1]
        _add_ref(doc, host, leaf, rng)
        if len(hed) >= 3 and rng.random() < 0.5:
            _add_ref(doc, hed[2] if rng.random() < 0.5 else host, leaf, rng)
    if hed and rng.random() < 0.2:
        free = [h for h in hed if "{" not in json.dumps(doc[h])]
        if free:
            _add_ref(doc, free[0], "HED", rng)
    if "defs" in doc and rng.random() < 0.6:      # ordering: the definitions need not come last
        items = list(doc.items())
        d_item = items.pop()
        items.insert(rng.randint(0, len(items)), d_item)
        doc = dict(items)
    if rng.random() < 0.5:                          # letter case of tag names
        recase_doc(doc, rng)
    return doc, kinds


def _add_ref(doc, host, leaf, rng):
    h = doc[host]["HED"]
    ref = "{" + leaf + "}"
    tail = TAIL_DEFAULT[COLNAMES.index(host) % len(TAIL_DEFAULT)] if host in COLNAMES else "Cyan"

    def wrap(s):
        if ref in s:
            return s
        return rng.choice([f"({s}, {ref})", f"{s}, ({tail}, {ref})", f"{ref}, {s}"])
    if isinstance(h, str):
        doc[host]["HED"] = wrap(h)
    else:
        k = rng.choice(list(h))
        h[k] = wrap(h[k])


def surplus_hash(text, rng, have, allow_ref=True):
    """Break the '#' count rule of a string that holds `have` (0 or 1) '#': the surplus '#' is placed at every kind
    of position where the rule can be broken -- inside the SAME tag as the first one (adjacent, after a separator
    character, after a word), in another tag of the same group, in another group, before/after everything, next to
    a reference.  Returns (new text, name of the placement)."""
    where = rng.choice(["same-tag-adjacent", "same-tag-sep", "same-tag-word", "same-tag-triple", "other-tag-after",
                        "other-tag-before", "other-group", "other-tag-same-kind", "next-to-ref"] if have else
                       ["new-tag-after", "new-tag-before", "new-group", "new-tag-double", "in-existing-tag",
                        "next-to-ref"])
    if where == "next-to-ref" and (not allow_ref or "{" in text):
        where = "same-tag-sep" if have else "new-tag-double"
    if have:
        i = text.index("#")
        if where == "same-tag-adjacent":
            return text[:i] + "##" + text[i + 1:], where
        if where == "same-tag-sep":
            return text[:i] + "#" + rng.choice(["_", "-", ".", "a", "1", "é"]) + "#" + text[i + 1:], where
        if where == "same-tag-word":
            return text[:i] + rng.choice(["# and #", "# #", "#  #"]) + text[i + 1:], where
        if where == "same-tag-triple":
            return text[:i] + rng.choice(["###", "#_#_#", "# # #"]) + text[i + 1:], where
        if where == "other-tag-after":
            return text + ", Temperature/#", where
        if where == "other-tag-before":
            return "Temperature/#, " + text, where
        if where == "other-group":
            return text + ", (Temperature/#, Gold)", where
        if where == "other-tag-same-kind":
            return text + ", Temperature/" + rng.choice(["##", "#_#"]), where
        return "{HED}, " + text[:i] + "#_#" + text[i + 1:], where
    if where == "new-tag-after":
        return text + ", Temperature/#", where
    if where == "new-tag-before":
        return "Temperature/#, " + text, where
    if where == "new-group":
        return "(" + text + ", (Temperature/#, Gold))", where
    if where == "new-tag-double":
        return text + ", Temperature/" + rng.choice(["##", "#_#", "# and #"]), where
    if where == "in-existing-tag":
        return text + rng.choice(["/#", "#", "/a#b"]), where
    return "{HED}, " + text + ", Temperature/#", where


def inject_fault(doc, kinds, rng):
    """(faulted doc, fault name, expected error code) or None."""
    d = copy.deepcopy(doc)
    cats = [k for k in d if kinds.get(k) == "cat"]
    vals = [k for k in d if kinds.get(k) == "value"]
    hed = cats + vals
    igns = [k for k in d if kinds.get(k) == "ignore"]
    f = rng.choice(["hed_nonstr", "cat_nonstr", "cat_blank", "value_hash0", "value_hash2", "cat_hash", "hed_colname",
                    "na_key", "brace_open", "brace_close", "brace_nested", "unknown_ref", "ignore_ref", "self_ref",
                    "nested_ref", "hed_deep_key", "hed_extra_column"])

    def pick_str(col):
        h = d[col]["HED"]
        if isinstance(h, str):
            return None
        return rng.choice(list(h))

    def edit(col, fn):
        h = d[col]["HED"]
        if isinstance(h, str):
            d[col]["HED"] = fn(h)
        else:
            k = rng.choice(list(h))
            h[k] = fn(h[k])
    if f == "hed_nonstr" and hed:
        d[rng.choice(hed)]["HED"] = rng.choice([1, ["Red"], None, True, 0, [], 2.5, False])
        return d, f, "sidecarUnknownColumn"
    if f == "cat_nonstr" and cats:
        c = rng.choice(cats)
        d[c]["HED"][pick_str(c)] = rng.choice([1, ["Red"], {"k": "Red"}, True, 3])
        return d, f, "wrongHedDataType"
    if f == "cat_blank" and cats:
        c = rng.choice(cats)
        d[c]["HED"][pick_str(c)] = rng.choice([None, 0, "", [], {}, False])
        return d, f, "blankValueString"
    if f == "value_hash0" and vals:
        c = rng.choice(vals)
        if "def" in d[c]["HED"].lower():
            return None
        d[c]["HED"] = d[c]["HED"].replace("#", rng.choice(["x1", "", "abc", "1"]))
        return d, f, "PLACEHOLDER_INVALID"
    if f == "value_hash2" and vals:
        c = rng.choice(vals)
        if "def" in d[c]["HED"].lower():
            return None
        d[c]["HED"], where = surplus_hash(d[c]["HED"], rng, have=1, allow_ref="{" + c + "}" not in json.dumps(d))
        return d, f + ":" + where, "PLACEHOLDER_INVALID"
    if f == "cat_hash" and cats:
        c = rng.choice(cats)
        h = d[c]["HED"]
        k = rng.choice(list(h))
        if "def" in h[k].lower():
            return None
        h[k], where = surplus_hash(h[k], rng, have=0, allow_ref="{" not in json.dumps(d))
        return d, f + ":" + where, "PLACEHOLDER_INVALID"
    if f == "hed_colname" and d:
        old = rng.choice(list(d))
        d = {("HED" if k == old else k): v for k, v in d.items()}
        return d, f, "SIDECAR_INVALID"
    if f == "hed_extra_column":
        d["HED"] = rng.choice([{"HED": "Label/#"}, {"HED": {"a": "Red"}}, {"Description": "x"}, {}])
        return d, f, "SIDECAR_INVALID"
    if f == "na_key" and cats:
        c = rng.choice(cats)
        d[c]["HED"]["n/a"] = "Turquoise"
        return d, f, "SIDECAR_INVALID"
    if f == "hed_deep_key":
        nm = rng.choice(igns) if igns else "notes"
        d[nm] = rng.choice([{"Levels": {"HED": "Red"}}, {"Levels": [{"HED": {"a": "Red"}}]},
                            {"x": {"y": {"HED": 1}}}, {"Description": "d", "z": [[{"HED": None}]]}])
        return d, f, "SIDECAR_INVALID"
    if f in ("brace_open", "brace_close", "brace_nested") and hed:
        other = rng.choice(hed)
        bad = {"brace_open": "{" + other, "brace_close": other + "}", "brace_nested": "{{" + other + "}}"}[f]
        with_ref = [h for h in hed if "{" in json.dumps(d[h]["HED"])]
        host = rng.choice(with_ref) if with_ref and rng.random() < 0.5 else rng.choice(hed)
        where = rng.choice(["start", "end", "before-ref", "after-ref", "middle"])

        def place(s):
            m = REF_RE.search(s)
            if where == "start" or (where in ("before-ref", "after-ref") and not m):
                return bad + ", " + s
            if where == "end":
                return s + ", " + bad
            if where == "before-ref":
                return s[:m.start()] + bad + ", " + s[m.start():]
            if where == "after-ref":
                return s[:m.end()] + ", " + bad + s[m.end():]
            i = s.find(",")
            return (s[:i] + ", " + bad + s[i:]) if i >= 0 else s + ", " + bad
        h = d[host]["HED"]
        if isinstance(h, str):
            d[host]["HED"] = place(h)
        else:
            ks = [k for k in h if "{" in h[k]] or list(h)
            k = rng.choice(ks)
            h[k] = place(h[k])
        return d, f + ":" + where, "SIDECAR_BRACES_INVALID"
    if f == "unknown_ref" and hed:
        unknown = rng.choice([n for n in ["nosuch", "q-1", "Z_z", "77", "0", "-x-", "_", "Hed", "hed"] if n not in d])
        edit(rng.choice(hed), lambda s: s + ", {" + unknown + "}")
        return d, f, "SIDECAR_BRACES_INVALID"
    if f == "ignore_ref" and hed and igns:
        edit(rng.choice(hed), lambda s: s + ", {" + rng.choice(igns) + "}")
        return d, f, "SIDECAR_BRACES_INVALID"
    if f == "self_ref" and hed:
        c = rng.choice(hed)
        edit(c, lambda s: s + ", {" + c + "}")
        return d, f, "SIDECAR_BRACES_INVALID"
    if f == "nested_ref" and len(hed) >= 2:
        # make some referenced column hold a reference itself
        a, b = rng.sample(hed, 2)
        if "{" + b + "}" not in json.dumps(d[a]):
            edit(a, lambda s: s + ", {" + b + "}")
        third = [h for h in hed if h not in (a, b)]
        tgt = third[0] if third else "HED"
        edit(b, lambda s: s + ", {" + tgt + "}")
        return d, f, "SIDECAR_BRACES_INVALID"
    return None


DEF_OK = ["(Definition/MyDef, (Triangle, Small))", "(Definition/Acc/#, (Label/#, Purple))",
          "(Definition/Third, (Item/Object, Large))"]
DEF_BAD = ["(Definition/MyDef, (Square))", "(Definition/Bad/#, (Red))", "(Definition/NoPh, (Label/#))",
           "(Definition/Two, (Red), (Blue))", "(Definition/Nest, (Definition/Inner, (Red)))", "Definition/Bare",
           "(Definition/MyDef, (Triangle, Small)), Red", "(Definition/Dup, (Green)), (Definition/Dup, (Green))"]


def gen_definition_docs(rng, n):
    out = []
    for _ in range(n):
        defs = rng.sample(DEF_OK, rng.randint(1, 3))
        if rng.random() < 0.7:
            defs += rng.sample(DEF_BAD, rng.randint(1, 2))
        rng.shuffle(defs)
        doc = {"defs": {"HED": {"d" + str(i): x for i, x in enumerate(defs)}}}
        uses = rng.sample(["Def/MyDef", "Def/Acc/4.5", "Def/Missing", "Def/Third, Red", "(Def/MyDef, Blue)", "Def/Acc",
                           "Green"], rng.randint(1, 3))
        doc["cond"] = {"HED": {"k" + str(i): u for i, u in enumerate(uses)}}
        if rng.random() < 0.5:
            doc["val"] = {"HED": rng.choice(["Def/Acc/#", "Label/#, Def/MyDef", "Def/Missing/#", "Label/#"])}
        if rng.random() < 0.3:
            doc["defs2"] = {"HED": {"e": rng.choice(DEF_OK + DEF_BAD)}}
        if rng.random() < 0.5:
            items = list(doc.items())
            rng.shuffle(items)
            doc = dict(items)
        if rng.random() < 0.5:
            recase_doc(doc, rng)
        out.append(doc)
    return out


def gen_multiref(rng):
    """Rule-abiding sidecar with one string naming two or three DIFFERENT columns, in either text order relative to
    the alphabetical order of the column names.  The template repeats, at another nesting level, an annotation of
    one referenced column, so that every genuine assembly is valid while an assembly that hands a reference the
    text of ANOTHER column is not (dimension: which column each reference is filled from)."""
    pools = [["Red", "Blue"], ["Square", "Circle"], ["Press", "Walk"], ["Large", "Small"]]
    rng.shuffle(pools)
    k = rng.choice([2, 2, 3])
    names = rng.sample(COLNAMES, k + 1)
    host, leaves = names[0], names[1:]
    rng.shuffle(leaves)                                   # text order of the references
    doc = {}
    vals = {}
    for i, nm in enumerate(leaves):
        if rng.random() < 0.2:
            vals[nm] = [rng.choice(["Item-count/#", "Label/#", "ID/#"])]
            doc[nm] = {"HED": vals[nm][0]}
        else:
            vals[nm] = list(pools[i])
            doc[nm] = {"HED": dict(zip(rng.sample(["go", "stop", "a", "b", "1"], 2), vals[nm]))}
    a, b = leaves[0], leaves[1]
    xa, yb = rng.choice(vals[a]), rng.choice(vals[b])
    lit_a = xa.replace("#", "2")
    lit_b = yb.replace("#", "3")
    forms = [f"{{{a}}}, ({{{b}}}, {lit_a})", f"({{{a}}}, {lit_b}), ({{{b}}}, Green, {lit_a})",
             f"({{{b}}}, {lit_a}), {{{a}}}", f"{{{a}}}, ({lit_a}, ({{{b}}}, Green))"]
    if k == 3:
        c = leaves[2]
        forms = [f"{{{a}}}, ({{{b}}}, {{{c}}}, {lit_a})", f"({{{a}}}, {lit_b}), ({{{c}}}, Green, ({{{b}}}, {lit_a}))"]
    t = rng.choice(forms)
    if rng.random() < 0.5:
        doc[host] = {"HED": {"show": t, "hide": "Gray"}}
    else:
        doc[host] = {"HED": t + ", Parameter-value/#"}
    items = list(doc.items())
    rng.shuffle(items)
    return dict(items)


def gen_malformed(rng):
    """Random junk at every depth (separate malformed stream)."""
    pool = [None, True, False, 0, 1, 2.5, -0.0, 1e308, float("nan"), 10 ** 30, -1, "", "Red", "Red/#", "{a}", "{b}", "{zz}", "{HED}", "Label/#, {b}", "}{",
            "{a}{b}", "n/a", "#", "{ſ}", "{a b}", "(Red", "Blue, {a}"]

    def val(d):
        x = rng.random()
        if d == 0 or x < 0.35:
            return rng.choice(pool)
        if x < 0.5:
            return [val(d - 1) for _ in range(rng.randint(0, 2))]
        keys = rng.sample(["HED", "a", "b", "n/a", "Levels", "x", "y", ""], rng.randint(0, 3))
        return {k: val(d - 1) for k in keys}
    x = rng.random()
    if x < 0.1:
        return val(3)
    names = rng.sample(["a", "b", "HED", "c", "n/a"], rng.randint(1, 3))
    doc = {}
    for nm in names:
        y = rng.random()
        if y < 0.5:
            h = val(2)
            doc[nm] = {"HED": h} if rng.random() < 0.8 else {"Levels": h, "HED": val(1)}
        else:
            doc[nm] = val(3)
    return doc


CORPUS = [
    # witnesses of the repaired defects (C08-F1 ae9929b, F2 8a59f35, F3 f477d0a) first: they must stay repaired
    {"TaskName": "rest"}, {"a": None}, {"a": [1, 2]}, {"onset": {"HED": "{col1}"}}, [1], "x", 5, None,
    # regression cases
    {}, [], "", {"a": {}}, {"a": {"HED": "Label/#"}}, {"a": {"HED": "Red"}}, {"a": {"HED": {"x": "Red"}}},
    {"a": {"HED": {"n/a": "Red"}}}, {"HED": {"HED": "Label/#"}}, {"a": {"HED": {"x": 1}}}, {"a": {"HED": {"x": ""}}},
    {"a": {"HED": {}}}, {"a": {"HED": [1]}}, {"a": {"Levels": {"HED": "x"}}},
    {"a": {"HED": "Label/#, {b}"}, "b": {"HED": {"x": "Red"}}},
    {"a": {"HED": "Label/#, {b}, {b}"}, "b": {"HED": {"x": "Red", "y": "Blue"}}},
    {"a": {"HED": "Label/#, {HED}"}}, {"a": {"HED": "Label/#, {a}"}}, {"a": {"HED": "Label/#, {c}"}},
    {"a": {"HED": "Label/#, {b}"}, "b": {"HED": {"x": "Red, {c}"}}, "c": {"HED": {"y": "Blue"}}},
    {"a": {"HED": "{b}"}, "b": {"x": 1}}, {"a": {"HED": "{a}"}}, {"a": {"HED": "{b}"}, "b": {"HED": {"x": "Red"}}},
    {"a": {"HED": {"x": "(Definition/D1/#, (Label/#))"}}},
    {"a": {"HED": {"x": "(Definition/D1, (Red))", "y": "Blue"}}},
    {"a": {"HED": {"x": "(Definition/D1, (Red))"}}, "b": {"HED": {"y": "Def/D1, Blue"}}},
    {"a": {"HED": {"x": "(Definition/D1, (Red))", "y": "(Definition/D1, (Blue))"}}},
    {"a": {"HED": "Label/#, {b}"}, "b": {"HED": "Red"}},
]


def make_cases(tier, seed, widen):
    rng = random.Random(seed)
    cases = []

    def add(doc, kind, **kw):
        # entry point / history dimension: the corpus uses the observation point of the property, every other case
        # rotates over the equivalent ways of reaching the validator (see impl_one)
        mode = 0 if kind == "corpus" else len(cases) % len(ENTRY_MODES)
        cases.append(dict(doc=doc, text=json.dumps(doc), kind=kind, mode=mode, **kw))
    for d in CORPUS:
        add(d, "corpus")
    for d in CORPUS:            # the corpus again through the history dimension (same object validated twice)
        add(d, "corpus")
        cases[-1]["mode"] = 4
    # definition-bearing sidecars with and without faulty definitions (state kept on the Sidecar object between
    # calls: cached definition dict and definition issues), each through the plain and the validate-twice path
    for d in gen_definition_docs(rng, 40 if tier == "quick" else 400):
        for m in (0, 4, 1, 6, 7):
            add(d, "defs")
            cases[-1]["mode"] = m
    docs, ncols = enum_docs(tier)
    for d in docs:
        add(d, "enum")
    nwf = (400 if tier == "quick" else 4000) * (3 if widen else 1)
    for _ in range(nwf):
        doc, kinds = gen_wellformed(rng)
        add(doc, "wellformed", valid_strings=True)
        for _ in range(3):
            fx = inject_fault(doc, kinds, rng)
            if fx:
                add(fx[0], "fault", fault=fx[1], expect=fx[2])
    for _ in range((150 if tier == "quick" else 1500) * (3 if widen else 1)):
        add(gen_multiref(rng), "multiref")     # validity of the strings is established by assembled_valid, not claimed
    nmal = (600 if tier == "quick" else 8000) * (3 if widen else 1)
    for _ in range(nmal):
        add(gen_malformed(rng), "malformed")
    return cases, ncols, len(docs)


# ---------------------------------------------------------------- helper-function correspondence

def check_string_helpers(exe, rng, n, res):
    from hed.validator.sidecar_validator import SidecarValidator
    alpha = "{}ab_-1 ,#Z{}{}ſKé(){}"
    strs = ["", "{", "}", "{}", "{a}", "{{a}}", "{a}}", "{a}{b}", "{a{b}", "}{", "{a b}", "{ſ}", "{ıİ}"]
    strs += ["".join(rng.choice(alpha) for _ in range(rng.randint(0, 12))) for _ in range(n)]
    out1 = C.run_driver(exe, [C.to_sx(["X", "refs", C.cps(s)]) for s in strs])
    out2 = C.run_driver(exe, [C.to_sx(["X", "braces", C.cps(s)]) for s in strs])
    bad = 0
    for s, a, b in zip(strs, out1, out2):
        want = REF_RE.findall(s)
        got = [sxs(x) for x in a] if isinstance(a, list) else a
        if got != want:
            bad += 1
            res.violation("correspondence", {"string": s}, f"find_refs model={got} re.findall={want}", no_input=True)
        wantb = SidecarValidator._find_non_matching_braces(s)
        gotb = [int(x) for x in b[0]]
        if gotb != wantb or (b[1] == "1") != braces_ok(s) or (not wantb) != braces_ok(s):
            bad += 1
            res.violation("correspondence", {"string": s},
                          f"braces model={gotb},{b[1]} impl={wantb} spec={braces_ok(s)}", no_input=True)
    # the character class: mirror of Model/Sidecar.v is_ref_char against CPython re for every code point
    one = re.compile(r"[a-z_\-0-9]", re.IGNORECASE)

    def mirror(c):
        return (48 <= c <= 57 or 65 <= c <= 90 or 97 <= c <= 122 or c in (95, 45, 304, 305, 383, 8490))
    diff = [c for c in range(0x110000) if mirror(c) != bool(one.fullmatch(chr(c)))]
    if diff:
        bad += 1
        res.violation("refchar-table", {"codepoints": diff[:10]}, "[a-z_\\-0-9]/IGNORECASE differs from the model's class",
                      no_input=True)
    pts = list(range(0, 0x400)) + [8490, 8491, 0x212a, 0x1F600, 0xFF41]
    outc = C.run_driver(exe, [C.to_sx(["X", "refchar", c]) for c in pts])
    for c, o in zip(pts, outc):
        if (o == "1") != mirror(c):
            bad += 1
            res.violation("refchar-table", {"codepoint": c}, "extracted is_ref_char differs from its mirror", no_input=True)
    return len(strs) + len(pts), bad


# ---------------------------------------------------------------- run

def run(tier, seed, res, model_ok=True, proof_ok=True):
    warnings.filterwarnings("ignore")
    cases, ncols, nenum = make_cases(tier, seed, widen=not proof_ok)
    texts = [c["text"] for c in cases]
    exe = None
    q1 = [None] * len(cases)
    if model_ok:
        exe = C.build_driver("c08")
        q1 = C.run_driver(exe, [C.to_sx(["Q", FIXED, jsx(c["doc"])]) for c in cases])
    with Pool(int(C.JOBS)) as pool:
        worked = pool.map(work, list(zip(texts, q1, [c["mode"] for c in cases])), chunksize=64)
    for c, w in zip(cases, worked):
        c["assembled"] = w[2]
    worked = [(w[0], w[1]) for w in worked]
    impl = [w[0] for w in worked]

    # implementation-side oracle (independent of the model)
    for c, r in zip(cases, impl):
        oracle(c, r, res)

    # correspondence
    disagreements = 0
    unmodelled = 0
    helper_n = 0
    structok_n = 0
    if model_ok:
        lines = []
        for c, (r, table) in zip(cases, worked):
            if isinstance(table, str) or table is None:
                table = []
            lines.append(C.to_sx(["R", FIXED, jsx(c["doc"]), table]))
        out = C.run_driver(exe, lines)
        for c, (r, table), m in zip(cases, worked, out):
            if m[0] == "exn" and m[1] == "Unmodelled":
                unmodelled += 1
                continue
            if m[0] == "exn":
                mc = ["exn", m[1]]
            elif m[0] == "ok":
                mc = ["ok", sorted([sxs(i[0]), int(i[1])] for i in m[1])]
            else:
                mc = ["driver-error", m, table if isinstance(table, str) else ""]
            ic = ["exn", r[2]] if r[0] == "exn" else r
            if c["mode"] in ERRORS_ONLY_MODES and mc[0] == "ok":
                mc = ["ok", [x for x in mc[1] if x[1] == 1]]
            if mc != ic:
                disagreements += 1
                probe = C.Result(PROP)
                probe.known_ids = {}
                oracle(c, r, probe)
                real = [v for v in probe.violations
                        if not (v["clause"] == "never-raises" and classify_exception(c["doc"], r))]
                if not real:
                    res.violation("correspondence", {"json": c["text"], "kind": c["kind"]},
                                  f"impl={ic} model={mc}", no_input=True)
        dict_cases = [c for c in cases if isinstance(c["doc"], dict)]
        so = C.run_driver(exe, [C.to_sx(["X", "structok", jsx(c["doc"])]) for c in dict_cases])
        for c, o in zip(dict_cases, so):
            want = [struct_ok(c["doc"]), struct_ok(c["doc"], chk_hash=False)]
            if [x == "1" for x in o] != want:
                res.violation("struct_ok-spec", {"json": c["text"]},
                              f"Coq (struct_ok, struct_ok_but_hash)={o} python statement-level spec={want}", no_input=True)
        structok_n = sum(1 for o in so if o[0] == "1")
        helper_n, _ = check_string_helpers(exe, random.Random(seed + 1), 3000 if tier == "quick" else 30000, res)
        # the generated code table as extracted equals what the implementation registers at import time
        from hed.errors.error_reporter import error_functions  # noqa
        tab = C.run_driver(exe, [C.to_sx(["X", "codes"])])[0]
        for (cls, nm), row in zip(c08_translate.KINDS, tab):
            import hed.errors.error_types as ET
            kind = getattr(getattr(ET, cls), nm)
            fn = error_functions.get(kind)
            if nm == "BAD_DEFINITION_LOCATION":
                from hed.models.hed_tag import HedTag
                obj = fn(HedTag("Definition/X", schema()))
            else:
                import inspect
                npar = len([p for p in inspect.signature(fn).parameters.values()
                            if p.kind == p.POSITIONAL_OR_KEYWORD and p.default is p.empty])
                obj = fn(*(["x"] * npar))
            obj = obj if isinstance(obj, list) else [obj]
            got = [obj[0]["code"], 1 if obj[0]["severity"] < ET.ErrorSeverity.WARNING else 0]
            if [sxs(row[0]), int(row[1])] != got:
                res.violation("code-table", {"kind": nm}, f"Gen={sxs(row[0])},{row[1]} runtime={got}", no_input=True)

    def nontrivial(d):
        return isinstance(d, dict) and any(isinstance(v, dict) and "HED" in v for v in d.values())
    distinct = len({c["text"] for c in cases if nontrivial(c["doc"])})
    hist = {}
    for c, r in zip(cases, impl):
        key = c["kind"] + ":" + (r[0] if r[0] in ("ok", "entry", "history") else r[2])
        hist[key] = hist.get(key, 0) + 1
    faults = {}
    for c in cases:
        if c["kind"] == "fault":
            faults[c["fault"]] = faults.get(c["fault"], 0) + 1
    reached = sum(1 for w in worked if isinstance(w[1], list) and len(w[1]) > 0)
    return {
        "evaluations": len(cases),
        "distinct_nontrivial": distinct,
        "rule": f"corpus ({len(CORPUS)}) + every document of the enumeration (top-level leaves/lists, one column named "
                f"a/HED/n/a/'' and two columns a,b over {ncols} column values built from the leaf alphabet at every "
                f"position to depth 3, thorough: plus three columns a,b,c over a sub-alphabet: {nenum} documents, "
                f"exhaustive for that alphabet) + well-formed sidecars over real "
                "schema tags (column names with digits/hyphens/underscores, odd category keys, Def/Def-expand value strings), "
                "in several letter cases, definition column anywhere, up to 13 columns, each with 3 single injected faults ('#' faults placed in the same tag / another tag / another group / "
                "next to a reference) + random malformed documents; every non-corpus case goes through one of 8 entry "
                "points/histories in rotation; non-trivial = top-level "
                "object with at least one column that is an object with a HED entry",
        "samples": [cases[0]["text"], cases[len(CORPUS) + nenum // 2]["text"], cases[len(CORPUS) + nenum + 1]["text"],
                    cases[-1]["text"]],
        "exhaustive": True,
        "exhaustive_scope": "the enumerated alphabet only (see rule); fault-injection and malformed streams are random",
        "disagreements_checked": disagreements,
        "correspondence_cases": len(cases) - unmodelled if model_ok else 0,
        "unmodelled_skipped": unmodelled,
        "reached_string_validation": reached,
        "helper_function_cases": helper_n,
        "struct_ok_true_cases": structok_n,
        "assembled_valid_true_cases": sum(1 for c in cases if c.get("assembled") is True),
        "assembled_valid_multiref_true": sum(1 for c in cases if c.get("assembled") is True and c["kind"] == "multiref"),
        "histogram": dict(sorted(hist.items())),
        "fault_histogram": faults,
    }


def replay(payload):
    warnings.filterwarnings("ignore")
    case = payload.get("case") or {}
    text = case.get("json")
    if text is None:
        print("no concrete input in replay:", str(payload.get("detail", ""))[:800])
        return 1
    doc = json.loads(text)
    r = impl_one(text, int(case.get("mode", 0) or 0))
    print("input:", text, " entry:", ENTRY_MODES[int(case.get("mode", 0) or 0)])
    print("impl:", r)
    res = C.Result(PROP)
    res.known_ids = {}
    c = {"doc": doc, "text": text, "kind": case.get("kind", "replay"), "fault": case.get("fault"),
         "mode": int(case.get("mode", 0) or 0),
         "valid_strings": case.get("kind") == "wellformed"}
    try:
        c["assembled"] = assembled_valid(doc)
    except Exception as e:  # noqa
        c["assembled"] = "precondition-error:" + type(e).__name__
    print("assembled annotations valid on their own:", c["assembled"])
    if payload.get("clause") == "fault-flagged":
        m = re.search(r"expected (\S+),", str(payload.get("detail", "")))
        if m:
            c["expect"] = m.group(1)
    oracle(c, r, res)
    for v in res.violations:
        print("FAILS:", v["clause"], v["detail"])
    return 1 if res.violations else 0
