"""C08 translator: regenerates coq/Gen/SidecarCodes.v from the sources under test (Python ast, fail closed).

Sources read (never imported):
  hed/errors/error_types.py          class constants (kind strings, published codes, severities)
  hed/errors/error_messages.py       @hed_error / @hed_tag_error decorators: kind -> (actual_code, default_severity)
  hed/validator/sidecar_validator.py reserved_column_names / reserved_category_values and the reference regex literal
  hed/models/sidecar.py              the reference regex literal
"""
import ast
import os
import warnings

from harness import common as C

# the internal error kinds the Coq model emits (class, attribute)
KINDS = [
    ("SidecarErrors", "BLANK_HED_STRING"),
    ("SidecarErrors", "WRONG_HED_DATA_TYPE"),
    ("SidecarErrors", "INVALID_POUND_SIGNS_VALUE"),
    ("SidecarErrors", "INVALID_POUND_SIGNS_CATEGORY"),
    ("SidecarErrors", "UNKNOWN_COLUMN_TYPE"),
    ("SidecarErrors", "SIDECAR_HED_USED"),
    ("SidecarErrors", "SIDECAR_HED_USED_COLUMN"),
    ("SidecarErrors", "SIDECAR_NA_USED"),
    ("ColumnErrors", "INVALID_COLUMN_REF"),
    ("ColumnErrors", "SELF_COLUMN_REF"),
    ("ColumnErrors", "NESTED_COLUMN_REF"),
    ("ColumnErrors", "MALFORMED_COLUMN_REF"),
    ("DefinitionErrors", "BAD_DEFINITION_LOCATION"),
]
REF_REGEX = "\\{([a-z_\\-0-9]+)\\}"     # the literal the hand-written recogniser find_refs was written against
REF_REGEX_SITES = {"hed/validator/sidecar_validator.py": 2, "hed/models/sidecar.py": 1}


class TieBroken(Exception):
    pass


def _parse(rel):
    p = os.path.join(C.REPO, rel)
    with open(p, encoding="utf8") as f, warnings.catch_warnings():
        warnings.simplefilter("ignore")
        return ast.parse(f.read(), filename=p)


def class_constants(tree):
    """{class: {NAME: literal}} for simple `NAME = <str|int>` assignments in class bodies."""
    out = {}
    for node in tree.body:
        if isinstance(node, ast.ClassDef):
            d = {}
            for st in node.body:
                if isinstance(st, ast.Assign) and len(st.targets) == 1 and isinstance(st.targets[0], ast.Name) \
                        and isinstance(st.value, ast.Constant) and isinstance(st.value.value, (str, int)):
                    d[st.targets[0].id] = st.value.value
            out[node.name] = d
    return out


def _attr(node, consts, what):
    if isinstance(node, ast.Attribute) and isinstance(node.value, ast.Name):
        cls, nm = node.value.id, node.attr
        if cls in consts and nm in consts[cls]:
            return (cls, nm), consts[cls][nm]
    raise TieBroken(f"unrecognised {what}: {ast.dump(node)[:200]}")


def decorator_table(tree, consts):
    """{(class, attr): (actual_code, severity)} for every decorated message function."""
    tab = {}
    for node in tree.body:
        if not isinstance(node, ast.FunctionDef):
            continue
        for dec in node.decorator_list:
            if not (isinstance(dec, ast.Call) and isinstance(dec.func, ast.Name)
                    and dec.func.id in ("hed_error", "hed_tag_error")):
                continue
            if len(dec.args) != 1:
                raise TieBroken(f"decorator of {node.name}: expected exactly one positional argument")
            try:
                key, kind_str = _attr(dec.args[0], consts, "error kind")
            except TieBroken:
                continue    # kinds outside the constant classes are not ours; ours are checked for presence below
            code, sev = kind_str, consts["ErrorSeverity"]["ERROR"]
            for kw in dec.keywords:
                if kw.arg == "actual_code":
                    _, code = _attr(kw.value, consts, f"actual_code of {node.name}")
                elif kw.arg == "default_severity":
                    _, sev = _attr(kw.value, consts, f"default_severity of {node.name}")
                elif kw.arg == "has_sub_tag":
                    pass
                else:
                    raise TieBroken(f"decorator of {node.name}: unknown keyword {kw.arg}")
            if key in tab:
                raise TieBroken(f"kind {key} registered twice")
            tab[key] = (code, sev)
    return tab


def reserved_lists(tree):
    out = {}
    for node in tree.body:
        if isinstance(node, ast.ClassDef) and node.name == "SidecarValidator":
            for st in node.body:
                if isinstance(st, ast.Assign) and len(st.targets) == 1 and isinstance(st.targets[0], ast.Name) \
                        and st.targets[0].id in ("reserved_column_names", "reserved_category_values"):
                    if not (isinstance(st.value, ast.List)
                            and all(isinstance(e, ast.Constant) and isinstance(e.value, str) for e in st.value.elts)):
                        raise TieBroken(f"{st.targets[0].id} is not a list of string literals")
                    out[st.targets[0].id] = [e.value for e in st.value.elts]
    if set(out) != {"reserved_column_names", "reserved_category_values"}:
        raise TieBroken("SidecarValidator.reserved_* lists not found")
    return out


def regex_sites(tree):
    n = 0
    others = []
    for node in ast.walk(tree):
        if isinstance(node, ast.Call) and isinstance(node.func, ast.Attribute) and node.func.attr == "findall":
            for a in node.args[:1]:
                if isinstance(a, ast.Constant) and isinstance(a.value, str):
                    if a.value == REF_REGEX:
                        n += 1
                    else:
                        others.append(a.value)
    return n, others


def coq_str(s):
    return "[" + ";".join(str(ord(c)) for c in s) + "]%N"


def generate():
    consts = class_constants(_parse("hed/errors/error_types.py"))
    for cls in ("ErrorSeverity", "SidecarErrors", "ColumnErrors", "DefinitionErrors", "ValidationErrors"):
        if cls not in consts:
            raise TieBroken(f"class {cls} not found in error_types.py")
    if set(consts["ErrorSeverity"]) != {"ERROR", "WARNING"}:
        raise TieBroken("ErrorSeverity has unexpected members")
    warn = consts["ErrorSeverity"]["WARNING"]
    tab = decorator_table(_parse("hed/errors/error_messages.py"), consts)
    res = reserved_lists(_parse("hed/validator/sidecar_validator.py"))
    for rel, want in REF_REGEX_SITES.items():
        n, others = regex_sites(_parse(rel))
        if n != want or others:
            raise TieBroken(f"{rel}: reference regex literal changed (found {n} of {want} expected sites, "
                            f"other findall literals {others!r}); Model/Sidecar.v find_refs was written for {REF_REGEX!r}")
    lines = ["(* GENERATED by harness/c08_translate.py from hed/errors/error_types.py, error_messages.py and",
             "   hed/validator/sidecar_validator.py -- do not edit; regenerated on every check. *)",
             "From Coq Require Import List NArith.",
             "From HV Require Import Base.Str.",
             "Import ListNotations.",
             "",
             "(* internal error kinds emitted by the sidecar structure/reference screening *)",
             "Inductive skind : Set :="]
    for cls, nm in KINDS:
        lines.append(f"| K_{nm}")
    lines[-1] += "."
    lines += ["", "(* published code: actual_code of the registering decorator (default: the kind string) *)",
              "Definition kind_code (k : skind) : str :=", "  match k with"]
    for cls, nm in KINDS:
        if (cls, nm) not in tab:
            raise TieBroken(f"no @hed_error/@hed_tag_error registration found for {cls}.{nm}")
        code, sev = tab[(cls, nm)]
        lines.append(f"  | K_{nm} => {coq_str(code)} (* {code} *)")
    lines += ["  end.", "", "(* severity < ErrorSeverity.WARNING, i.e. what check_for_any_errors counts *)",
              "Definition kind_is_error (k : skind) : bool :=", "  match k with"]
    for cls, nm in KINDS:
        code, sev = tab[(cls, nm)]
        if not isinstance(sev, int):
            raise TieBroken("severity is not an int")
        lines.append(f"  | K_{nm} => {'true' if sev < warn else 'false'} (* severity {sev} *)")
    lines += ["  end.", ""]
    for nm in ("reserved_column_names", "reserved_category_values"):
        lines.append(f"Definition {nm} : list str := [" + "; ".join(coq_str(s) for s in res[nm]) + "]."
                     f" (* {res[nm]!r} *)")
    lines.append("")
    return "\n".join(lines)


def translate():
    text = generate()
    return C.write_if_changed(os.path.join(C.COQ, "Gen", "SidecarCodes.v"), text)
