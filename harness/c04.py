"""C04 -- Validation outcome does not depend on how an annotation is written."""
import ast
import copy
import os
import random
import re
from collections import Counter
from multiprocessing import Pool

from harness import common as C

PROP = "C04"
COQ_TARGETS = ["Props/C04.vo", "Extract/ExtractC04.vo"]

# Which state of the duplicate check the tree under test is expected to have.
# True  = the code as it is: /repo contains fix commits 7597eca (canonical case-folded sort key), 2492808 (tag equality =
#         equality of the case-folded short form), cbb8087 (Def-expand compared up to member order) and 3e47c8c
#         (repeated groups of empty groups reported instead of IndexError); the model runs as mode_of true and no
#         failure is excused.
# False = the behaviour BEFORE those commits (model mode_of false); only useful to re-check a tree with the fixes
#         reverted: the former findings C04-F1 / C04-F2 (now listed under "fixed" in known_findings.json) are then
#         classified instead of being reported as new violations.
FIXED = True

TRUSTED = [
    "Model/Dups.v is a hand transcription of GroupValidator.check_tag_level_issue / check_multiple_unique_tags_exist / "
    "check_for_required_tags / validate_duration_tags / _check_for_duplicate_groups(_recursive), HedGroup._sorted / "
    "__str__ / get_all_tags / get_all_groups, HedTag.__eq__, HedString.find_top_level_tags and "
    "DefValidator.validate_onset_offset / _handle_onset_or_offset / HedGroup._get_def_tags_from_group; tied by the "
    "correspondence run (multisets of internal error kinds, published codes, exceptions)",
    "Gen/C04Codes.v (kind -> published code) is regenerated from hed/errors/error_messages.py, error_types.py, "
    "model_constants.py and group_util.py on every run (ast, fail closed)",
    "each tag enters the model as (short_tag, short_tag.casefold(), org_tag.casefold(), tagGroup, topLevelTagGroup, "
    "short_base_tag, unique/required prefix matches) read from the implementation's HedTag objects: schema "
    "resolution itself is property C03's business",
    "Python's list.sort is a stable sort (modelled by insertion sort, proved stable)",
]
ASSUMPTIONS = [
    "C04_history_* theorems: the modelled group rules keep no state, so a row's verdict is independent of the rows "
    "validated before; tag resolution (HedSchema._find_tag_entry) is an input of the model, and that a schema object "
    "does not remember earlier spellings/values is checked by the history stream on the implementation only (testing)",
    "theorems are about the group rules of group_util (placement, unique/required, Duration/Delay, duplicates); "
    "the basic-phase checks (characters, delimiters, per-tag rules, Def validation) are covered by the metamorphic "
    "oracle on the implementation only (testing); C04_onset_invariant_order (Onset/Inset/Offset shape rule) assumes that "
    "the Def names resolve (t_def = 0, guaranteed by the basic phase) -- without it the rule is order dependent "
    "(C04_onset_order_refuted_unresolved_def, only reachable by calling validate_onset_offset directly)",
    "the duplicate theorems named *_fixed / never_raises are about the code as it is (model mode_of true = fix commits "
    "7597eca, 2492808, 3e47c8c); the theorems named *_refuted_* and C04_dup_raised_on_empty_group_before_fix_3e47c8c are "
    "the record of the repaired defects (behaviour before those commits, former findings C04-F1/F2) and say nothing "
    "about the current implementation",
    "well-formedness hypothesis of the order/spelling theorems for the duplicate check: folded short forms are non-empty "
    "and free of ',()' (guaranteed by the parser; checked on every generated case); no hypothesis about empty groups any "
    "more (total since 3e47c8c)",
    "spelling invariance of the placement, unique/required, Duration/Delay and Onset rules holds by construction of the "
    "model (these rules never read the spelling fields); that another valid spelling of a tag yields the same folded short "
    "form / base tag / attributes is property C03's statement and an INPUT here; the session theorems likewise hold by "
    "construction (the modelled rules keep no state)",
]

KINDS = ["GROUP_EMPTY", "TAG_GROUP_TAG", "TOP_LEVEL_TAG", "TOP_LEVEL_TAG_DEFINITION", "TOP_LEVEL_TAG_TEMPORAL",
         "MULTIPLE_TOP_TAGS", "TAG_REPEATED", "TAG_REPEATED_GROUP", "TAG_NOT_UNIQUE", "REQUIRED_TAG_MISSING",
         "DURATION_HAS_OTHER_TAGS", "DURATION_WRONG_NUMBER_GROUPS",
         "ONSET_NO_DEF_TAG_FOUND", "ONSET_TOO_MANY_DEFS", "ONSET_WRONG_NUMBER_GROUPS", "ONSET_TAG_OUTSIDE_OF_GROUP",
         "ONSET_DEF_UNMATCHED", "ONSET_PLACEHOLDER_WRONG"]
# model kind -> (class, constant) of the internal error kind, and the actual_error override given at the call site
KIND_SRC = {
    "GROUP_EMPTY": ("ValidationErrors", "HED_GROUP_EMPTY", None),
    "TAG_GROUP_TAG": ("ValidationErrors", "HED_TAG_GROUP_TAG", None),
    "TOP_LEVEL_TAG": ("ValidationErrors", "HED_TOP_LEVEL_TAG", None),
    "TOP_LEVEL_TAG_DEFINITION": ("ValidationErrors", "HED_TOP_LEVEL_TAG", "DEFINITION_INVALID"),
    "TOP_LEVEL_TAG_TEMPORAL": ("ValidationErrors", "HED_TOP_LEVEL_TAG", "TEMPORAL_TAG_ERROR"),
    "MULTIPLE_TOP_TAGS": ("ValidationErrors", "HED_MULTIPLE_TOP_TAGS", None),
    "TAG_REPEATED": ("ValidationErrors", "HED_TAG_REPEATED", None),
    "TAG_REPEATED_GROUP": ("ValidationErrors", "HED_TAG_REPEATED_GROUP", None),
    "TAG_NOT_UNIQUE": ("ValidationErrors", "TAG_NOT_UNIQUE", None),
    "REQUIRED_TAG_MISSING": ("ValidationErrors", "REQUIRED_TAG_MISSING", None),
    "DURATION_HAS_OTHER_TAGS": ("TemporalErrors", "DURATION_HAS_OTHER_TAGS", None),
    "DURATION_WRONG_NUMBER_GROUPS": ("TemporalErrors", "DURATION_WRONG_NUMBER_GROUPS", None),
    "ONSET_NO_DEF_TAG_FOUND": ("TemporalErrors", "ONSET_NO_DEF_TAG_FOUND", None),
    "ONSET_TOO_MANY_DEFS": ("TemporalErrors", "ONSET_TOO_MANY_DEFS", None),
    "ONSET_WRONG_NUMBER_GROUPS": ("TemporalErrors", "ONSET_WRONG_NUMBER_GROUPS", None),
    "ONSET_TAG_OUTSIDE_OF_GROUP": ("TemporalErrors", "ONSET_TAG_OUTSIDE_OF_GROUP", None),
    "ONSET_DEF_UNMATCHED": ("TemporalErrors", "ONSET_DEF_UNMATCHED", None),
    "ONSET_PLACEHOLDER_WRONG": ("TemporalErrors", "ONSET_PLACEHOLDER_WRONG", None),
}
CODE_IDS = {"TAG_EMPTY": 1, "TAG_GROUP_ERROR": 2, "DEFINITION_INVALID": 3, "TEMPORAL_TAG_ERROR": 4,
            "TAG_EXPRESSION_REPEATED": 5, "TAG_NOT_UNIQUE": 6, "REQUIRED_TAG_MISSING": 7}
CODE_NAMES = {v: k for k, v in CODE_IDS.items()}
REP = "TAG_EXPRESSION_REPEATED"


# ---------------------------------------------------------------- translator (fail closed)

def _class_consts(path, wanted):
    tree = ast.parse(open(path).read())
    out = {}
    for node in tree.body:
        if isinstance(node, ast.ClassDef) and node.name in wanted:
            d = {}
            for st in node.body:
                if isinstance(st, ast.Assign) and len(st.targets) == 1 and isinstance(st.targets[0], ast.Name):
                    d[st.targets[0].id] = st.value
            out[node.name] = d
    for w in wanted:
        if w not in out:
            raise RuntimeError(f"translator: class {w} not found in {path}")
    return out


def kind_code_table():
    """kind (model name) -> published code, read from the sources of the tree under test."""
    et = _class_consts(os.path.join(C.REPO, "hed/errors/error_types.py"), ["ValidationErrors", "TemporalErrors"])

    def const(cls, name):
        v = et[cls].get(name)
        if not (isinstance(v, ast.Constant) and isinstance(v.value, str)):
            raise RuntimeError(f"translator: {cls}.{name} is not a string literal")
        return v.value

    def attr(node):
        if isinstance(node, ast.Attribute) and isinstance(node.value, ast.Name):
            return const(node.value.id, node.attr)
        if isinstance(node, ast.Constant) and isinstance(node.value, str):
            return node.value
        raise RuntimeError("translator: unrecognised decorator argument " + ast.dump(node))

    wanted = {const(cls, name) for cls, name, _ in KIND_SRC.values()}
    reg = {}
    tree = ast.parse(open(os.path.join(C.REPO, "hed/errors/error_messages.py")).read())
    for node in ast.walk(tree):
        if not isinstance(node, ast.FunctionDef):
            continue
        for dec in node.decorator_list:
            if isinstance(dec, ast.Call) and isinstance(dec.func, ast.Name) and dec.func.id in ("hed_error", "hed_tag_error"):
                if not dec.args:
                    raise RuntimeError("translator: decorator without kind")
                a0 = dec.args[0]
                if not (isinstance(a0, ast.Attribute) and isinstance(a0.value, ast.Name)):
                    raise RuntimeError("translator: unrecognised decorator argument " + ast.dump(a0))
                if a0.value.id not in et:
                    continue   # kinds of other classes (sidecar, schema, ... errors) are not modelled
                kind = attr(a0)
                if kind not in wanted:
                    continue
                actual, sev = kind, "ERROR"
                for kw in dec.keywords:
                    if kw.arg == "actual_code":
                        actual = attr(kw.value)
                    elif kw.arg == "default_severity":
                        if not (isinstance(kw.value, ast.Attribute) and kw.value.attr in ("ERROR", "WARNING")):
                            raise RuntimeError("translator: unrecognised severity")
                        sev = kw.value.attr
                    elif kw.arg != "has_sub_tag":
                        raise RuntimeError("translator: unrecognised decorator keyword " + str(kw.arg))
                if len(dec.args) > 1:
                    a1 = dec.args[1]
                    if isinstance(a1, ast.Attribute) and a1.attr in ("ERROR", "WARNING"):
                        sev = a1.attr
                    else:
                        raise RuntimeError("translator: unrecognised positional decorator argument")
                if kind in reg:
                    raise RuntimeError("translator: kind registered twice " + kind)
                reg[kind] = (actual, sev)
    table = {}
    for k in KINDS:
        cls, name, override = KIND_SRC[k]
        internal = const(cls, name)
        if internal not in reg:
            raise RuntimeError(f"translator: no message function registered for {internal}")
        actual, sev = reg[internal]
        if sev != "ERROR":
            raise RuntimeError(f"translator: {internal} is no longer an error-severity kind")
        if override is not None:
            actual = const("ValidationErrors", override)
        if actual not in CODE_IDS:
            raise RuntimeError(f"translator: published code {actual} of {internal} is not in the modelled code set")
        table[k] = actual
    # the call sites in group_util.py and the DefTagNames sets the model hard-wires
    gu = open(os.path.join(C.REPO, "hed/validator/util/group_util.py")).read()
    for pat in (r"short_base_tag\s*==\s*DefTagNames\.DEFINITION_KEY:\s*\n\s*actual_code\s*=\s*ValidationErrors\.DEFINITION_INVALID",
                r"short_base_tag\s+in\s+DefTagNames\.ALL_TIME_KEYS:\s*\n\s*actual_code\s*=\s*ValidationErrors\.TEMPORAL_TAG_ERROR",
                r"find_top_level_tags\(anchor_tags=DefTagNames\.DURATION_KEYS\)",
                r"tag\s+in\s+DefTagNames\.TEMPORAL_KEYS\s+for\s+tag\s+in\s+top_level_tags",
                r"DefTagNames\.DELAY_KEY\s+not\s+in\s+short_tags\s+or\s+len\(short_tags\)\s*!=\s*2"):
        if not re.search(pat, gu):
            raise RuntimeError("translator: group_util.py no longer has the shape " + pat)
    mc = _class_consts(os.path.join(C.REPO, "hed/models/model_constants.py"), ["DefTagNames"])["DefTagNames"]

    def names(node):
        if isinstance(node, ast.Set):
            return sorted(e.id for e in node.elts if isinstance(e, ast.Name))
        return None
    if names(mc.get("TEMPORAL_KEYS")) != ["INSET_KEY", "OFFSET_KEY", "ONSET_KEY"] or \
            names(mc.get("DURATION_KEYS")) != ["DELAY_KEY", "DURATION_KEY"]:
        raise RuntimeError("translator: DefTagNames key sets changed")
    au = mc.get("ALL_TIME_KEYS")
    if not (isinstance(au, ast.Call) and isinstance(au.func, ast.Attribute) and au.func.attr == "union"
            and isinstance(au.func.value, ast.Name) and au.func.value.id == "TEMPORAL_KEYS"
            and len(au.args) == 1 and isinstance(au.args[0], ast.Name) and au.args[0].id == "DURATION_KEYS"):
        raise RuntimeError("translator: DefTagNames.ALL_TIME_KEYS changed")
    return table


def translate():
    table = kind_code_table()
    lines = ["(* GENERATED by harness/c04.py from hed/errors/error_messages.py, error_types.py and the call",
             "   sites in hed/validator/util/group_util.py -- do not edit. *)",
             "From HV Require Import Model.Dups.", "",
             "(* published code ids: " + ", ".join(f"{v} = {k}" for k, v in sorted(CODE_IDS.items(), key=lambda x: x[1])) + " *)",
             "Definition code_of (k : kind) : nat :=", "  match k with"]
    for k in KINDS:
        lines.append(f"  | K_{k} => {CODE_IDS[table[k]]}  (* {table[k]} *)")
    lines += ["  end.", ""]
    C.write_if_changed(os.path.join(C.COQ, "Gen", "C04Codes.v"), "\n".join(lines))
    return table


# ---------------------------------------------------------------- implementation side

_state = {}
DEFS = ["(Definition/MyDef,(Red,Blue))", "(Definition/ValDef/#,(Label/#,Green))",
        "(Definition/One,(Square))", "(Definition/Nest,(Circle,(Red,Blue),(Green,Item)))"]


def _schema_bytes():
    """a freshly loaded schema, pickled before it has seen any tag: every session unpickles its own object"""
    if "bytes" not in _state:
        import pickle
        from hed.schema import load_schema
        _state["bytes"] = pickle.dumps(load_schema(os.path.join(C.REPO, "hed/schema/schema_data/HED8.3.0.xml")))
    return _state["bytes"]


def new_session():
    """A new schema object (and definition dictionary) without history.  Every generated case runs in its own
    session, so what a schema object remembers from earlier annotations is part of the (replayable) case."""
    import pickle
    _state["schema"] = pickle.loads(_schema_bytes())
    _state.pop("dd", None)
    _state["seen"] = []          # every text handed to this schema object, in order


def schema():
    if "schema" not in _state:
        new_session()
    return _state["schema"]


def defdict():
    if "dd" not in _state:
        from hed.models.definition_dict import DefinitionDict
        _state["dd"] = DefinitionDict(DEFS, schema())
    return _state["dd"]


def _install_recorder():
    """Record the internal error kind of every issue created (the issue dict only keeps the published code)."""
    if "rec" in _state:
        return _state["rec"]
    from hed.errors import error_reporter
    rec = []
    orig = error_reporter.ErrorHandler.format_error

    def wrapper(error_type, *args, actual_error=None, **kwargs):
        out = orig(error_type, *args, actual_error=actual_error, **kwargs)
        rec.append((error_type, actual_error, out[0].get("code"), out[0].get("severity")))
        return out
    error_reporter.ErrorHandler.format_error = staticmethod(wrapper)
    _state["rec"] = rec
    return rec


def _kind_names():
    if "kn" not in _state:
        from hed.errors.error_types import ValidationErrors, TemporalErrors
        m = {}
        for k, (cls, name, override) in KIND_SRC.items():
            c = ValidationErrors if cls == "ValidationErrors" else TemporalErrors
            m[(getattr(c, name), getattr(ValidationErrors, override) if override else None)] = k
        _state["kn"] = m
    return _state["kn"]


def _recorded(fn):
    """Run fn; return ('ok', [model kind names], [codes]) or ('exn', TypeName)."""
    rec = _install_recorder()
    del rec[:]
    try:
        fn()
    except RecursionError:
        return ["exn", "RecursionError"]
    except Exception as e:  # noqa
        return ["exn", type(e).__name__]
    kn = _kind_names()
    kinds, codes = [], []
    for et, ae, code, sev in rec:
        kinds.append(kn.get((et, ae), f"?{et}/{ae}"))
        codes.append(code)
    return ["ok", kinds, codes]


def _intern(table, reserved, key):
    if key in reserved:
        return reserved[key]
    if key not in table:
        table[key] = 9 + len(table)
    return table[key]


def model_input(hs):
    """The tree handed to the model, read from the implementation's objects."""
    from hed.models.hed_tag import HedTag
    from hed.models.model_constants import DefTagNames as D
    from hed.schema.hed_schema_constants import HedKey
    sch = schema()
    uniq = sch.get_tags_with_attribute(HedKey.Unique)
    req = sch.get_tags_with_attribute(HedKey.Required)
    names = [D.DEFINITION_KEY, D.ONSET_KEY, D.OFFSET_KEY, D.INSET_KEY, D.DURATION_KEY, D.DELAY_KEY,
             D.DEF_KEY, D.DEF_EXPAND_KEY]
    defs = defdict().defs

    def def_state(ch):
        # what DefValidator._handle_onset_or_offset finds for this tag
        if ch.short_base_tag not in (D.DEF_KEY, D.DEF_EXPAND_KEY):
            return 0
        name, _, ph = ch.extension.partition("/")
        entry = defs.get(name.casefold())
        if entry is None:
            return 1
        return 2 if bool(entry.takes_value) != bool(ph) else 0
    res_b = {n: i + 1 for i, n in enumerate(names)}
    res_f = {n.casefold(): i + 1 for i, n in enumerate(names)}
    tb, tf = {}, {}

    def node(ch):
        if isinstance(ch, HedTag):
            lt = ch.long_tag.casefold()
            st = ch.short_tag
            if str(ch) != st:
                raise RuntimeError("str(tag) != short_tag")
            return ["T", C.cps(st), C.cps(st.casefold()), C.cps(ch.org_tag.casefold()),
                    bool(ch.base_tag_has_attribute(HedKey.TagGroup)),
                    bool(ch.base_tag_has_attribute(HedKey.TopLevelTagGroup)),
                    _intern(tb, res_b, ch.short_base_tag), _intern(tf, res_f, ch.short_base_tag.casefold()),
                    [i for i, p in enumerate(uniq) if lt.startswith(p.casefold())],
                    [i for i, p in enumerate(req) if lt.startswith(p.casefold())], def_state(ch)]
        return ["G"] + [node(c) for c in ch.children]
    return [node(c) for c in hs.children], len(req), len(uniq)


def error_codes(issues):
    from hed.errors.error_types import ErrorSeverity
    return sorted(i["code"] for i in issues if i.get("severity", ErrorSeverity.ERROR) == ErrorSeverity.ERROR)


def impl_full(s):
    """Observable of the property statement: sorted error-severity codes of HedString(s).validate()."""
    from hed.models.hed_string import HedString
    try:
        sch = schema()
        _state["seen"].append(s)
        hs = HedString(s, sch, def_dict=defdict())
        return error_codes(hs.validate())
    except RecursionError:
        return ["EXN:RecursionError"]
    except Exception as e:  # noqa
        return ["EXN:" + type(e).__name__]


def impl_basic_ok(s):
    """True when the basic phase reports no error, i.e. the full-string checks are reached."""
    from hed.models.hed_string import HedString
    from hed.validator.hed_validator import HedValidator
    from hed.errors import error_reporter
    try:
        hs = HedString(s, schema(), def_dict=defdict())
        v = HedValidator(schema(), def_dicts=defdict())
        iss = v.run_basic_checks(hs, allow_placeholders=True)
        return not error_reporter.check_for_any_errors(iss)
    except Exception:  # noqa
        return False


def impl_direct(s):
    """Direct calls of the anchored group rules on the parsed and resolved annotation."""
    from hed.models.hed_string import HedString
    from hed.validator.util.group_util import GroupValidator
    r = {"s": s}
    try:
        hs = HedString(s, schema(), def_dict=defdict())
        top, nreq, nuniq = model_input(hs)
    except Exception as e:  # noqa
        r["skip"] = type(e).__name__ + ":" + str(e)[:80]
        return r
    r["top"], r["nreq"], r["nuniq"] = top, nreq, nuniq
    gv = GroupValidator(schema())
    r["alltags"] = _recorded(lambda: gv._validate_tags_in_hed_string(hs.get_all_tags()))
    gv2 = GroupValidator(schema())
    gv2._check_for_duplicate_groups = lambda x: []
    gv2.validate_duration_tags = lambda x: []
    r["taglevel"] = _recorded(lambda: gv2.run_tag_level_validators(hs))
    r["dups"] = _recorded(lambda: gv._check_for_duplicate_groups(hs))
    r["duration"] = _recorded(lambda: GroupValidator.validate_duration_tags(hs))
    r["whole"] = _recorded(lambda: (gv.run_all_tags_validators(hs), gv.run_tag_level_validators(hs)))
    from hed.validator.def_validator import DefValidator
    r["onset"] = _recorded(lambda: DefValidator(defdict(), schema()).validate_onset_offset(hs))
    return r


def impl_history(case):
    """A sequence of annotations validated one after the other with ONE schema object (like the rows of a file),
    each also judged by a schema object without history."""
    fresh = []
    for st in case["steps"]:
        new_session()
        fresh.append(impl_full(st["base"]))
    new_session()
    hist = []
    for st in case["steps"]:
        hist.append([(y, impl_full(y)) for y in [st["base"]] + st["rewrites"]])
    new_session()
    return {"fresh": fresh, "hist": hist}


SESSION_CASES = 5


def impl_case(case):
    """One generated case: base text, its rewrites, optional planted duplicate.  A schema object serves
    SESSION_CASES consecutive cases; what it validated before the case is returned as the case's prefix."""
    if case.get("stream") == "history":
        _state["last_idx"] = None
        return impl_history(case)
    idx = case.get("idx", 0)
    if idx % SESSION_CASES == 0 or _state.get("last_idx") != idx - 1 or "schema" not in _state:
        new_session()
    _state["last_idx"] = idx
    prefix = list(_state["seen"])
    out = {"prefix": prefix, "base": case["base"], "full": impl_full(case["base"]),
           "rewrites": [(y, impl_full(y)) for y in case["rewrites"]],
           "direct": impl_direct(case["base"])}
    if case.get("planted"):
        out["basic_ok"] = impl_basic_ok(case["base"])
    if case.get("stream") in ("collide", "tgroup"):
        # the model's sort key is exercised on the rewrites as well: a wrong (e.g. too coarse) key in the
        # implementation then also shows up as a model/implementation disagreement
        out["direct_rw"] = [impl_direct(y) for y in case["rewrites"][:3]]
    return out


# ---------------------------------------------------------------- reference (python, independent of the model)
# A parsed annotation for the reference is a list of nodes ('T', short, shortf) / ('G', [children]).

def ref_tree(top):
    def node(n):
        if n[0] == "T":
            return ("T", C.uncps(n[1]), C.uncps(n[2]))
        return ("G", [node(c) for c in n[1:]])
    return [node(n) for n in top]


def ref_key(n):
    """canonical text: folded short forms, members sorted (tags first, then groups), recursively"""
    if n[0] == "T":
        return n[2]
    tags = sorted(ref_key(c) for c in n[1] if c[0] == "T")
    groups = sorted(ref_key(c) for c in n[1] if c[0] == "G")
    return "(" + ",".join(tags + groups) + ")"


def ref_dup_count(children):
    """number of repeats a canonical duplicate check reports: per level, (class size - 1) summed over the classes of
    equal canonical keys, plus what is found inside every group"""
    cnt = Counter(ref_key(c) for c in children)
    n = sum(v - 1 for v in cnt.values())
    for c in children:
        if c[0] == "G":
            n += ref_dup_count(c[1])
    return n


def ref_has_dup_groups(children):
    keys = [ref_key(c) for c in children if c[0] == "G"]
    if len(set(keys)) != len(keys):
        return True
    return any(ref_has_dup_groups(c[1]) for c in children if c[0] == "G")


def ref_has_case_variant_tags(children):
    """two sibling tags whose short forms are equal after case folding but not identical"""
    by = {}
    for c in children:
        if c[0] == "T":
            by.setdefault(c[2], set()).add(c[1])
    if any(len(v) > 1 for v in by.values()):
        return True
    return any(ref_has_case_variant_tags(c[1]) for c in children if c[0] == "G")


def ref_def_expand_reordered(s):
    """the annotation has a Def-expand group whose remaining members equal the stored definition contents up to
    recursive member order (finding 21 class)"""
    from hed.models.hed_string import HedString
    try:
        hs = HedString(s, schema(), def_dict=defdict())
    except Exception:  # noqa
        return False
    dd = defdict()

    def key(x):
        from hed.models.hed_tag import HedTag
        if isinstance(x, HedTag):
            return x.short_tag.casefold()
        ks = sorted(key(c) for c in x.children)
        return "(" + ",".join(ks) + ")"
    for tag in hs.get_all_tags():
        if tag.short_base_tag == "Def-expand" and tag._parent is not None and tag._parent is not hs:
            label, _, ph = tag.extension.partition("/")
            entry = dd.defs.get(label.casefold())
            if entry is None:
                continue
            try:
                contents = entry.get_definition(tag.copy(), placeholder_value=ph, return_copy_of_tag=True)
            except Exception:  # noqa
                continue
            if contents is not None and key(contents) == key(tag._parent) and not (contents == tag._parent):
                return True
    return False


def classify(x, y, cx, cy, direct_top):
    """Known-finding class of a metamorphic failure between rewrites x and y (codes cx != cy); None = VIOLATION."""
    a, b = Counter(cx), Counter(cy)
    diff = {k for k in set(a) | set(b) if a[k] != b[k]}
    if any(k.startswith("EXN:") for k in diff):
        return None
    if diff == {REP} and direct_top is not None and not FIXED:
        rt = ref_tree(direct_top)
        if ref_has_case_variant_tags(rt):
            return "C04-F2"
        if ref_has_dup_groups(rt):
            return "C04-F1"
        return None
    if "DEF_EXPAND_INVALID" in diff and (ref_def_expand_reordered(x) or ref_def_expand_reordered(y)):
        return "C04-F3"
    return None


# ---------------------------------------------------------------- generator
# abstract annotation: list of nodes ['T', spec] / ['G', [children]]; spec = index into the vocabulary

PLAIN = ["Red", "Blue", "Green", "Square", "Circle", "Sensory-event", "Agent-action", "Item", "Object", "Event",
         "Visual-presentation", "Press", "Participant-response", "Azure", "Face", "Building"]
VALUED = ["Label/abc", "Label/ABC", "Label/aB", "Label/a_", "Label/ab", "Label/Abc", "Label/x1", "ID/abc", "ID/ABC",
          "Parameter-value/1.5", "Item/Abc", "Item/ABC", "Red-color/Myext", "Red-color/MYEXT", "Age/30"]
TEMPORAL = ["Duration/3 s", "Delay/2 s", "Duration/500 ms", "Onset", "Offset", "Inset", "Def/MyDef", "Def/One",
            "Def/ValDef/3", "Def/ValDef/abc", "Event-context", "Def-expand/MyDef", "Def-expand/One", "Definition/X"]
INVALID = ["Nonsense/x", "Red/Blue", "Event/Myext", "Duration", "Label", "Duration/3 cm", "Def/Nope", "Label/a$b",
           "Def/MyDef/3", "Def-expand/Nope", "Def/ValDef"]
# value / unit letter-case variants (unit symbols are case sensitive, unit names are not): the value is never
# rewritten, so these are different annotations whose verdicts are computed per annotation
HIST_VALUES = {
    "Duration": ["3 s", "3 S", "3 seconds", "3 Seconds", "500 ms", "500 MS"],
    "Delay": ["2 s", "2 S", "2 seconds", "2 SECONDS"],
    "Frequency": ["3 Hz", "3 hz", "3 hertz", "3 HERTZ", "3 kHz", "3 KHZ"],
    "Distance": ["3 m", "3 M", "3 metre", "3 METRE", "3 cm", "3 CM"],
    "Label": ["abc", "ABC", "Abc"],
    "ID": ["abc", "ABC"],
    "Item": ["Abc", "ABC"],
    "Red-color": ["Myext", "MYEXT"],
    "Def": ["MyDef", "mydef", "MYDEF", "One", "ONE"],
}
HISTV = [n + "/" + v for n, vs in HIST_VALUES.items() for v in vs]
# look-alike VALUES: different tags whose values are near-equal numerals / labels (leading and trailing zeros, sign,
# exponent, separator, unit spelling); a key or an equality that normalises values must not confuse them
LOOKALIKE_VALUES = {
    "Duration": ["3.5 s", "3.05 s", "3.50 s", "03.5 s", "+3.5 s", "35e-1 s", "3.5 seconds", "35 s"],
    "Item-count": ["3", "03", "3.0", "30", "+3", "003"],
    "Label": ["Run-7", "Run-07", "Run7", "Run_7", "Run-70", "Run-007"],
    "Parameter-value": ["1.5", "1.50", "01.5", "1.05", "15", "1.5e0"],
    "ID": ["x1", "x01", "x10", "x001"],
    "Age": ["30", "030", "30.0", "3e1"],
    "Frequency": ["10 Hz", "1e1 Hz", "010 Hz", "10.0 Hz", "10 hertz"],
}
LOOKV = [n + "/" + v for n, vs in LOOKALIKE_VALUES.items() for v in vs]
VOCAB = PLAIN + VALUED + TEMPORAL + INVALID + [v for v in HISTV + LOOKV if v not in VALUED + TEMPORAL]
VOCAB = list(dict.fromkeys(VOCAB))


def spellings():
    """vocabulary entry -> (valid spellings: short, every partial path, long; length of the value/extension part);
    tags that do not resolve cleanly are never respelled: (None, None)"""
    if "spell" in _state:
        return _state["spell"]
    from hed.models.hed_tag import HedTag
    out = {}
    for v in VOCAB:
        out[v] = (None, None)
        try:
            t = HedTag(v, schema())
            iss = t._calculate_to_canonical_forms(schema())
            if t._schema_entry and not iss:
                parts = t.base_tag.split("/")
                ext = t._extension_value or ""
                forms = ["/".join(parts[k:]) + ext for k in range(len(parts))]
                if v in forms:
                    out[v] = (forms, len(ext))
        except Exception:  # noqa
            pass
    _state["spell"] = out
    return out


def rand_case(rng, name):
    mode = rng.randint(0, 3)
    if mode == 0:
        return name.upper()
    if mode == 1:
        return name.lower()
    if mode == 2:
        return "".join(c.upper() if rng.random() < 0.5 else c.lower() for c in name)
    return name


def render_tag(rng, v, respell):
    """a valid spelling of vocabulary entry v; the value/extension part is never touched"""
    forms, extlen = spellings().get(v, (None, None))
    if not respell or forms is None:
        return v
    f = rng.choice(forms)
    name, ext = (f[:len(f) - extlen], f[len(f) - extlen:]) if extlen else (f, "")
    if rng.random() < 0.6:
        name = rand_case(rng, name)
    return name + ext


def render(rng, nodes, respell, blanks, chooser=None):
    def sep():
        if not blanks:
            return ","
        return rng.choice(["", " ", "  "]) + "," + rng.choice(["", " ", " ", "  "])

    def one(n):
        if n[0] == "T":
            return chooser(n[1]) if chooser else render_tag(rng, n[1], respell)
        lo = rng.choice(["", " "]) if blanks else ""
        lc = rng.choice(["", " "]) if blanks else ""
        return "(" + lo + body(n[1]) + lc + ")"

    def body(ch):
        out = ""
        for i, c in enumerate(ch):
            if i:
                out += sep()
            out += one(c)
        return out
    pre = rng.choice(["", " "]) if blanks else ""
    return pre + body(nodes) + (rng.choice(["", " "]) if blanks else "")


def shuffle_tree(rng, nodes, p=0.7):
    out = []
    for n in nodes:
        out.append(n if n[0] == "T" else ["G", shuffle_tree(rng, n[1], p)])
    if rng.random() < p:
        rng.shuffle(out)
    return out


def gen_tree(rng, depth, kind):
    def pick():
        x = rng.random()
        if kind == "valid":
            if x < 0.6:
                return rng.choice(PLAIN)
            if x < 0.9:
                return rng.choice(VALUED)
            return rng.choice(TEMPORAL[:3])
        if kind == "temporal":
            if x < 0.45:
                return rng.choice(TEMPORAL)
            if x < 0.8:
                return rng.choice(PLAIN[:6])
            return rng.choice(VALUED)
        if kind == "case":
            if x < 0.7:
                return rng.choice(VALUED[:9] + VALUED[10:14])
            return rng.choice(PLAIN[:5])
        # invalid
        if x < 0.2:
            return rng.choice(INVALID)
        if x < 0.6:
            return rng.choice(PLAIN)
        if x < 0.8:
            return rng.choice(VALUED)
        return rng.choice(TEMPORAL)

    def g(d, top):
        n = rng.randint(1, 4 if top else 3)
        out = []
        for _ in range(n):
            if d > 0 and rng.random() < (0.5 if top else 0.4):
                out.append(["G", g(d - 1, False)])
            else:
                out.append(["T", pick()])
        return out
    return g(depth, True)


def temporal_shapes(rng):
    """structured (mostly valid) temporal groups"""
    ctx = ["G", [["T", rng.choice(PLAIN)], ["T", rng.choice(PLAIN)]]]
    shapes = [
        ["G", [["T", "Def/MyDef"], ["T", "Onset"], ctx]],
        ["G", [["T", "Def/MyDef"], ["T", "Offset"]]],
        ["G", [["T", "Def/One"], ["T", "Inset"], ctx]],
        ["G", [["T", "Duration/3 s"], ctx]],
        ["G", [["T", "Duration/3 s"], ["T", "Delay/2 s"], ctx]],
        ["G", [["T", "Delay/2 s"], ["T", "Def/MyDef"], ["T", "Onset"]]],
        ["G", [["T", "Def/ValDef/3"], ["T", "Onset"]]],
        ["G", [["T", "Event-context"], ["T", rng.choice(PLAIN)]]],
        ["G", [["T", "Def-expand/MyDef"], ["G", [["T", "Red"], ["T", "Blue"]]]]],
        ["G", [["T", "Def-expand/One"], ["G", [["T", "Square"]]]]],
        ["G", [["T", "Def/MyDef"], ["T", "Onset"], ["T", "Offset"]]],
        ["G", [["T", "Duration/3 s"], ["T", rng.choice(PLAIN)], ctx]],
        ["G", [["T", "Duration/3 s"]]],
        ["G", [["G", [["T", "Def-expand/MyDef"], ["G", [["T", "Red"], ["T", "Blue"]]]]], ["T", "Onset"], ctx]],
    ]
    return copy.deepcopy(rng.choice(shapes))


def plant_duplicate(rng, nodes):
    """copy a random node next to itself (anywhere among its siblings), members of the copy reordered;
    returns (new tree, 'T' or 'G')"""
    nodes = copy.deepcopy(nodes)
    levels = []

    def collect(ch):
        levels.append(ch)
        for c in ch:
            if c[0] == "G":
                collect(c[1])
    collect(nodes)
    lvl = rng.choice(levels)
    i = rng.randrange(len(lvl))
    cp = copy.deepcopy(lvl[i])
    if cp[0] == "G":
        cp = ["G", shuffle_tree(rng, cp[1], 0.8)]
    lvl.insert(rng.randint(0, len(lvl)), cp)
    return nodes, cp[0]


def depth_of(nodes):
    return max([0] + [1 + depth_of(n[1]) for n in nodes if n[0] == "G"])


def gen_case(rng, stream):
    kind = stream
    d = rng.choice([0, 1, 1, 2, 2, 3, 3]) if kind != "case" else rng.choice([0, 0, 1, 2])
    tree = gen_tree(rng, d, kind if kind != "planted" else rng.choice(["valid", "valid", "temporal", "case"]))
    if kind in ("temporal", "planted") and rng.random() < 0.6:
        tree.insert(rng.randint(0, len(tree)), temporal_shapes(rng))
    planted = None
    if stream == "planted" or rng.random() < 0.25:
        tree, planted = plant_duplicate(rng, tree)
        if rng.random() < 0.3:
            tree, _ = plant_duplicate(rng, tree)
    base = render(rng, tree, respell=rng.random() < 0.5, blanks=rng.random() < 0.5)
    rewrites = []
    for _ in range(8):
        t2 = tree
        ops = rng.sample(["perm", "spell", "blank"], rng.randint(1, 3))
        if "perm" in ops:
            t2 = shuffle_tree(rng, tree)
        rewrites.append(render(rng, t2, respell="spell" in ops, blanks="blank" in ops))
    return {"base": base, "rewrites": rewrites, "planted": planted, "stream": stream, "depth": depth_of(tree) }


def rand_nest(rng, items, depth):
    """a random bracketing of the given tags: members (tags / sub-groups) containing each item exactly once"""
    items = list(items)
    rng.shuffle(items)
    if depth <= 0 or len(items) == 0:
        return [["T", x] for x in items]
    k = rng.randint(1, len(items))
    cuts = sorted(rng.sample(range(1, len(items)), k - 1)) if k > 1 else []
    chunks = [items[a:b] for a, b in zip([0] + cuts, cuts + [len(items)])]
    out = []
    for ch in chunks:
        if len(ch) == 1 and rng.random() < 0.55:
            out.append(["T", ch[0]])
        else:
            out.append(["G", rand_nest(rng, ch, depth - 1)])
    return out


COLLIDE_TAGS = PLAIN[:9] + ["Label/abc", "Label/ABC", "Label/x1", "ID/abc", "Item/Abc", "Parameter-value/1.5"]


def subst_tag(nodes, old, new):
    return [["T", new if n[1] == old else n[1]] if n[0] == "T" else ["G", subst_tag(n[1], old, new)] for n in nodes]


def near_variant(rng, tags, nd, g=None):
    """a group that is NOT a copy but collides with the family under a coarser notion of equality: other nesting of
    the same tags, one value/tag exchanged, or one member repeated / dropped"""
    x = rng.random()
    tags = list(tags)
    valued = [i for i, v in enumerate(tags) if v.split("/")[0] in LOOKALIKE_VALUES and v in LOOKV]
    if valued and x < 0.75:
        # same name, look-alike value (3.5 / 3.05 / 3.50 / 03.5 ..., Run-7 / Run-07 ...): the group itself with only
        # that value exchanged (members reordered), or another nesting of the same tags
        i = rng.choice(valued)
        nm, old = tags[i].split("/")[0], tags[i]
        tags[i] = nm + "/" + rng.choice([v for v in LOOKALIKE_VALUES[nm] if nm + "/" + v != old])
        if g is not None and rng.random() < 0.65:
            return ["G", shuffle_tree(rng, subst_tag(copy.deepcopy(g[1]), old, tags[i]), 0.6)]
    elif x < 0.65:
        pass
    elif x < 0.8:
        tags[rng.randrange(len(tags))] = rng.choice(COLLIDE_TAGS)
    elif x < 0.9:
        tags.append(rng.choice(tags))
    elif len(tags) > 1:
        tags.pop(rng.randrange(len(tags)))
    return ["G", rand_nest(rng, tags, rng.choice(nd))]


def gen_collide(rng):
    """sibling lists of >= 3 groups with colliding coarse keys: two copies of one group (members reordered,
    respelled when rendered) next to groups with the same flattened tags but another nesting (and other near
    misses), at the top level or one / two levels down.  Whatever the written order and spelling, the copies must be
    reported and the code multiset must not change."""
    wrap = rng.choice([0, 0, 1, 1, 2])
    nd = [d for d in (1, 2, 2, 3) if d <= 3 - wrap]            # keeps the whole annotation at depth <= 4
    tags = rng.sample(COLLIDE_TAGS, rng.randint(1, 4))
    if rng.random() < 0.7:
        # a member with a numeric / label value that has look-alikes
        nm = rng.choice(sorted(LOOKALIKE_VALUES))
        tags[rng.randrange(len(tags))] = nm + "/" + rng.choice(LOOKALIKE_VALUES[nm])
    g = ["G", rand_nest(rng, tags, rng.choice(nd))]
    sibs = [g, ["G", shuffle_tree(rng, copy.deepcopy(g[1]), 0.9)]]
    if rng.random() < 0.2:
        sibs.append(["G", shuffle_tree(rng, copy.deepcopy(g[1]), 0.9)])
    for _ in range(rng.randint(1, 4)):
        sibs.append(near_variant(rng, tags, nd, g))
    for _ in range(rng.randint(0, 2)):
        sibs.append(["T", rng.choice(PLAIN)])
    rng.shuffle(sibs)
    tree = sibs
    for _ in range(wrap):
        tree = [["G", tree]] + [["T", rng.choice(PLAIN[9:])] for _ in range(rng.randint(0, 1))]
        if rng.random() < 0.5:
            tree.append(near_variant(rng, tags, [1]))
        rng.shuffle(tree)
    base = render(rng, tree, respell=rng.random() < 0.4, blanks=rng.random() < 0.3)
    rewrites = []
    for _ in range(8):
        ops = rng.sample(["perm", "perm", "spell", "blank"], rng.randint(1, 3))
        t2 = shuffle_tree(rng, tree, 0.8) if "perm" in ops else tree
        rewrites.append(render(rng, t2, respell="spell" in ops, blanks="blank" in ops))
    return {"base": base, "rewrites": rewrites, "planted": "G", "stream": "collide", "depth": depth_of(tree)}


def gen_twin(rng):
    """A group and a copy of it at ANOTHER depth (same members, mostly in the same written order): decisions that
    belong to a position (top-level tag group or not, in a group or not) must not be taken by content equality."""
    if rng.random() < 0.7:
        x = temporal_shapes(rng)
    else:
        x = ["G", gen_tree(rng, rng.choice([0, 1]), "temporal")]
    cp = copy.deepcopy(x)
    if rng.random() < 0.25:
        cp = ["G", shuffle_tree(rng, cp[1], 0.9)]
    host = ["G", [["T", rng.choice(PLAIN)], cp]]
    if rng.random() < 0.5:
        host[1].reverse()
    if rng.random() < 0.3:
        host = ["G", [host, ["T", rng.choice(PLAIN)]]]
    tree = [x, host] + [["T", rng.choice(PLAIN)] for _ in range(rng.randint(0, 2))]
    if rng.random() < 0.3:
        tree.append(temporal_shapes(rng))
    rng.shuffle(tree)
    base = render(rng, tree, respell=rng.random() < 0.3, blanks=rng.random() < 0.3)
    rewrites = []
    for _ in range(8):
        ops = rng.sample(["perm", "perm", "spell", "blank"], rng.randint(1, 3))
        t2 = shuffle_tree(rng, tree, 0.6) if "perm" in ops else tree
        rewrites.append(render(rng, t2, respell="spell" in ops, blanks="blank" in ops))
    return {"base": base, "rewrites": rewrites, "planted": None, "stream": "twin", "depth": depth_of(tree)}


def _weighted(rng, pairs):
    x = rng.random() * sum(w for _, w in pairs)
    for v, w in pairs:
        x -= w
        if x <= 0:
            return v
    return pairs[-1][0]


DEF_EXPAND_GROUPS = {
    "MyDef": ["G", [["T", "Def-expand/MyDef"], ["G", [["T", "Red"], ["T", "Blue"]]]]],
    "One": ["G", [["T", "Def-expand/One"], ["G", [["T", "Square"]]]]],
}


def gen_tgroup(rng, all_orders=False):
    """Temporal groups assembled from ALL their optional parts, as independent dimensions: marker (Onset / Inset /
    Offset / none) x definition part (Def tag, Def with value, Def-expand group, none, two) x Delay (none, one, two)
    x Duration x inner groups (0, 1, 2) x stray tag.  The rewrites are member ORDERS of that group (all of them
    when all_orders, else up to 12 distinct ones), some also respelled / re-blanked."""
    import itertools
    marker = _weighted(rng, [("Onset", 40), ("Inset", 20), ("Offset", 20), (None, 20)])
    members = []
    if marker:
        members.append(["T", marker])
        if rng.random() < 0.07:
            members.append(["T", rng.choice(["Onset", "Inset", "Offset"])])
        d = _weighted(rng, [("tag", 45), ("val", 12), ("expand", 25), ("none", 6), ("two", 6), ("badval", 6)])
        if d == "tag":
            members.append(["T", rng.choice(["Def/MyDef", "Def/One", "Def/mydef"])])
        elif d == "val":
            members.append(["T", "Def/ValDef/3"])
        elif d == "badval":
            members.append(["T", rng.choice(["Def/ValDef", "Def/MyDef/3", "Def/Nope"])])
        elif d == "expand":
            members.append(copy.deepcopy(DEF_EXPAND_GROUPS[rng.choice(["MyDef", "One"])]))
        elif d == "two":
            members += [["T", "Def/MyDef"], rng.choice([["T", "Def/One"], copy.deepcopy(DEF_EXPAND_GROUPS["One"])])]
    delay = _weighted(rng, [(0, 30 if marker else 45), (1, 60 if marker else 45), (2, 6)])
    for _ in range(delay):
        members.append(["T", rng.choice(["Delay/2 s", "Delay/2 S", "Delay/2 seconds"]) if rng.random() < 0.3 else "Delay/2 s"])
    if (marker is None and (delay == 0 or rng.random() < 0.6)) or (marker and rng.random() < 0.06):
        members.append(["T", rng.choice(["Duration/3 s", "Duration/500 ms"])])
    for _ in range(_weighted(rng, [(0, 25), (1, 60), (2, 15)])):
        members.append(["G", gen_tree(rng, rng.choice([0, 0, 1]), "valid")])
    if rng.random() < 0.12:
        members.append(["T", rng.choice(PLAIN)])
    if len(members) > 6:
        members = members[:6]
    rng.shuffle(members)
    grp = ["G", members]
    others = [["T", rng.choice(PLAIN)] for _ in range(rng.randint(0, 2))]
    if rng.random() < 0.25:
        others.append(["G", gen_tree(rng, 1, "valid")])
    nested = rng.random() < 0.1

    def build(ms, shuffle_rest):
        g = ["G", list(ms)]
        tree = ([["G", [["T", "Building"], g]]] if nested else [g]) + copy.deepcopy(others)
        if shuffle_rest:
            rng.shuffle(tree)
        return tree
    base_tree = build(members, True)
    base = render(rng, base_tree, respell=rng.random() < 0.3, blanks=rng.random() < 0.3)
    n = len(members)
    if all_orders or n <= 3:
        orders = list(itertools.permutations(range(n)))
        if len(orders) > 120:
            orders = rng.sample(orders, 120)
    else:
        orders = list({tuple(rng.sample(range(n), n)) for _ in range(16)})[:12]
    rewrites = []
    for k, o in enumerate(orders):
        ms = [members[i] for i in o]
        fancy = k % 4 == 3
        rewrites.append(render(rng, build(ms, fancy), respell=fancy and rng.random() < 0.7, blanks=fancy and rng.random() < 0.5))
    return {"base": base, "rewrites": rewrites, "planted": None, "stream": "tgroup", "depth": depth_of(base_tree)}


def gen_history(rng):
    """A sequence of annotations for ONE schema object.  Value-taking tags recur in the same path spelling (short,
    partial or full path; the letter case of the NAME varies) with values / units that differ in letter case only,
    in random order; every step also has respelled / reordered / re-blanked rewrites.  Expected verdict of every
    text = verdict of its step's annotation on a schema object without history."""
    names = rng.sample(sorted(HIST_VALUES), rng.randint(1, 3))
    sp = spellings()
    pref = {}
    for nm in names:
        forms, _ = sp[nm + "/" + HIST_VALUES[nm][0]]
        pref[nm] = rng.randrange(len(forms)) if forms else 0

    def chooser_for(fixed):
        def choose(v):
            forms, extlen = sp.get(v, (None, None))
            if forms is None:
                return v
            nm = v.split("/")[0]
            if fixed and nm in pref and rng.random() < 0.8:
                f = forms[pref[nm]]
            else:
                f = rng.choice(forms)
            name, ext = (f[:len(f) - extlen], f[len(f) - extlen:]) if extlen else (f, "")
            if rng.random() < 0.5:
                name = rand_case(rng, name)
            return name + ext
        return choose

    steps = []
    for _ in range(rng.randint(4, 8)):
        tree = []
        for nm in rng.sample(names, rng.randint(1, len(names))):
            v = nm + "/" + rng.choice(HIST_VALUES[nm])
            if nm in ("Duration", "Delay"):
                tree.append(["G", [["T", v], ["G", [["T", rng.choice(PLAIN[:5])]]]]])
            elif rng.random() < 0.4:
                tree.append(["G", [["T", v], ["T", rng.choice(PLAIN[:5])]]])
            else:
                tree.append(["T", v])
        if rng.random() < 0.6:
            tree.append(["T", rng.choice(PLAIN[:8])])
        rng.shuffle(tree)
        base = render(rng, tree, True, rng.random() < 0.3, chooser=chooser_for(True))
        rewrites = []
        for k in range(2):
            t2 = shuffle_tree(rng, tree, 0.6) if rng.random() < 0.5 else tree
            rewrites.append(render(rng, t2, True, rng.random() < 0.4, chooser=chooser_for(k == 0)))
        steps.append({"base": base, "rewrites": rewrites})
    return {"stream": "history", "steps": steps, "base": steps[0]["base"], "rewrites": [], "planted": None,
            "depth": 2, "ntexts": sum(1 + len(s["rewrites"]) for s in steps)}


MALFORMED = ["Red,,Blue", "Red,", ",Red", "(Red", "Red)", "Red (Blue)", "(Red)(Blue)", "Red~Blue", "Red,[Blue", "()",
             "(),()", "(()),(())", "((),Red),((),Red)", "Red,()", "(Red,(Blue,()))", "Red//Blue", "/Red", "Red/",
             "Red, {col}", "(Red,Blue))", "((Red,Blue)", "Red,  ,Blue", "a1:Red", "xx:Red,Red", "Label/#", "Re$d, Red",
             "", " ", "Red Blue,Red Blue", "(Red,Blue),(Red,Blue", "n/a"]


def reblank_text(rng, s):
    """add / remove blanks around commas and parentheses of an arbitrary text"""
    toks = re.split(r"([,()])", s)
    out = ""
    for t in toks:
        if t in (",", "(", ")"):
            out += rng.choice(["", " ", "  "]) + t + rng.choice(["", " ", "  "])
        else:
            out += t.strip(" ")
    return out


def gen_malformed(rng):
    if rng.random() < 0.5:
        s = rng.choice(MALFORMED)
    else:
        parts = []
        for _ in range(rng.randint(1, 6)):
            parts.append(rng.choice(["Red", "Blue", "(", ")", ",", ",", "()", "Label/abc", "(Red,Blue)", "~", "Green"]))
            if rng.random() < 0.6:
                parts.append(",")
        s = "".join(parts)
    return {"base": s, "rewrites": [reblank_text(rng, s) for _ in range(4)], "planted": None, "stream": "malformed",
            "depth": 0}


CORPUS = [
    # C04-F1 (finding 2): duplicate groups separated in the unsorted-text order / member order
    {"base": "(Red,Blue),(Green),(Blue,Red)", "rewrites": ["(Red,Blue),(Blue,Red),(Green)", "(Red,Blue),(Green),(Red,Blue)"],
     "planted": "G", "stream": "corpus", "depth": 1},
    {"base": "((Red,Blue),Green),(Azure),(Green,(Blue,Red))", "rewrites": ["(Azure),((Red,Blue),Green),((Red,Blue),Green)"],
     "planted": "G", "stream": "corpus", "depth": 2},
    # C04-F2 (finding 3): spelling + value case
    {"base": "Label/abc, Property/Informational-property/Label/ABC", "rewrites": ["Label/abc, Label/ABC", "Label/ABC,Label/abc"],
     "planted": None, "stream": "corpus", "depth": 0},
    # C04-F2: the count depends on sibling order
    {"base": "Label/ABC, Informational-property/Label/ABC, Label/abc",
     "rewrites": ["Informational-property/Label/ABC, Label/ABC, Label/abc"], "planted": "T", "stream": "corpus", "depth": 0},
    # C04-F2: case variants separated by a tag that sorts between them
    {"base": "Label/aB, Label/a_, Label/ab", "rewrites": ["Label/aB, Label/ab, Label/a_"], "planted": None,
     "stream": "corpus", "depth": 0},
    # C04-F3 (finding 21): Def-expand contents compared in member order
    {"base": "(Def-expand/MyDef,(Blue,Red))", "rewrites": ["(Def-expand/MyDef,(Red,Blue))", "((Blue,Red),Def-expand/MyDef)"],
     "planted": None, "stream": "corpus", "depth": 2},
    # regression: plain invariance
    {"base": "Red,Blue,Red", "rewrites": ["Red , Red,Blue", "RED,blue,Red-color/Red"], "planted": "T", "stream": "corpus", "depth": 0},
    {"base": "(Duration/3 s, Delay/2 s, (Red))", "rewrites": ["( Delay/2 s,(Red),Duration/3 s )"], "planted": None,
     "stream": "corpus", "depth": 2},
    {"base": "(Def/MyDef, Onset, Offset)", "rewrites": ["(Offset, Def/MyDef, Onset)", "(Onset,Offset,Def/MyDef)"],
     "planted": None, "stream": "corpus", "depth": 1},
    {"base": "(Red,(Def/MyDef,Onset))", "rewrites": ["((Onset,Def/MyDef),Red)"], "planted": None, "stream": "corpus", "depth": 2},
    {"base": "Def-expand/MyDef, Red", "rewrites": ["Red,Def-expand/MyDef"], "planted": None, "stream": "corpus", "depth": 0},
    {"base": "(Event-context, Red), (Blue, Event-context)", "rewrites": ["(Blue,Event-context),(Red,Event-context)"],
     "planted": None, "stream": "corpus", "depth": 1},
    {"base": "(),()", "rewrites": ["( ) , ( )"], "planted": None, "stream": "malformed", "depth": 1},
    # regression: siblings with the same flattened tags but different nesting between two copies (a sort key that
    # forgets nesting separates the copies; Props/C04.v C04_dup_invariant_refuted_flat_key)
    {"base": "(Blue,(Red)),((Red,Blue)),((Red),Blue)", "rewrites": ["(Blue,(Red)),((Red,Blue)),(Blue,(Red))"],
     "planted": "G", "stream": "collide", "depth": 2},
    {"base": "(Green,(Blue,(Red))),(Green,((Red,Blue))),(Green,((Red),Blue))",
     "rewrites": ["((Blue,(Red)),Green),(Green,((Red,Blue))),((Blue,(Red)),Green)"], "planted": "G", "stream": "collide", "depth": 3},
    {"base": "(Label/A,(Red)),(Label/A,Red),(Label/a,(Red))", "rewrites": ["(Label/A,(Red)),(Label/a,(Red)),(Label/A,Red)"],
     "planted": "G", "stream": "collide", "depth": 2},
    # regression: a look-alike VALUE (leading zero) between two differently written copies
    {"base": "((Red), Duration/3.5 s), (Duration/3.05 s, (Red)), (Duration/3.5 s, (Red))",
     "rewrites": ["(Duration/3.5 s, (Red)), (Duration/3.05 s, (Red)), (Duration/3.5 s, (Red))",
                  "(Red, Item-count/3), (Item-count/03, Red), (Item-count/3, Red)"][:1],
     "planted": "G", "stream": "collide", "depth": 2},
    # regression: a misplaced (nested) top-level tag group with a twin at the top level written in the same order
    {"base": "(Duration/3 s, (Red)), (Blue, (Duration/3 s, (Red)))",
     "rewrites": ["(Duration/3 s, (Red)), (Blue, ((Red), Duration/3 s))", "((Red), Duration/3 s), (Blue, (Duration/3 s, (Red)))"],
     "planted": None, "stream": "twin", "depth": 3},
    # regression: one schema object sees the same path spelling with values that differ in letter case only
    {"stream": "history", "base": "(Temporal-value/Duration/3 S, (Red))", "rewrites": [], "planted": None, "depth": 2,
     "ntexts": 7, "steps": [
         {"base": "(Temporal-value/Duration/3 S, (Red))", "rewrites": ["(Duration/3 S, (Red))"]},
         {"base": "Rate-of-change/Frequency/3 Hz, Blue", "rewrites": []},
         {"base": "(Temporal-value/Duration/3 s, (Red-color/Red))", "rewrites": ["(Duration/3 s, (Red))"]},
         {"base": "Rate-of-change/Frequency/3 hz, Blue", "rewrites": ["Frequency/3 hz, Blue"]}]},
]


# ---------------------------------------------------------------- oracle + correspondence

def nontrivial(case):
    s = case["base"]
    return ("(" in s or s.count(",") >= 1)


def raised(codes):
    return any(c.startswith("EXN:") for c in codes)


def oracle_history(case, r, res, counts):
    """The verdict of an annotation is a function of the annotation: whatever the schema object has seen before, it
    must equal the verdict of a schema object without history (and so must the verdict of every rewrite)."""
    seq = []
    for st, fresh, hist in zip(case["steps"], r["fresh"], r["hist"]):
        for y, cy in hist:
            seq.append(y)
            counts["history_texts"] += 1
            if raised(cy):
                counts["raises"] += 1
                res.report("never-raises", {"text": y, "sequence": list(seq), "crash": True}, f"validate({y!r}) raised {cy}")
            if cy != fresh:
                counts["history_failures"] += 1
                res.report("verdict-depends-on-history-or-spelling",
                           {"sequence": list(seq), "text": y, "annotation": st["base"]},
                           f"after {len(seq) - 1} earlier annotations on the same schema object codes({y!r})={cy}; "
                           f"codes({st['base']!r}) on a schema object without history={fresh}")


def oracle(case, r, res, counts):
    """Implementation-side oracle: the metamorphic relation of the statement on the full validator, and the
    completeness clause for planted duplicates."""
    if case.get("stream") == "history":
        return oracle_history(case, r, res, counts)
    x, cx = r["base"], r["full"]
    top = r["direct"].get("top")
    seq = r.get("prefix", []) + [x]
    # an exception inside validation is a violation of its own (never an outcome that may compare equal)
    if raised(cx):
        counts["raises"] += 1
        res.report("never-raises", {"text": x, "sequence": list(seq), "crash": True}, f"validate({x!r}) raised {cx}")
    for y, cy in r["rewrites"]:
        counts["pairs"] += 1
        seq.append(y)
        if raised(cy):
            counts["raises"] += 1
            res.report("never-raises", {"text": y, "sequence": list(seq), "crash": True}, f"validate({y!r}) raised {cy}")
        if cx != cy:
            fid = classify(x, y, cx, cy, top)
            counts["diff_" + str(fid)] += 1
            # "sequence": everything the case's schema object validated up to and including the rewrite
            res.report("rewrite-changes-error-codes", {"text": x, "rewrite": y, "sequence": list(seq)},
                       f"codes({x!r})={cx} codes({y!r})={cy}", fid=fid)
    if case.get("planted") and r.get("basic_ok"):
        counts["planted_checked"] += 1
        if REP not in cx:
            fid = None
            if case["planted"] == "G" and not FIXED and top is not None and ref_has_dup_groups(ref_tree(top)):
                fid = "C04-F1"
            counts["planted_missed_" + str(fid)] += 1
            res.report("planted-duplicate-not-reported", {"text": x, "planted": case["planted"]},
                       f"codes={cx}", fid=fid)


def wf_top(top):
    for n in top:
        if n[0] == "T":
            if not n[2] or any(c in (40, 41, 44) for c in n[2]):
                return False
        elif not wf_top(n[1:]):
            return False
    return True


def tags_consistent(top):
    """hypothesis of C04_onset_invariant_order: a tag is found as temporal key by its case-folded short_base_tag
    exactly when its short_base_tag is Onset / Offset / Inset (ids 2..4), and then both ids agree"""
    for n in top:
        if n[0] == "T":
            b, bf = n[6], n[7]
            if (bf in (2, 3, 4)) != (b in (2, 3, 4)) or (bf in (2, 3, 4) and b != bf):
                return False
        elif not tags_consistent(n[1:]):
            return False
    return True


def sx_tree(top):
    def node(n):
        if n[0] == "T":
            return ["T", n[1], n[2], n[3], n[4], n[5], n[6], n[7], n[8], n[9], n[10]]
        return ["G"] + [node(c) for c in n[1:]]
    return [node(n) for n in top]


def correspond(cases_direct, res, counts):
    """model (extracted) vs direct calls of the anchored functions"""
    exe = C.build_driver("c04")
    table = kind_code_table()
    todo = [d for d in cases_direct if "skip" not in d]
    lines = [C.to_sx([FIXED, d["nreq"], d["nuniq"], sx_tree(d["top"])]) for d in todo]
    outs = C.run_driver(exe, lines)
    dis = 0
    for d, m in zip(todo, outs):
        counts["corr"] += 1
        if d["whole"][0] == "ok":
            for k in d["whole"][1] + (d["onset"][1] if d["onset"][0] == "ok" else []):
                counts["kind_" + k] += 1
        else:
            counts["kind_raises_" + d["whole"][1]] += 1
        diffs = []
        if m[0] == "ERR":
            diffs.append(f"driver {m}")
        else:
            def mres(x):
                return ["ok", list(x[1:])] if x[0] == "ok" else ["exn", x[1]]
            pairs = [("alltags", ["ok", list(m[0])]), ("taglevel", mres(m[1])), ("dups", mres(m[2])),
                     ("duration", ["ok", list(m[3])]), ("whole", mres(m[4])), ("onset", ["ok", list(m[6])])]
            for name, mv in pairs:
                iv = d[name]
                # multisets: the order in which issues are emitted is not part of the property
                if iv[0] != mv[0] or (iv[0] == "ok" and sorted(iv[1]) != sorted(mv[1])) or \
                        (iv[0] == "exn" and iv[1] != mv[1]):
                    diffs.append(f"{name}: impl={iv[:2]} model={mv}")
            # published codes through the translated table
            if d["whole"][0] == "ok" and m[5][0] == "ok":
                mcodes = [CODE_NAMES.get(int(c), "?") for c in m[5][1:]]
                if sorted(mcodes) != sorted(d["whole"][2]):
                    diffs.append(f"codes: impl={d['whole'][2]} model={mcodes}")
                if [table.get(k) for k in d["whole"][1]] != d["whole"][2]:
                    diffs.append("translated kind->code table disagrees with the issue dicts")
            if not tags_consistent(d["top"]):
                diffs.append("consistency hypothesis (short_base_tag and its case-folded form agree on the temporal keys) violated")
            if not wf_top(d["top"]):
                diffs.append("well-formedness hypothesis (non-empty, delimiter-free folded short form) violated")
        if diffs:
            dis += 1
            res.violation("correspondence", {"text": d["s"]}, "; ".join(diffs)[:1500], no_input=True)
        # reference (python) vs model on the repaired semantics is checked in fixed mode only
        if FIXED and m[0] != "ERR" and m[2][0] == "ok":
            if len(m[2]) - 1 != ref_dup_count(ref_tree(d["top"])):
                dis += 1
                res.violation("correspondence", {"text": d["s"]}, "model dup count != canonical reference", no_input=True)
    return dis


def run(tier, seed, res, model_ok=True, proof_ok=True):
    rng = random.Random(seed)
    n = {"quick": 200, "thorough": 4200}[tier]
    if not proof_ok:
        n *= 3
    cases = copy.deepcopy(CORPUS)
    streams = ["valid"] * 3 + ["temporal"] * 3 + ["case"] * 2 + ["invalid"] * 2 + ["planted"] * 3
    for i in range(n * len(streams)):
        cases.append(gen_case(rng, streams[i % len(streams)]))
    for _ in range(n * 2):
        cases.append(gen_collide(rng))
    for _ in range(n * 2):
        cases.append(gen_twin(rng))
    spellings()
    for _ in range(n * 2 if tier == "quick" else n):
        cases.append(gen_tgroup(rng, all_orders=(tier != "quick")))
    spellings()  # needed by the history generator
    for _ in range(n // 3):
        cases.append(gen_history(rng))
    for _ in range(n * 2):
        cases.append(gen_malformed(rng))
    spellings()  # build before forking
    _schema_bytes()
    for i, c in enumerate(cases):
        c["idx"] = i

    with Pool(int(C.JOBS)) as pool:
        out = pool.map(impl_case, cases, chunksize=20)

    counts = Counter()
    for case, r in zip(cases, out):
        oracle(case, r, res, counts)

    dis = 0
    if model_ok:
        dis = correspond([r["direct"] for r in out if "direct" in r] +
                         [d for r in out for d in r.get("direct_rw", [])], res, counts)

    hist = Counter(c["stream"] for c in cases)
    dhist = Counter("depth%d" % c["depth"] for c in cases)
    distinct = len({c["base"] for c in cases if nontrivial(c)})
    evals = sum(c.get("ntexts", 0) + len(c.get("steps", [])) if c["stream"] == "history" else 1 + len(c["rewrites"])
                for c in cases)
    return {
        "evaluations": evals,
        "distinct_nontrivial": distinct,
        "rule": "corpus (refuted witnesses, regressions) + generated annotations over real 8.3.0 tags in five streams "
                "(valid / temporal+Def / case-variant values / invalid tags / planted duplicates, depth <= 4, each with 8 "
                "rewrites: sibling permutation at any level, respelling by short/partial/long path and random case of the "
                "tag name, re-blanking) + a collision stream (two copies of a group written in different member order / "
                "spelling among >= 3 sibling groups that share the flattened tags but differ in nesting, or differ in one "
                "member, or in one VALUE that is a look-alike numeral / label (leading or trailing zeros, sign, exponent, "
                "separator, unit spelling), at depth 1-3; direct-call correspondence also on 3 rewrites each) + a twin stream (a top-level tag "
                "group and a copy of it nested at another depth) + a temporal-group stream (marker x Def tag / Def with value / Def-expand group x "
                "Delay x Duration x 0-2 inner groups x stray tag, rewritten in up to 12 member orders -- all orders in the "
                "thorough tier) + a history stream (4-8 annotations and their rewrites "
                "validated one after the other with ONE schema object, value-taking tags recurring in the same path "
                "spelling with values/units differing in letter case; each verdict compared with a schema object "
                "without history) + a malformed-text stream with re-blanking only; a schema object serves 5 consecutive cases and what it validated before is part of a "
                "failure's replay; non-trivial = the base has a group or at least two members",
        "samples": [cases[0]["base"], cases[len(CORPUS) + 1]["base"], cases[len(CORPUS) + 12]["rewrites"][0], cases[-1]["base"]],
        "exhaustive": False,
        "disagreements_checked": dis,
        "correspondence_cases": counts["corr"] if model_ok else 0,
        "histogram": {"streams": dict(hist), "depth": dict(dhist), "rewrite_pairs": counts["pairs"],
                      "history_texts": counts["history_texts"], "history_failures": counts["history_failures"],
                      "validations_that_raised": counts["raises"],
                      "planted_checked": counts["planted_checked"],
                      "metamorphic_failures_by_class": {k[5:]: v for k, v in counts.items() if k.startswith("diff_")},
                      "kinds_seen_in_direct_calls": {k[5:]: v for k, v in counts.items() if k.startswith("kind_")},
                      "planted_missed_by_class": {k[15:]: v for k, v in counts.items() if k.startswith("planted_missed_")}},
        "fixed_semantics": FIXED,
    }


def replay(payload):
    case = payload.get("case") or {}
    x = case.get("text")
    if x is None:
        print("no concrete input in replay:", str(payload.get("detail", ""))[:500])
        return 1
    if case.get("crash"):
        new_session()
        got = None
        for y in case.get("sequence") or [x]:
            got = impl_full(y)
        print("codes(%r) = %s" % (x, got))
        if raised(got):
            print("FAILS: never-raises")
            return 1
        return 0
    if "annotation" in case and "sequence" in case:
        # history case: the sequence on one new schema object, the annotation on another one
        new_session()
        want = impl_full(case["annotation"])
        new_session()
        got = None
        for y in case["sequence"]:
            got = impl_full(y)
            print("codes(%r) = %s" % (y, got))
        print("without history: codes(%r) = %s" % (case["annotation"], want))
        if got != want:
            print("FAILS: verdict-depends-on-history-or-spelling")
            return 1
        return 0
    new_session()
    if "sequence" in case and "rewrite" in case:
        # the case as it ran: base, then its rewrites up to the failing one, on one new schema object
        got = [(y, impl_full(y)) for y in case["sequence"]]
        first = [g for g in got if g[0] == x][-1] if any(g[0] == x for g in got) else got[0]
        for y, cy in (first, got[-1]):
            print("codes(%r) = %s" % (y, cy))
        if first[1] != got[-1][1]:
            d = impl_direct(x)
            fid = classify(x, got[-1][0], first[1], got[-1][1], d.get("top"))
            print("FAILS: rewrite-changes-error-codes", "(known class %s)" % fid if fid else "")
            return 1
        return 0
    cx = impl_full(x)
    print("codes(%r) = %s" % (x, cx))
    rc = 0
    if "rewrite" in case:
        y = case["rewrite"]
        cy = impl_full(y)
        print("codes(%r) = %s" % (y, cy))
        if cx != cy:
            d = impl_direct(x)
            fid = classify(x, y, cx, cy, d.get("top"))
            print("FAILS: rewrite-changes-error-codes", "(known class %s)" % fid if fid else "")
            rc = 1
    if "planted" in case and REP not in cx and impl_basic_ok(x):
        print("FAILS: planted-duplicate-not-reported")
        rc = 1
    if any(c.startswith("EXN:") for c in cx):
        print("FAILS: validate-raises")
        rc = 1
    return rc
