"""C12 -- Every reported issue is well-formed and points at the offending text."""
import io
import json
import os
import random
import re
import shutil
from collections import Counter
from multiprocessing import Pool

from harness import common as C
from harness import c12_translate as T

PROP = "C12"
COQ_TARGETS = ["Props/C12.vo", "Extract/ExtractC12.vo"]
DRIVERS = ["c12"]

# Mirrors of the Coq switches (cross-checked against the extracted model on every run).
# FIXED = Model/Issues.v [code_is_fixed]: True = the code as it is in /repo since fix commit 5312cdc
#   (ErrorHandler._update_error_with_char_pos returns early when 'char_index' is present; finding C12-F1 repaired).
#   False reproduces the behaviour before that commit (only for re-establishing the record on a reverted copy).
FIXED = True
# SORT_EARLY = Model/IssuePaths.v [code_sorts_early]: True = the code as it is in /repo since fix commit 8c0dae9
#   (SidecarValidator.validate sorts also on its early return; finding C12-F2 repaired).
SORT_EARLY = True

TRUSTED = [
    "Model/Issues.v is a hand transcription of hed/errors/error_reporter.py (hed_error/hed_tag_error wrappers, "
    "format_error, _create_error_object, _add_context_to_errors, _get_tag_span_to_error_object, "
    "_update_error_with_char_pos, add_context_and_filter, format_error_with_context, filter_issues_by_severity, "
    "check_for_any_errors, sort_issues, replace_tag_references, push/pop_error_context), "
    "HedString._get_org_span/_get_org_span_from_strings and the call path of HedValidator.validate; tied by the "
    "correspondence run (codes, severities, indices, char offsets, suffix copies, context entries, sort "
    "permutations, export type shapes)",
    "Gen/ErrorCodes.v (kind table, severities, context key names, default_sort_list/int_sort_list) is produced by "
    "harness/c12_translate.py from the sources with ast (fail closed) and cross-checked against the runtime "
    "registry hed.errors.error_reporter.error_functions on every run",
    "message texts are modelled structurally (quoted tag text, quoted fragment, list of appended location "
    "suffixes), not rendered; run_basic_checks/run_full_string_checks outputs are universally quantified inputs "
    "of the model (their content is the subject of C01)",
    "CPython sorted() is a stable sort and compares key tuples lexicographically (modelled by a stable insertion "
    "sort); json.dumps accepts bool/int/float/str/None/list/dict with str keys",
    "HedTag.span / org_tag being the slice of the source text is C02's theorem; here it is a hypothesis "
    "(tag_is_slice) and re-checked on every implementation issue by the oracle",
]
ASSUMPTIONS = [
    "theorems are about the model; unbounded over all issue lists, handlers, contexts, strings and tags",
    "the code as it is = /repo HEAD with fix commits 5312cdc (C12-F1), 8c0dae9 (C12-F2), 2e53521 (sort key): "
    "C12_suffix_once_current / C12_sidecar_output_sorted_current are stated for the switches code_is_fixed / "
    "code_sorts_early (both true, mirrored by FIXED / SORT_EARLY and cross-checked each run); "
    "C12_suffix_once_refuted, C12_suffix_before_fix_shape and C12_sidecar_early_return_unsorted_refuted are records "
    "of the behaviour BEFORE those commits (fixed=false / sort_early=false), re-established by reverting the "
    "commits in a private copy; C12_table_errors_only_nonempty_gate_refuted and C12_combos_accum_refuted concern "
    "hypothetical variants (seeded changes) that were never in /repo",
    "clause 'has a message': the 'message' field is present by construction of the model (total field); "
    "C12_message_nonempty is a fact about the translated table kind_msg_min (literal-text length of every message "
    "function > 0, kernel-evaluated) and is NOT linked in Coq to the i_msg field of an issue -- that every issue's "
    "message is non-empty rests on the translator (trusted, fail closed) plus the implementation-side oracle "
    "(non-empty str checked on every returned issue; testing); the rendered text is not modelled",
    "C12_offsets_inside / C12_*_offsets_inside assume the span facts s<=e<=|text| and idx bounds of the tags named by "
    "raw issues; for tags of a parsed string these are C02's theorems (linked by C12_parsed_tag_is_slice over C02's "
    "spec_parse where proved), the tag-relative index bounds are C01's subject and re-checked by the oracle",
    "C12_validate_errors_only needs severities in {ERROR, WARNING} (guaranteed by the translated table; a "
    "caller-supplied override in between is refuted)",
    "sidecar / table entry points: Model/IssuePaths.v transcribes the decoration call paths (context stack, "
    "add_context_and_filter / format_error_with_context calls, the gates that depend on issue lists, the final sort) "
    "as functions of abstract per-string results; theorems hold for all such inputs.  The tie: the implementation is "
    "run under a call recorder (ErrorHandler methods and phase boundaries wrapped inside the harness process), the "
    "abstract input is rebuilt from the log and the extracted model must reproduce the decorated, sorted output for "
    "warnings on and off (fail closed on call sequences the input cannot express)",
    "the dataset entry point (BidsDataset.validate) is checked by the implementation-side oracle only (testing)",
    "C12_sidecar_errors_only needs the definition issues (appended without passing the handler's filter) to be errors; "
    "C12_table_errors_only_gen needs the row gate to give the same verdict on a list and its error subset "
    "(check_for_any_errors does; 'non-empty' does not: refuted)",
    "C12_sidecar_output_sorted_current: sorted on every path for the code as it is (fix commit 8c0dae9); the "
    "unsorted early return is kept as the record C12_sidecar_early_return_unsorted_refuted (sort_early=false)",
    "sort key (fix commit 2e53521): int keys raw with default -1, other keys (0, text) / (1, number): the translator "
    "compares the source of sort_issues._get_keys with the modelled shape (fail closed); numeric column labels are "
    "covered by C12_sort_total_on_typed (non-int keys may hold text or numbers), C12_text_label_before_number, "
    "C12_numeric_labels_sorted, synthetic sort lists with numeric ec_column values and headerless spreadsheets",
]

SUFFIX_RE = re.compile(r"^(.*)  Problem spans string indexes: (-?\d+), (-?\d+)$", re.S)
CKEYS = {"ec_title": "title", "ec_filename": "file", "ec_sidecarColumnName": "scol", "ec_sidecarKeyName": "skey",
         "ec_row": "row", "ec_column": "col", "ec_line": "line", "ec_HedString": "hed", "ec_section": "sec",
         "ec_schema_tag": "stag", "ec_attribute": "attr"}
DOC_SORT = ["ec_title", "ec_filename", "ec_sidecarColumnName", "ec_sidecarKeyName", "ec_row"]  # documented prefix

_state = {}


def translate():
    T.translate()


# =========================================================================== implementation side

def st():
    if not _state:
        from hed.schema import load_schema
        from hed.models.definition_dict import DefinitionDict
        sch = load_schema(os.path.join(C.REPO, "hed/schema/schema_data/HED8.3.0.xml"))
        _state["schema"] = sch
        _state["defs"] = DefinitionDict(["(Definition/MyDef,(Red,Blue))", "(Definition/ValDef/#,(Label/#))"], sch)
        consts, rows, lists = T.tables()
        _state["rows"] = rows
        _state["sort_list"] = [consts[("ErrorContext", a)] for a in lists["default_sort_list"]]
        _state["int_list"] = [consts[("ErrorContext", a)] for a in lists["int_sort_list"]]
        by_code = {}
        for r in rows:
            by_code.setdefault((r["code"], r["sub"], r["tag"]), []).append(r)
        _state["by_code"] = by_code
    return _state


def as_int(v):
    """python int for int-like context values (numpy integers included), else None."""
    if isinstance(v, bool):
        return None
    if isinstance(v, int):
        return int(v)
    if hasattr(v, "item") and not isinstance(v, str):
        try:
            iv = v.item()
            if isinstance(iv, int) and not isinstance(iv, bool):
                return iv
        except Exception:  # noqa
            return None
    return None


def split_suffixes(msg):
    out = []
    while True:
        m = SUFFIX_RE.match(msg)
        if not m:
            break
        out.append((int(m.group(2)), int(m.group(3))))
        msg = m.group(1)
    out.reverse()
    return msg, out


def node_ids(hs):
    """identity -> index, in the order HedGroup.check_if_in_original builds its list."""
    from hed.models.hed_group import HedGroup
    ids = {}
    todo = [hs]
    while todo:
        cur = todo.pop(0)
        if isinstance(cur, HedGroup):
            todo = list(cur._original_children) + todo
        ids[id(cur)] = len(ids)
    return ids


def enc_hstr(hs, base=0):
    """(sx, ids) for a HedString (parts of a from_hed_strings string get disjoint id ranges)."""
    ids = {}
    parts_sx = []
    if hs._from_strings:
        nxt = 1000
        for p in hs._from_strings:
            pid = node_ids(p)
            pm = {k: v + nxt for k, v in pid.items()}
            nxt += 1000
            ids.update(pm)
            parts_sx.append(["H", C.cps(p._hed_string), sorted(pm.values()), []])
    own = node_ids(hs)
    for k, v in own.items():
        ids.setdefault(k, v)
    own_ids = sorted({ids[k] for k in own})
    return ["H", C.cps(hs.get_original_hed_string()), own_ids, parts_sx], ids


def enc_src(issue, ids, fresh):
    from hed.models.hed_tag import HedTag
    from hed.models.hed_group import HedGroup
    if "source_tag" not in issue:
        return "N"
    t = issue["source_tag"]
    if isinstance(t, HedTag):
        i = ids.get(id(t))
        if i is None:
            i = fresh[0]
            fresh[0] += 1
        return ["T", i, t.span[0], t.span[1], C.cps(t.tag), C.cps(t.org_tag), bool(t._tag)]
    if isinstance(t, HedGroup):
        i = ids.get(id(t))
        if i is None:
            i = fresh[0]
            fresh[0] += 1
        return ["G", i, t.span[0], t.span[1], bool(t), C.cps(str(t)), C.cps(t.get_original_hed_string())]
    if isinstance(t, bool):
        return ["S", C.cps(str(t))]
    if isinstance(t, int):
        return "I"
    return ["S", C.cps(str(t))]


def enc_ctxval(v, hmap):
    from hed.models.hed_string import HedString
    if isinstance(v, HedString):
        return ["h", hmap[id(v)]]
    if as_int(v) is not None:
        return ["i", as_int(v)]
    return ["s", C.cps(str(v))]


def enc_issue(issue, ids, hmap, fresh, sev=None):
    """Model input encoding of an implementation issue dict (raw or decorated)."""
    base, sufs = split_suffixes(issue["message"])
    ctx = [[CKEYS[k], enc_ctxval(v, hmap)] for k, v in issue.items() if k in CKEYS]
    ch = [issue["char_index"], issue["char_index_end"]] if "char_index" in issue else "N"
    return [C.cps(issue["code"]), issue["severity"] if sev is None else sev,
            issue.get("index_in_tag", "N"), issue.get("index_in_tag_end", "N"),
            enc_src(issue, ids, fresh), ctx, ch, [[a, b] for a, b in sufs], "N", "N"]


def canon_issue(issue):
    """What is compared with the model for one implementation issue."""
    from hed.models.hed_string import HedString
    from hed.models.hed_tag import HedTag
    from hed.models.hed_group import HedGroup
    base, sufs = split_suffixes(issue["message"])
    ctx = []
    for k, v in issue.items():
        if k in CKEYS:
            if isinstance(v, HedString):
                ctx.append([CKEYS[k], ["h", len(v.get_original_hed_string())]])
            elif as_int(v) is not None:
                ctx.append([CKEYS[k], ["i", as_int(v)]])
            else:
                ctx.append([CKEYS[k], ["s", str(v)]])
    t = issue.get("source_tag", None)
    if "source_tag" not in issue:
        sk = "N"
    elif isinstance(t, HedTag):
        sk = "T"
    elif isinstance(t, HedGroup):
        sk = "G"
    elif isinstance(t, int) and not isinstance(t, bool):
        sk = "I"
    else:
        sk = "S"
    return {"code": issue["code"], "sev": issue["severity"], "idx": issue.get("index_in_tag"),
            "idx_end": issue.get("index_in_tag_end"),
            "char": [issue["char_index"], issue["char_index_end"]] if "char_index" in issue else None,
            "suffixes": [list(s) for s in sufs], "ctx": ctx, "src": sk}


def canon_model_issue(m):
    def o(x):
        return None if x == "N" else int(x)
    ctx = []
    for k, v in m[8]:
        if v[0] == "s":
            ctx.append([k, ["s", C.uncps(v[1])]])
        else:
            ctx.append([k, [v[0], int(v[1])]])
    return {"code": C.uncps(m[0]), "sev": int(m[1]), "idx": o(m[2]), "idx_end": o(m[3]),
            "char": None if m[4] == "N" else [int(m[4][0]), int(m[4][1])],
            "suffixes": [[int(a), int(b)] for a, b in m[5]], "ctx": ctx, "src": m[9],
            "mtag": None if m[6] == "N" else C.uncps(m[6]), "mfrag": None if m[7] == "N" else C.uncps(m[7])}


def expected_span(issue):
    """Independent location of the source tag/group inside the text of ec_HedString (no _get_org_span)."""
    from hed.models.hed_tag import HedTag
    from hed.models.hed_group import HedGroup
    hs = issue["ec_HedString"]
    t = issue["source_tag"]
    text = hs.get_original_hed_string()
    org = t.org_tag if isinstance(t, HedTag) else t.get_original_hed_string()

    def contains(s):
        todo = [s]
        while todo:
            cur = todo.pop(0)
            if cur is t:
                return True
            if isinstance(cur, HedGroup):
                todo = list(cur._original_children) + todo
        return False
    if hs._from_strings:
        off = 0
        for p in hs._from_strings:
            if contains(p):
                return off + t.span[0], off + t.span[1], text, org
            off += len(p._hed_string) + 1
        return None
    if contains(hs):
        return t.span[0], t.span[1], text, org
    return None


def oracle_issue(issue, entry, passes, fails, f1_ok):
    """Every per-issue clause of the statement, on one implementation issue."""
    from hed.models.hed_tag import HedTag
    from hed.models.hed_group import HedGroup
    S = st()

    def fail(clause, detail, fid=None):
        fails.append([clause, f"{entry}: {detail}"[:400], fid])
    code, msg, sev = issue.get("code"), issue.get("message"), issue.get("severity")
    if not isinstance(code, str) or not code:
        fail("has-code", repr(code))
    if not isinstance(msg, str) or not msg:
        fail("has-message", repr(msg))
        return
    if not isinstance(sev, int) or isinstance(sev, bool) or sev not in (1, 10):
        fail("has-severity", repr(sev))
    base, sufs = split_suffixes(msg)
    has = "char_index" in issue
    if has != ("char_index_end" in issue):
        fail("offsets-paired", str(sorted(issue.keys())))
        return
    want = 1 if has else 0
    if len(sufs) != want:
        fid = None
        if has and len(sufs) == 2 and f1_ok and all(s == (issue["char_index"], issue["char_index_end"]) for s in sufs):
            fid = "C12-F1"
        fail("suffix-once", f"{len(sufs)} copies of the location suffix, expected {want}: {msg!r}", fid)
    if not has:
        return
    ci, ce = issue["char_index"], issue["char_index_end"]
    if sufs and sufs[-1] != (ci, ce):
        fail("suffix-matches-offsets", f"suffix {sufs[-1]} vs offsets {(ci, ce)}")
    hs = issue.get("ec_HedString")
    t = issue.get("source_tag")
    if hs is None or not isinstance(t, (HedTag, HedGroup)):
        fail("offsets-need-string-and-tag", f"offsets without string context / source tag: {code}")
        return
    text = hs.get_original_hed_string()
    if not (isinstance(ci, int) and isinstance(ce, int) and 0 <= ci <= ce <= len(text)):
        fail("offsets-inside-text", f"{(ci, ce)} not inside text of length {len(text)}: {text!r}")
        return
    sp = expected_span(issue)
    if sp is None:
        fail("offsets-inside-tag", f"offsets on a tag that is not part of the string {text!r}")
        return
    a, b, _, org = sp
    if text[a:b] != org:
        fail("tag-span-is-slice", f"text[{a}:{b}]={text[a:b]!r} org={org!r}")
    if not (a <= ci <= ce <= b):
        fail("offsets-inside-tag", f"{(ci, ce)} outside the tag span {(a, b)} of {org!r} in {text!r}")
        return
    frag = text[ci:ce]
    sub = "index_in_tag" in issue
    modified = isinstance(t, HedTag) and bool(t._tag)
    if sub and not modified:
        i0, i1 = issue["index_in_tag"], issue.get("index_in_tag_end")
        if (ci - a, ce - a) != (i0, i1 if i1 is not None else b - a):
            fail("offsets-are-tag-relative", f"{(ci, ce)} vs span {(a, b)} + indices {(i0, i1)}")
        quoted = t.tag[i0:i1]
        if frag != quoted:
            fail("offsets-select-fragment", f"text[{ci}:{ce}]={frag!r} but the message was given {quoted!r}")
        cands = [r for r in S["rows"] if r["code"] == code and r["sub"]]
        if cands and all(r["quotes_sub"] for r in cands) and ("'" + frag + "'") not in base:
            fail("message-quotes-fragment", f"{frag!r} not quoted in {base!r}")
    else:
        if (ci, ce) != (a, b):
            fail("offsets-select-tag", f"{(ci, ce)} vs tag span {(a, b)}")
        cands = [r for r in S["rows"] if r["code"] == code and r["tag"] and not r["sub"]]
        if not sub and cands and all(r["quotes_tag"] for r in cands) and frag not in base:
            fail("message-quotes-tag", f"{frag!r} not in {base!r}")


def key_tuple(issue):
    S = st()
    return tuple(issue.get(k, -1 if k in S["int_list"] else "") for k in S["sort_list"])


def subset_key(issue):
    base, _ = split_suffixes(issue["message"])
    return (issue["code"], base, issue.get("char_index"), issue.get("char_index_end"))


def oracle_errors_only(on, off, entry, fails):
    want = Counter(subset_key(i) for i in on if i["severity"] <= 1)
    got = Counter(subset_key(i) for i in off)
    if want != got:
        d1 = list((want - got).elements())[:3]
        d2 = list((got - want).elements())[:3]
        fails.append(["errors-only-is-error-subset", f"{entry}: missing={d1} extra={d2}"[:400], None])


def oracle_sorted(issues, entry, fails, fid=None):
    """A list returned by a file-level entry point is ordered by file, sidecar column, key, row."""
    ks = []
    for i in issues:
        ks.append(tuple(i.get(k, -1) if k == "ec_row" else tagged(i.get(k, "")) for k in DOC_SORT))
    bad = None
    try:
        for j in range(len(ks) - 1):
            if not ks[j] <= ks[j + 1]:
                bad = j
                break
    except TypeError:
        bad = None
    if bad is not None:
        fails.append(["sorted-by-file-column-key-row",
                      f"{entry}: position {bad}: {ks[bad]} ({issues[bad].get('code')}) comes before "
                      f"{ks[bad + 1]} ({issues[bad + 1].get('code')})", fid])


def oracle_export(issues, entry, fails):
    from hed.errors.error_reporter import replace_tag_references
    codes = [i.get("code") for i in issues]
    cp = [dict(i) for i in issues]
    try:
        replace_tag_references(cp)
        txt = json.dumps(cp)
        back = json.loads(txt)
    except Exception as e:  # noqa
        fails.append(["export-serialisable", f"{entry}: {type(e).__name__}: {e}"[:300], None])
        return None
    if [i.get("code") for i in back] != codes:
        fails.append(["export-same-codes", f"{entry}: {codes} vs {[i.get('code') for i in back]}"[:300], None])
    return [sorted([k, type(v).__name__] for k, v in d.items()) for d in cp]


def summarise(issues):
    return [canon_issue(i) for i in issues]


def export_lines(issues, ids_of):
    """Model export command for already-decorated implementation issues + expected shapes."""
    fresh = [50000]
    enc = []
    for i in issues:
        hs = i.get("ec_HedString")
        hmap, ids = {}, {}
        if hs is not None and hasattr(hs, "_from_strings"):
            sx, ids = enc_hstr(hs)
            hmap[id(hs)] = sx
        enc.append(enc_issue(i, ids, hmap, fresh))
    return C.to_sx(["export", enc])


# --------------------------------------------------------------------------- string cases

def run_string_case(case):
    """case = {kind:'string', text, ph, ctx:[(key,val)..], seed}"""
    from hed.models.hed_string import HedString
    from hed.validator import HedValidator
    from hed.errors.error_reporter import ErrorHandler, check_for_any_errors
    S = st()
    sch, dd = S["schema"], S["defs"]
    s, ph = case["text"], case["ph"]
    out = {"case": case, "fails": [], "model": [], "skip": None, "n_issues": 0, "n_offsets": 0, "f1": 0}
    fails = out["fails"]
    try:
        # --- raw phases on a fresh object (inputs of the model)
        hs0 = HedString(s, sch, def_dict=dd)
        v0 = HedValidator(sch, def_dicts=dd)
        basic = v0.run_basic_checks(hs0, allow_placeholders=ph)
        basic_has_error = check_for_any_errors(basic)
        full = [] if basic_has_error else v0.run_full_string_checks(hs0)
        hsx, ids = enc_hstr(hs0)
        hmap = {id(hs0): hsx}
        fresh = [90000]
        raw_basic = [enc_issue(i, ids, hmap, fresh) for i in basic]
        raw_full = [enc_issue(i, ids, hmap, fresh) for i in full]
        n_basic_err = sum(1 for i in basic if i["severity"] <= 1)

        def ctx_push(eh, hs):
            from hed.errors.error_types import ErrorContext
            names = {"file": ErrorContext.FILE_NAME, "row": ErrorContext.ROW, "col": ErrorContext.COLUMN,
                     "scol": ErrorContext.SIDECAR_COLUMN_NAME, "skey": ErrorContext.SIDECAR_KEY_NAME,
                     "title": ErrorContext.CUSTOM_TITLE, "line": ErrorContext.LINE}
            enc = []
            for k, v in case["ctx"]:
                if k == "hed":
                    eh.push_error_context(ErrorContext.HED_STRING, hs)
                    enc.append(["hed", ["h", hsx]])
                else:
                    eh.push_error_context(names[k], v)
                    vv = v
                    if vv is None:
                        vv = 0 if k == "row" else ""
                    enc.append([k, ["i", vv] if isinstance(vv, int) else ["s", C.cps(vv)]])
            return enc
        results = {}
        for warn in (True, False):
            # entry 1: HedString.validate, handler without context
            hs1 = HedString(s, sch, def_dict=dd)
            r1 = hs1.validate(allow_placeholders=ph, error_handler=ErrorHandler(check_for_warnings=warn))
            results[("hs", warn)] = r1
            out["model"].append((f"hs/{warn}", C.to_sx(["validate", FIXED, warn, [], raw_basic, raw_full]), summarise(r1)))
            # entry 3: HedValidator.validate with a handler holding context (incl. the string)
            hs3 = HedString(s, sch, def_dict=dd)
            eh = ErrorHandler(check_for_warnings=warn)
            ctx_enc = ctx_push(eh, hs3)
            r3 = HedValidator(sch, def_dicts=dd).validate(hs3, ph, eh)
            results[("valctx", warn)] = r3
            out["model"].append((f"valctx/{warn}", C.to_sx(["validate", FIXED, warn, ctx_enc, raw_basic, raw_full]),
                                 summarise(r3)))
            # explicit decoration of fresh raw issues: one and two passes
            for passes in (1, 2):
                hs4 = HedString(s, sch, def_dict=dd)
                v4 = HedValidator(sch, def_dicts=dd)
                lst = v4.run_basic_checks(hs4, allow_placeholders=ph)
                if not check_for_any_errors(lst):
                    lst += v4.run_full_string_checks(hs4)
                eh4 = ErrorHandler(check_for_warnings=warn)
                ctx4 = ctx_push(eh4, hs4)
                for _ in range(passes):
                    eh4.add_context_and_filter(lst)
                results[("dec%d" % passes, warn)] = lst
                out["model"].append((f"dec{passes}/{warn}",
                                     C.to_sx(["decorate", FIXED, warn, passes, ctx4, raw_basic + raw_full]),
                                     summarise(lst)))
        # entry 2: default handler
        hs2 = HedString(s, sch, def_dict=dd)
        r2 = HedValidator(sch, def_dicts=dd).validate(hs2, ph, None)
        results[("valnone", True)] = r2
        out["model"].append(("valnone", C.to_sx(["validate", FIXED, True, [], raw_basic, raw_full]), summarise(r2)))

        has_hed = any(k == "hed" for k, _ in case["ctx"])
        for (entry, warn), iss in results.items():
            # F1 class: (a) validate with a handler holding the string context, issue of the basic phase,
            # no basic-phase error; (b) an explicit second add_context_and_filter pass
            n_basic_kept = len(basic) if warn else n_basic_err
            for pos, i in enumerate(iss):
                f1_ok = (not FIXED) and has_hed and (
                    (entry == "valctx" and not basic_has_error and pos < n_basic_kept) or entry == "dec2")
                before = len(fails)
                oracle_issue(i, f"{entry}/warn={warn}", 1, fails, f1_ok)
                out["n_issues"] += 1
                out["n_offsets"] += 1 if "char_index" in i else 0
        for entry in ("hs", "valctx", "dec1", "dec2"):
            oracle_errors_only(results[(entry, True)], results[(entry, False)], entry, fails)
        # export
        for key in (("valctx", True), ("hs", True)):
            iss = results[key]
            shapes = oracle_export(iss, key[0], fails)
            if shapes is not None and iss:
                out["model"].append((f"export/{key[0]}", export_lines(iss, None), {"shapes": shapes,
                                                                                   "codes": [i["code"] for i in iss]}))
    except Exception as e:  # noqa  -- a crash of validation itself is C01/C02's subject, not C12's
        import traceback
        out["skip"] = f"{type(e).__name__}: {e}"[:200]
        out["tb"] = traceback.format_exc()[-1500:]
    out["f1"] = sum(1 for f in fails if f[2] == "C12-F1")
    return out


# --------------------------------------------------------------------------- sidecar / table cases

def run_file_case(case):
    """case = {kind:'sidecar'|'table', sidecar:dict, rows:[...]|None, columns, name}"""
    import pandas as pd
    from hed.models.sidecar import Sidecar
    from hed.models.tabular_input import TabularInput
    from hed.errors.error_reporter import ErrorHandler, sort_issues
    S = st()
    sch = S["schema"]
    out = {"case": case, "fails": [], "model": [], "skip": None, "n_issues": 0, "n_offsets": 0, "f1": 0}
    fails = out["fails"]
    res = {}
    logs = {}
    from harness import c12_paths as P
    try:
        for warn in (True, False):
            sc = Sidecar(io.StringIO(json.dumps(case["sidecar"])), name="sc.json") if case.get("sidecar") else None
            eh = ErrorHandler(check_for_warnings=warn)
            rec = P.Recorder(S["rows"])
            if case.get("headerless"):
                # a file read without a header line: columns are labelled by number (ec_column is an int)
                from hed.models.spreadsheet_input import SpreadsheetInput
                txt = "".join("\t".join(r) + "\n" for r in case["rows"])
                sp = SpreadsheetInput(io.StringIO(txt), file_type=".tsv", has_column_names=False,
                                      tag_columns=list(range(len(case["rows"][0]))), name=case["name"])
                with P.recording(rec):
                    iss = sp.validate(sch, name=case["name"], error_handler=eh)
            elif case["kind"] == "sidecar":
                with P.recording(rec):
                    iss = sc.validate(sch, name=case["name"], error_handler=eh)
            else:
                df = pd.DataFrame(case["rows"], columns=case["columns"])
                buf = io.StringIO(df.to_csv(sep="\t", index=False))
                tab = TabularInput(buf, sidecar=sc, name=case["name"])
                with P.recording(rec):
                    iss = tab.validate(sch, name=case["name"], error_handler=eh)
            res[warn] = iss
            logs[warn] = rec
            if eh.error_context:
                fails.append(["context-balanced", f"{case['kind']}: handler context left non-empty", None])
    except Exception as e:  # noqa -- crashes of file validation are C06/C07/C08's subject
        out["skip"] = f"{type(e).__name__}: {e}"[:200]
        return out
    # correspondence of the decoration path: the model's entry-point function on the recorded abstract input
    early = {}
    for warn in (True, False):
        rec = logs[warn]
        early[warn] = case["kind"] == "sidecar" and not any(e[0] == "defs" for e in rec.log)
        try:
            if case["kind"] == "sidecar":
                line = C.to_sx(["sidecar", FIXED, SORT_EARLY, warn, [], P.sidecar_input(rec.log)])
            else:
                line = C.to_sx(["table", "errors", FIXED, warn, [], P.table_input(rec.log, rec.extra)])
            out["model"].append((f"path/{case['kind']}/warn={warn}", line, summarise(res[warn])))
            out["paths"] = out.get("paths", 0) + 1
        except P.Unmodelled as e:    # fail closed: a call sequence the model's input cannot express
            out["unmodelled"] = str(e)
            out["model"].append((f"path/{case['kind']}/warn={warn}", "(unmodelled)", "exn:unmodelled-call-sequence: " + str(e)))
    for warn, iss in res.items():
        for i in iss:
            oracle_issue(i, f"{case['kind']}/warn={warn}", 1, fails, False)
            out["n_issues"] += 1
            out["n_offsets"] += 1 if "char_index" in i else 0
        oracle_sorted(iss, f"{case['kind']}/warn={warn}", fails,
                      fid="C12-F2" if (early[warn] and not SORT_EARLY) else None)
    oracle_errors_only(res[True], res[False], case["kind"], fails)
    iss = res[True]
    shapes = oracle_export(iss, case["kind"], fails)
    if shapes is not None and iss:
        out["model"].append((f"export/{case['kind']}", export_lines(iss, None),
                             {"shapes": shapes, "codes": [i["code"] for i in iss]}))
    # sort: a seeded shuffle of the returned list, implementation vs model vs independent reference
    if len(iss) >= 2:
        rng = random.Random(case["seed"])
        idx = list(range(len(iss)))
        rng.shuffle(idx)
        shuffled = [dict(iss[j], _n=n) for n, j in enumerate(idx)]
        for rev in (False, True):
            try:
                got = [d["_n"] for d in sort_issues(shuffled, reverse=rev)]
            except Exception as e:  # noqa
                got = "exn:" + type(e).__name__
            enc = [[[88], n, "N", "N", "N",
                    [[CKEYS[k], (["i", v] if isinstance(v, int) and not isinstance(v, bool) else ["s", C.cps(str(v))])]
                     for k, v in d.items() if k in CKEYS and k != "ec_HedString"], "N", [], "N", "N"]
                   for n, d in enumerate(shuffled)]
            out["model"].append((f"sort/{rev}", C.to_sx(["sort", rev, enc]), {"perm": got}))
            if isinstance(got, list):
                check_sorted_stable(shuffled, got, rev, f"{case['kind']}-resort", fails)
    return out


def tagged(v):
    """text labels before numeric ones (labels of a file without header are numbers)"""
    return (0, v) if isinstance(v, str) else (1, v)


def doc_key(d):
    return tuple(d.get(k, -1) if k == "ec_row" else tagged(d.get(k, "")) for k in DOC_SORT[1:])


def check_sorted_stable(items, perm, rev, entry, fails):
    """Independent reference (does not read the implementation's key list for the ORDER): a permutation; among
    issues with the same title the documented key (file, sidecar column, sidecar key, row) never decreases;
    issues with equal sort keys keep their relative order."""
    if sorted(perm) != list(range(len(items))):
        fails.append(["sort-permutation", f"{entry}: {perm}", None])
        return
    out = [items[j] for j in perm]
    try:
        for a in range(len(out) - 1):
            x, y = out[a], out[a + 1]
            if x.get("ec_title", "") == y.get("ec_title", ""):
                kx, ky = doc_key(x), doc_key(y)
                ordered = kx >= ky if rev else kx <= ky
                if not ordered:
                    fails.append(["sort-ordered-by-file-column-key-row",
                                  f"{entry}: {kx} before {ky} reverse={rev}"[:300], None])
                    return
        for a in range(len(out)):
            for b in range(a + 1, len(out)):
                if key_tuple(out[a]) == key_tuple(out[b]) and perm[a] > perm[b]:
                    fails.append(["sort-stable", f"{entry}: equal keys {key_tuple(out[a])} reordered "
                                                 f"{perm[a]},{perm[b]} reverse={rev}"[:300], None])
                    return
    except TypeError:
        pass


# --------------------------------------------------------------------------- synthetic sort / fmt / ctx cases

def run_sort_case(case):
    from hed.errors.error_reporter import sort_issues
    out = {"case": case, "fails": [], "model": [], "skip": None, "n_issues": 0, "n_offsets": 0, "f1": 0}
    items = [dict(d, _n=n) for n, d in enumerate(case["items"])]
    for rev in (False, True):
        try:
            got = [d["_n"] for d in sort_issues(items, reverse=rev)]
        except Exception as e:  # noqa
            got = "exn:" + type(e).__name__
        enc = [[[88], n, "N", "N", "N",
                [[CKEYS[k], (["i", v] if isinstance(v, int) else ["s", C.cps(v)])] for k, v in d.items() if k in CKEYS],
                "N", [], "N", "N"] for n, d in enumerate(items)]
        out["model"].append((f"sort/{rev}", C.to_sx(["sort", rev, enc]), {"perm": got}))
        if isinstance(got, list):
            check_sorted_stable(items, got, rev, "synthetic", out["fails"])
        elif case.get("typed", True):
            out["fails"].append(["sort-never-raises-on-typed-context", f"{got}", None])
    return out


def run_fmt_case(case):
    """Direct ErrorHandler.format_error + one decoration: correspondence only (arguments may be out of range)."""
    from hed.models.hed_string import HedString
    from hed.errors.error_reporter import ErrorHandler
    from hed.errors.error_types import ErrorContext
    S = st()
    out = {"case": case, "fails": [], "model": [], "skip": None, "n_issues": 0, "n_offsets": 0, "f1": 0}
    hs = HedString(case["text"], S["schema"], def_dict=S["defs"])
    nodes = [hs]
    from hed.models.hed_group import HedGroup
    todo = [hs]
    order = []
    while todo:
        cur = todo.pop(0)
        if isinstance(cur, HedGroup):
            todo = list(cur._original_children) + todo
        order.append(cur)
    pick = case["pick"]
    kind = case["kind_name"]
    row = next((r for r in S["rows"] if r["kind"] == kind), None)
    if pick == "int" and row is not None and row["sub"]:
        out["skip"] = "int source with a sub-tag kind (str(int) is not modelled)"
        return out
    if pick == "str":
        tag = "sometext"
    elif pick == "int":
        tag = 7
    elif pick == "foreign":
        tag = HedString("Green, (Blue)", S["schema"]).children[0]
    else:
        cands = order[1:]
        if not cands:
            out["skip"] = "no nodes"
            return out
        tag = cands[pick % len(cands)]
    hsx, ids = enc_hstr(hs)
    kind = case["kind_name"]
    row = next((r for r in S["rows"] if r["kind"] == kind), None)
    kw = {}
    if case["sev"] is not None:
        kw["severity"] = case["sev"]
    extra = {}
    try:
        if row is None:
            iss = ErrorHandler.format_error(kind, actual_error=case["actual"], **kw)
        elif row["tag"] and row["sub"]:
            names = row["params"][2:]
            extra = {n: "x" for n in names}
            iss = ErrorHandler.format_error(kind, tag, case["idx"], case["idx_end"], actual_error=case["actual"],
                                            **extra, **kw)
        elif row["tag"]:
            names = row["params"][1:]
            extra = {n: ["x"] for n in names}
            iss = ErrorHandler.format_error(kind, tag, actual_error=case["actual"], **extra, **kw)
        else:
            out["skip"] = "non-tag kind"
            return out
    except Exception as e:  # noqa  -- message functions with special argument needs
        out["skip"] = f"format_error: {type(e).__name__}"
        return out
    fresh = [90000]
    dummy = {"message": "m", "code": "c", "severity": 1, "source_tag": tag}
    src = enc_src(dummy, ids, fresh)
    fmt_line = C.to_sx(["fmt", C.cps(kind), src, case["idx"], "N" if case["idx_end"] is None else case["idx_end"],
                        "N" if case["sev"] is None else case["sev"],
                        "N" if not case["actual"] else C.cps(case["actual"])])
    exp = canon_issue(iss[0])
    if row is not None and row["sub"]:
        try:
            ts = tag.tag
        except AttributeError:
            ts = str(tag)
        e = case["idx_end"] if case["idx_end"] is not None else len(ts)
        exp["mfrag"] = ts[case["idx"]:e] if case["idx"] <= e else ""
    out["model"].append(("fmt", fmt_line, {"issue": exp}))
    # decorate once / twice with the string context
    eh = ErrorHandler(check_for_warnings=case["warn"])
    eh.push_error_context(ErrorContext.FILE_NAME, "f")
    eh.push_error_context(ErrorContext.HED_STRING, hs)
    raw = enc_issue(iss[0], ids, {id(hs): hsx}, fresh)
    ctx = [["file", ["s", C.cps("f")]], ["hed", ["h", hsx]]]
    try:
        for _ in range(case["passes"]):
            eh.add_context_and_filter(iss)
        got = summarise(iss)
    except Exception as e:  # noqa
        got = "exn:" + type(e).__name__
    out["model"].append(("fmt-decorate", C.to_sx(["decorate", FIXED, case["warn"], case["passes"], ctx, [raw]]),
                         got if isinstance(got, str) else got))
    return out


def run_ctx_case(case):
    from hed.errors.error_reporter import ErrorHandler
    from hed.errors.error_types import ErrorContext
    names = {"file": ErrorContext.FILE_NAME, "row": ErrorContext.ROW, "col": ErrorContext.COLUMN,
             "scol": ErrorContext.SIDECAR_COLUMN_NAME, "skey": ErrorContext.SIDECAR_KEY_NAME,
             "title": ErrorContext.CUSTOM_TITLE, "line": ErrorContext.LINE}
    out = {"case": case, "fails": [], "model": [], "skip": None, "n_issues": 0, "n_offsets": 0, "f1": 0}
    eh = ErrorHandler()
    ops = []
    got = None
    for op in case["ops"]:
        try:
            if op[0] == "push":
                eh.push_error_context(names[op[1]], op[2])
                v = op[2]
                ops.append(["push", op[1], "N" if v is None else (["i", v] if isinstance(v, int) else ["s", C.cps(v)])])
            else:
                ops.append(["pop"])
                eh.pop_error_context()
        except Exception as e:  # noqa
            got = "exn:" + type(e).__name__
            break
    if got is None:
        inv = {v: k for k, v in names.items()}
        got = [[inv[k], ["i", v] if isinstance(v, int) else ["s", v]] for k, v in eh.error_context]
    out["model"].append(("ctxops", C.to_sx(["ctxops", True, ops]), {"ctx": got}))
    return out


def run_dataset_case(case):
    """A small BIDS tree validated through BidsDataset.validate (oracle only)."""
    import csv
    import shutil as sh
    from hed.tools.bids.bids_dataset import BidsDataset
    S = st()
    out = {"case": case, "fails": [], "model": [], "skip": None, "n_issues": 0, "n_offsets": 0, "f1": 0}
    fails = out["fails"]
    root = C.scratch_dir()
    res = {}
    try:
        with open(os.path.join(root, "dataset_description.json"), "w") as f:
            json.dump({"Name": "t", "BIDSVersion": "1.8.0", "HEDVersion": "8.3.0"}, f)
        with open(os.path.join(root, "task-x_events.json"), "w") as f:
            json.dump(case["sidecar"], f)
        for rel, rows in case["files"].items():
            pth = os.path.join(root, rel)
            os.makedirs(os.path.dirname(pth), exist_ok=True)
            with open(pth, "w", newline="") as f:
                csv.writer(f, delimiter="\t", lineterminator="\n").writerows(rows)
        if case.get("sub_sidecar"):
            with open(os.path.join(root, "sub-01", "sub-01_task-x_events.json"), "w") as f:
                json.dump(case["sub_sidecar"], f)
        try:
            for warn in (True, False):
                ds = BidsDataset(root, schema=S["schema"])
                res[warn] = ds.validate(check_for_warnings=warn)
        except Exception as e:  # noqa -- crashes of dataset assembly / file validation are C16/C07's subject
            out["skip"] = f"{type(e).__name__}: {e}"[:200]
            return out
    finally:
        sh.rmtree(root, ignore_errors=True)
    for warn, iss in res.items():
        for i in iss:
            oracle_issue(i, f"dataset/warn={warn}", 1, fails, False)
            out["n_issues"] += 1
            out["n_offsets"] += 1 if "char_index" in i else 0
        # per file the issues are sorted; the dataset concatenates the files
        byfile = {}
        for i in iss:
            byfile.setdefault(i.get("ec_filename", ""), []).append(i)
        for fn, lst in byfile.items():
            oracle_sorted(lst, f"dataset/{fn}/warn={warn}", fails)
    oracle_errors_only(res[True], res[False], "dataset", fails)
    shapes = oracle_export(res[True], "dataset", fails)
    if shapes is not None and res[True]:
        out["model"].append(("export/dataset", export_lines(res[True], None),
                             {"shapes": shapes, "codes": [i["code"] for i in res[True]]}))
    return out


def run_case(case):
    k = case["kind"]
    if k == "dataset":
        return run_dataset_case(case)
    if k == "string":
        return run_string_case(case)
    if k in ("sidecar", "table"):
        return run_file_case(case)
    if k == "sort":
        return run_sort_case(case)
    if k == "fmt":
        return run_fmt_case(case)
    if k == "ctx":
        return run_ctx_case(case)
    raise ValueError(k)


# =========================================================================== registry vs translated table

def check_registry(res, table_sx):
    """Gen/ErrorCodes.v (as extracted) vs the runtime registry and constants of the implementation."""
    from hed.errors import error_reporter as ER
    from hed.errors.error_types import ErrorSeverity, ErrorContext
    bad = []
    fixed_m, early_m = table_sx[1][0] == "1", table_sx[1][1] == "1"
    sev_e, sev_w = int(table_sx[2]), int(table_sx[3])
    if fixed_m != FIXED:
        bad.append(f"FIXED={FIXED} in harness/c12.py but code_is_fixed={fixed_m} in Model/Issues.v")
    if early_m != SORT_EARLY:
        bad.append(f"SORT_EARLY={SORT_EARLY} in harness/c12.py but code_sorts_early={early_m} in Model/IssuePaths.v")
    if (sev_e, sev_w) != (ErrorSeverity.ERROR, ErrorSeverity.WARNING):
        bad.append(f"severities {(sev_e, sev_w)} vs {(ErrorSeverity.ERROR, ErrorSeverity.WARNING)}")
    inv = {v: k for k, v in CKEYS.items()}
    if [inv[k] for k in table_sx[4]] != list(ER.default_sort_list):
        bad.append(f"default_sort_list {table_sx[4]} vs {ER.default_sort_list}")
    if [inv[k] for k in table_sx[5]] != list(ER.int_sort_list):
        bad.append(f"int_sort_list {table_sx[5]} vs {ER.int_sort_list}")
    names = {k: C.uncps(v) for k, v in table_sx[7]}
    for py, short in CKEYS.items():
        if names.get(short) != py:
            bad.append(f"context key {short}: {names.get(short)} vs {py}")
    live = {getattr(ErrorContext, a) for a in dir(ErrorContext) if not a.startswith("_")}
    if live != set(CKEYS):
        bad.append(f"ErrorContext values {sorted(live ^ set(CKEYS))}")
    rows = {C.uncps(r[0]): r for r in table_sx[6]}
    if set(rows) != set(ER.error_functions):
        bad.append(f"kinds differ: {sorted(set(rows) ^ set(ER.error_functions))[:6]}")
    # call every wrapper with dummy arguments where its message function accepts them
    import inspect
    called = 0
    for kind, fn in ER.error_functions.items():
        r = rows.get(kind)
        if r is None:
            continue
        code, sev, is_tag, sub = C.uncps(r[1]), int(r[2]), r[3] == "1", r[4] == "1"
        inner = inspect.unwrap(fn)
        params = list(inspect.signature(inner).parameters.values())
        try:
            if sub:
                args = ["Red/Blue", 0, 3] + ["x" for p in params[2:] if p.default is p.empty and p.kind == p.POSITIONAL_OR_KEYWORD]
            else:
                args = ["x" for p in params if p.default is p.empty and p.kind == p.POSITIONAL_OR_KEYWORD]
            obj = fn(*args)
        except Exception:  # noqa  -- message function needs structured arguments
            continue
        called += 1
        if obj["code"] != code or obj["severity"] != sev or ("source_tag" in obj) != is_tag \
                or ("index_in_tag" in obj) != sub:
            bad.append(f"kind {kind}: table {(code, sev, is_tag, sub)} vs runtime "
                       f"{(obj['code'], obj['severity'], 'source_tag' in obj, 'index_in_tag' in obj)}")
    for b in bad[:5]:
        res.violation("correspondence", {"table": b}, "translated table vs runtime registry: " + b, no_input=True)
    return called, len(rows)


# =========================================================================== generators

GOOD = ["Red", "Blue", "Green", "Event/Sensory-event", "Sensory-event", "Label/abc", "Item/Object", "Agent-action",
        "Parameter-value/1.5", "(Red, Blue)", "(Item/Object, (Green))", "Def/MyDef", "Def/ValDef/abc",
        "(Def/MyDef, Onset)", "(Duration/3 s, (Red))", "(Delay/2 ms, (Blue))",
        "Property/Sensory-property/Sensory-attribute/Visual-attribute/Color/CSS-color/Red-color/Red",
        "Age/5", "(Def/MyDef, Onset, (Green))", "(Def/MyDef, Offset)"]
WARN = ["red", "blue", "green", "Red-color/Myext", "Clock-face/3", "(Duration/3, (Green))", "Item/myitem",
        "Red-color/Ext2", "label/abc", "sensory-event", "Blue-color/Deep-blue", "(Duration/5, (Blue))", "Age/7 "]
BAD = ["Re$d", "Notatag", "Notatag/x", "Red//Blue", "/Red", "Red/", "Label/a$b", "Red-color/Blue", "Event/Myext",
       "Def/Nope", "Def/MyDef/3", "Def/ValDef", "(Duration/3 cm, (Green))", "(Duration/abc ms, (Green))",
       "Duration", "Def", "(Onset, Red)", "(Def/MyDef, Onset, Offset)", "(Duration/3 s)", "(Duration/3 s, Red, (Blue))",
       "(Definition/X, (Blue))", "Blu[e", "Red ~ Blue", "a1:Red", "xx:Red", "Label/#", "{col}", "Red (Blue)",
       "(Red", "Red)", "Red,, Blue", "()", "Onset", "(Def-expand/MyDef, (Red, Green))", "Def-expand/MyDef",
       "(Red, (Def/MyDef, Onset))", "(Def/MyDef, Offset, (Red))", "Label/é$", "Red  /Blue", "Event-context",
       "(Event-context, (Red)), (Event-context, (Blue))", "ts:Red", "Duration/3 s", "Gre$n, Re$d"]
SEPS = [", ", ",", " , ", ",  "]


def gen_string(rng, flavour):
    n = rng.randint(1, 5)
    parts = []
    for _ in range(n):
        x = rng.random()
        if flavour == "valid":
            parts.append(rng.choice(GOOD))
        elif flavour == "warn":
            parts.append(rng.choice(WARN) if x < 0.5 else rng.choice(GOOD))
        elif flavour == "fullerr":
            parts.append(rng.choice(GOOD + WARN))
        else:
            parts.append(rng.choice(BAD) if x < 0.45 else rng.choice(GOOD + WARN))
    if flavour == "fullerr":   # errors of the full phase only: repeats, grouping
        parts.append(rng.choice(parts))
        if rng.random() < 0.4:
            parts.append(rng.choice(["(Onset, Red)", "(Def/MyDef, Onset, Offset)", "Onset", "(Duration/3 s)",
                                     "(Red, (Def/MyDef, Onset))", "(Duration/3 s, Red, (Blue))"]))
    sep = rng.choice(SEPS)
    s = sep.join(parts)
    if rng.random() < 0.15:
        s = rng.choice([" ", "  "]) + s
    if rng.random() < 0.1:
        s = "(" + s + ")"
    return s


def gen_ctx(rng):
    ctx = []
    if rng.random() < 0.5:
        ctx.append(("file", rng.choice(["f.tsv", "a.json", "", None])))
    if rng.random() < 0.3:
        ctx.append(("scol", rng.choice(["cat", "val"])))
        if rng.random() < 0.5:
            ctx.append(("skey", rng.choice(["a", "b"])))
    if rng.random() < 0.4:
        ctx.append(("row", rng.choice([0, 2, 17, None])))
        if rng.random() < 0.5:
            ctx.append(("col", rng.choice(["HED", "cat"])))
    if rng.random() < 0.85:
        ctx.append(("hed", None))
    if rng.random() < 0.1:
        ctx.append(("file", "again"))
    return ctx


def gen_string_cases(rng, n):
    out = []
    for k in range(n):
        fl = rng.choices(["valid", "warn", "fullerr", "bad"], [1, 4, 3, 4])[0]
        out.append({"kind": "string", "text": gen_string(rng, fl), "ph": rng.random() < 0.3, "ctx": gen_ctx(rng),
                    "flavour": fl})
    return out


def gen_sidecar(rng, mostly_valid=True):
    sc = {}
    pool = GOOD[:9] + WARN[:8] + ([] if mostly_valid and rng.random() < 0.6 else BAD[:20])
    for col in rng.sample(["cat", "trial_type", "resp"], rng.randint(1, 3)):
        keys = rng.sample(["a", "b", "go", "stop"], rng.randint(1, 3))
        sc[col] = {"HED": {k: rng.choice(SEPS).join(rng.choice(pool) for _ in range(rng.randint(1, 3))) for k in keys}}
    for col in rng.sample(["val", "rt"], rng.randint(0, 2)):
        v = rng.choice(["Label/#", "Label/#, blue", "(Duration/# ms, (Red))", "Age/#, Red-color/Myext", "Label/#, Re$d",
                        "Parameter-value/#", "Label/#, Label/#", "Red", "Duration/# cm, Label/x"])
        sc[col] = {"HED": v}
    if "val" in sc and rng.random() < 0.3:
        sc["ref"] = {"HED": {"x": "{val}, Red, " + rng.choice(["Red", "Blue", "red"]), "y": rng.choice(pool)}}
    if rng.random() < 0.4:
        sc["defs"] = {"HED": {"d1": "(Definition/ScDef, (Red, Blue))"}}
        if rng.random() < 0.5:
            c = next(iter(sc))
            if isinstance(sc[c]["HED"], dict):
                k = next(iter(sc[c]["HED"]))
                sc[c]["HED"][k] += ", (Def/ScDef, Onset)" if rng.random() < 0.5 else ", Def/ScDef"
    return sc


AFTER_REF = ["Black, Black", "Blue, Blue", "(Onset, Red)", "Red, (Green, Red-color/Myext), Red", "Duration/3 s",
             "(Def/MyDef, Onset, Offset)", "(Red, (Def/MyDef, Onset))", "Item/Object, Item/Object", "Green"]
LENGTHS = ["Red", "Item/Object, Blue", "(Item/Object, (Green)), Sensory-event", "Agent-action", "blue",
           "Label/abc, Parameter-value/1.5, Green", "(Red, Blue)"]


def enrich_sidecar(rng, sc):
    """Scenario classes beyond independent columns:
    (a) a string with {column} references to CATEGORICAL columns that have several annotations of different
        lengths -- one substituted text per combination, each validated under its own HED-string context -- with
        full-phase, offset-carrying issues before and after the reference;
    (b) categorical columns that mix a (Definition/...) annotation with ordinary ones (the only case in which
        _check_definitions_bad_spot reports), under names that sort before, between and after the other columns."""
    cats = [c for c in sc if isinstance(sc[c].get("HED"), dict) and len(sc[c]["HED"]) >= 1
            and all(isinstance(v, str) and "{" not in v for v in sc[c]["HED"].values())]
    if rng.random() < 0.55:
        if not cats or rng.random() < 0.5:
            name = rng.choice(["stim", "kind", "zcat"])
            keys = rng.sample(["a", "b", "go", "stop", "x"], rng.randint(2, 3))
            sc[name] = {"HED": {k: v for k, v in zip(keys, rng.sample(LENGTHS, len(keys)))}}
            cats.append(name)
        targets = rng.sample(cats, min(len(cats), rng.choice([1, 1, 1, 2])))
        for t in targets:       # make sure the referenced annotations differ in length
            h = sc[t]["HED"]
            if len(h) >= 2 and len({len(v) for v in h.values()}) < 2:
                k = next(iter(h))
                h[k] = h[k] + ", Sensory-event"
        pieces = [rng.choice(AFTER_REF + ["Green", "Label/x"])] if rng.random() < 0.4 else []
        pieces += ["{%s}" % t for t in targets]
        pieces += [rng.choice(AFTER_REF) for _ in range(rng.randint(1, 2))]
        text = rng.choice(SEPS).join(pieces)
        if rng.random() < 0.5:
            sc[rng.choice(["aref", "refcol", "zref"])] = {"HED": {"r1": text, "r2": rng.choice(GOOD[:9] + WARN[:6])}}
        else:
            sc[rng.choice(["aval", "valref"])] = {"HED": "Label/#, " + text}
    if rng.random() < 0.45:
        name = rng.choice(["amix", "mix", "zmix", "bcol"])
        h = {"d": "(Definition/Mix%s, (Red))" % name.capitalize(),
             rng.choice(["e", "a"]): rng.choice(GOOD[:9] + WARN[:8] + BAD[:12])}
        if rng.random() < 0.4:
            h["f"] = rng.choice(["(Definition/Other%s, (Blue))" % name.capitalize(), "green", "Red, Red"])
        sc[name] = {"HED": h}
        if rng.random() < 0.7:   # another issue in a column that sorts elsewhere
            sc[rng.choice(["ccol", "aaa", "zzz"])] = {"HED": {"k": rng.choice(WARN[:8] + BAD[:12]), "l": "Green"}}
    return sc


def spoil_sidecar(rng, sc):
    """Structure / reference faults: blank strings, n/a keys, reserved names, unknown or malformed references."""
    for _ in range(rng.randint(1, 3)):
        x = rng.random()
        cats = [c for c in sc if isinstance(sc[c].get("HED"), dict) and sc[c]["HED"]
                and all(isinstance(v, str) for v in sc[c]["HED"].values())]
        if x < 0.25 and cats:
            c = rng.choice(cats)
            sc[c]["HED"][rng.choice(["zz", "b", "q"])] = ""
        elif x < 0.4 and cats:
            sc[rng.choice(cats)]["HED"]["n/a"] = "Red"
        elif x < 0.5:
            sc[rng.choice(["onset", "duration", "HED"])] = {"HED": "Red"}
        elif x < 0.7 and cats:
            c = rng.choice(cats)
            k = rng.choice(list(sc[c]["HED"]))
            sc[c]["HED"][k] = str(sc[c]["HED"][k]) + rng.choice([", {nocol}", ", {", ", }x{", ", {%s}" % c, ", {val}"])
        elif x < 0.8:
            sc["aa_extra"] = {"HED": {"k1": rng.choice(["", "Red, {aa_extra}", "blue"]), "k2": "Green"}}
        elif x < 0.9:
            sc["ign"] = {"Description": "x", "Levels": {"HED": "Red"}}
        else:
            sc["weird"] = {"HED": rng.choice([{}, {"a": 3}])}
    return sc


def gen_dataset_cases(rng, n):
    out = []
    for k in range(n):
        sc = gen_sidecar(rng, True)
        sc.pop("ref", None)
        cols = [c for c in sc if c != "defs"]
        files = {}
        for sub in rng.sample(["sub-01", "sub-02", "sub-03"], rng.randint(1, 3)):
            rows = [["onset", "duration"] + cols + ["HED"]]
            for r in range(rng.randint(1, 4)):
                row = [float(r), 0]
                for c in cols:
                    h = sc[c]["HED"]
                    row.append(rng.choice(list(h.keys()) + ["n/a"]) if isinstance(h, dict)
                               else rng.choice(["abc", "3", "n/a", "x$y"]))
                row.append(rng.choice(["n/a", "Green", "gre$n", "Blue, Blue", "green", "Notatag", "Red, Red",
                                       "Red-color/Ext2", "(Onset, Red)"]))
                rows.append(row)
            files[f"{sub}/{sub}_task-x_events.tsv"] = rows
        sub_sc = None
        if "sub-01/sub-01_task-x_events.tsv" in files and rng.random() < 0.4:
            sub_sc = {cols[0]: sc[cols[0]]} if cols else None
        out.append({"kind": "dataset", "sidecar": sc, "sub_sidecar": sub_sc, "files": files,
                    "seed": rng.randrange(10 ** 6)})
    return out


HEADERLESS_CELLS = ["red, Blue", "Green, Green", "Notatag", "Red", "n/a", "Blue", "Red-color/Myext", "gre$n",
                    "(Onset, Red)", "Item/Object", "", "blue"]


def gen_headerless_cases(rng, n):
    out = []
    for k in range(n):
        ncol = rng.randint(1, 3)
        rows = [[rng.choice(HEADERLESS_CELLS) for _ in range(ncol)] for _ in range(rng.randint(1, 4))]
        out.append({"kind": "table", "headerless": True, "sidecar": None, "rows": rows, "columns": None,
                    "name": rng.choice(["nohdr.tsv", "x/nohdr.tsv"]), "seed": rng.randrange(10 ** 6)})
    return out


def gen_file_cases(rng, n_sc, n_tab):
    out = []
    for k in range(n_sc):
        sc = gen_sidecar(rng, rng.random() < 0.5)
        if rng.random() < 0.6:
            sc = enrich_sidecar(rng, sc)
        if rng.random() < 0.3:
            sc = spoil_sidecar(rng, sc)
        out.append({"kind": "sidecar", "sidecar": sc, "rows": None, "columns": None,
                    "name": rng.choice(["sc.json", "a/b_events.json", ""]), "seed": rng.randrange(10 ** 6)})
    for k in range(n_tab):
        sc = gen_sidecar(rng, True)
        sc.pop("ref", None)
        cols = [c for c in sc if c != "defs"]
        onset = rng.random() < 0.5
        columns = (["onset", "duration"] if onset else []) + cols + ["HED"]
        rows = []
        for r in range(rng.randint(1, 5)):
            row = [float(r), 0] if onset else []
            for c in cols:
                h = sc[c]["HED"]
                if isinstance(h, dict):
                    row.append(rng.choice(list(h.keys()) + ["n/a"] + (["zz"] if rng.random() < 0.1 else [])))
                else:
                    row.append(rng.choice(["abc", "3", "n/a", "x$y", "q"]))
            row.append(rng.choice(["n/a", "Green", "gre$n", "Green, Red-color/Ext2", "Blue, Blue", "(Onset, Red)",
                                   "green", "Notatag", "Item/Object", "Red, Red", "Label/a$b, blue"]))
            rows.append(row)
        out.append({"kind": "table", "sidecar": sc, "rows": rows, "columns": columns,
                    "name": rng.choice(["ev.tsv", "sub-01/ev.tsv"]), "seed": rng.randrange(10 ** 6)})
    return out


def gen_sort_cases(rng, n):
    out = []
    files = ["a.tsv", "b.tsv", "", "a", "B.tsv"]
    for k in range(n):
        items = []
        for _ in range(rng.randint(0, 10)):
            d = {}
            if rng.random() < 0.15:
                d["ec_title"] = rng.choice(["t1", "t2"])
            if rng.random() < 0.8:
                d["ec_filename"] = rng.choice(files)
            if rng.random() < 0.5:
                d["ec_sidecarColumnName"] = rng.choice(["cat", "val", "Cat"])
                if rng.random() < 0.6:
                    d["ec_sidecarKeyName"] = rng.choice(["a", "b", "10", "9"])
            if rng.random() < 0.6:
                d["ec_row"] = rng.choice([0, 1, 2, 10, 9, -1, -5, 100])
            if rng.random() < 0.4:
                d["ec_column"] = rng.choice(["HED", "cat", 0, 2, 10, 1])
            if rng.random() < 0.1:
                d["ec_line"] = rng.choice(["l1", "l2"])
            items.append(d)
        out.append({"kind": "sort", "items": items, "typed": True})
    # ill-typed two-element lists: the single comparison CPython performs must raise
    for k in range(max(4, n // 20)):
        a, b = {"ec_filename": "f", "ec_row": rng.choice([1, 2])}, {"ec_filename": "f", "ec_row": rng.choice(["1", "x"])}
        if rng.random() < 0.5:
            a, b = b, a
        out.append({"kind": "sort", "items": [a, b], "typed": False})
        # a number against text at a non-int key: comparable since fix commit 2e53521 (text first)
        out.append({"kind": "sort", "items": [{"ec_filename": 3}, {"ec_filename": "f"}, {"ec_column": 2},
                                              {"ec_column": "HED"}, {"ec_column": 10}, {}], "typed": True})
        out.append({"kind": "sort", "items": [{"ec_filename": "g", "ec_row": "x"}, {"ec_filename": "f", "ec_row": 1}],
                    "typed": False})
    return out


def gen_fmt_cases(rng, n, rows):
    tagk = [r["kind"] for r in rows if r["tag"]]
    out = []
    texts = ["Red-color/Myext, (Blue, Green), ()", "Red//Blue, Label/a$b", "(Red, (Item/Object, Green)), Notatag/x",
             "Re$d", "Red, Blue"]
    for k in range(n):
        kind = rng.choice(tagk) if rng.random() < 0.9 else rng.choice(["nokind", "Unknown", "x"])
        out.append({"kind": "fmt", "kind_name": kind, "text": rng.choice(texts),
                    "pick": rng.choice([0, 1, 2, 3, 4, 5, "str", "int", "foreign"]) if rng.random() < 0.9 else 0,
                    "idx": rng.choice([0, 0, 1, 2, 3, 5, 9, 20]), "idx_end": rng.choice([None, None, 0, 1, 3, 4, 9, 15, 30]),
                    "sev": rng.choice([None, None, None, 1, 10, 5]), "actual": rng.choice([None, None, "OTHER_CODE", ""]),
                    "warn": rng.random() < 0.7, "passes": rng.choice([1, 2])})
    return out


def gen_ctx_cases(rng, n):
    out = []
    for k in range(n):
        ops = []
        for _ in range(rng.randint(0, 6)):
            if rng.random() < 0.65:
                key = rng.choice(["file", "row", "col", "scol", "skey", "title", "line"])
                val = rng.choice([None, 3, 0]) if key == "row" else rng.choice([None, "x", "", "y"])
                ops.append(["push", key, val])
            else:
                ops.append(["pop"])
        out.append({"kind": "ctx", "ops": ops})
    return out


CORPUS = [
    # regression for the repaired finding C12-F1 (fix commit 5312cdc): basic-phase warning, no basic-phase error,
    # handler holds the string context
    {"kind": "string", "text": "red", "ph": False, "ctx": [("hed", None)], "flavour": "corpus"},
    {"kind": "string", "text": "Red-color/Myext, Red, Red", "ph": False, "ctx": [("file", "f.tsv"), ("row", 3), ("hed", None)],
     "flavour": "corpus"},
    {"kind": "string", "text": "(Duration/3, (Green))", "ph": False, "ctx": [("hed", None)], "flavour": "corpus"},
    # regression: errors get the suffix once, full-phase issues once
    {"kind": "string", "text": "Red//Blue", "ph": False, "ctx": [("hed", None)], "flavour": "corpus"},
    {"kind": "string", "text": "red, (Onset, Red)", "ph": False, "ctx": [("hed", None)], "flavour": "corpus"},
    {"kind": "string", "text": "Re$d, Clock-face/3", "ph": False, "ctx": [("hed", None)], "flavour": "corpus"},
    {"kind": "string", "text": "Red, Blu[e", "ph": False, "ctx": [("hed", None)], "flavour": "corpus"},
    {"kind": "string", "text": "Label/a$b, Notatag/x", "ph": True, "ctx": [("hed", None)], "flavour": "corpus"},
    {"kind": "string", "text": "", "ph": False, "ctx": [("hed", None)], "flavour": "corpus"},
    {"kind": "string", "text": "Red", "ph": False, "ctx": [], "flavour": "corpus"},
    {"kind": "sort", "items": [{"ec_filename": "b"}, {"ec_filename": "a"}, {}, {"ec_filename": "a", "ec_row": 0},
                               {"ec_filename": "a", "ec_row": -5}, {"ec_filename": "a"}], "typed": True},
    {"kind": "sort", "items": [{"ec_row": 1}, {"ec_row": "a"}], "typed": False},
    {"kind": "fmt", "kind_name": "HED_GROUP_EMPTY", "text": "Red-color/Myext, (Blue, Green), ()", "pick": 1, "idx": 0,
     "idx_end": None, "sev": None, "actual": None, "warn": True, "passes": 1},   # non-empty group: AttributeError
    {"kind": "fmt", "kind_name": "HED_GROUP_EMPTY", "text": "Red-color/Myext, (Blue, Green), ()", "pick": 4, "idx": 0,
     "idx_end": None, "sev": None, "actual": None, "warn": True, "passes": 2},
    {"kind": "ctx", "ops": [["pop"]]},
    # regression for the repaired finding C12-F2 (fix commit 8c0dae9): early return of SidecarValidator.validate
    {"kind": "sidecar", "sidecar": {"b": {"HED": {"x": ""}}, "a": {"HED": {"k": "{zz}, Red", "j": "Blue"}}},
     "rows": None, "columns": None, "name": "sc.json", "seed": 1},
    # regression: one HED-string context per {column}-reference combination (annotations of different lengths,
    # offset-carrying full-phase issue after the reference)
    {"kind": "sidecar", "sidecar": {"stim": {"HED": {"a": "Blue", "b": "Item/Object", "c": "(Red, Green)"}},
                                    "resp": {"HED": "Label/#, {stim}, Black, Black"}},
     "rows": None, "columns": None, "name": "sc.json", "seed": 7},
    # regression: a definition mixed with ordinary annotations (bad spot) is sorted into place
    {"kind": "sidecar", "sidecar": {"bcol": {"HED": {"d": "(Definition/MixB, (Red))", "e": "Blue"}},
                                    "ccol": {"HED": {"k": "red", "l": "Green, Green"}}},
     "rows": None, "columns": None, "name": "sc.json", "seed": 8},
    # regression (fix commit 2e53521): numeric column labels next to row-level issues without a label
    {"kind": "table", "headerless": True, "sidecar": None, "rows": [["red, Blue", "Green, Green"], ["Notatag", "Red"]],
     "columns": None, "name": "nohdr.tsv", "seed": 9},
    # the gate of _run_checks: a warning in the last cell must not skip the row-level checks
    {"kind": "table", "sidecar": {"cat": {"HED": {"a": "red"}}}, "rows": [["a", "Blue, Blue"]],
     "columns": ["cat", "HED"], "name": "ev.tsv", "seed": 2},
    {"kind": "table", "sidecar": {"cat": {"HED": {"a": "Red"}}}, "rows": [["a", "blue, Blue, Blue"]],
     "columns": ["cat", "HED"], "name": "ev.tsv", "seed": 3},
    {"kind": "dataset", "seed": 5, "sidecar": {"cat": {"HED": {"a": "red, Blue", "b": "Red-color/Myext"}},
                                               "val": {"HED": "Label/#, blue"}},
     "sub_sidecar": {"cat": {"HED": {"a": "Green, Green"}}},
     "files": {"sub-01/sub-01_task-x_events.tsv": [["onset", "duration", "cat", "val", "HED"],
                                                   [0.0, 0, "a", "abc", "gre$n"], [1.0, 0, "b", "q", "Red, Red"]],
               "sub-02/sub-02_task-x_events.tsv": [["onset", "duration", "cat", "val", "HED"],
                                                   [0.0, 0, "b", "n/a", "green"]]}},
]


# =========================================================================== run

def diff_model(label, exp, m):
    """Compare one model answer with the implementation's canonical behaviour; returns list of differences."""
    d = []
    if isinstance(exp, dict) and "perm" in exp:
        if m[0] == "ok":
            got = [int(x) for x in m[1]]
        else:
            got = "exn:" + m[1]
        if got != exp["perm"]:
            d.append(f"{label}: sort impl={exp['perm']} model={got}")
        return d
    if isinstance(exp, dict) and "ctx" in exp:
        if m[0] == "ok":
            got = [[k, [v[0], int(v[1])] if v[0] == "i" else ["s", C.uncps(v[1])]] for k, v in m[1]]
        else:
            got = "exn:" + m[1]
        if got != exp["ctx"]:
            d.append(f"{label}: context impl={exp['ctx']} model={got}")
        return d
    if isinstance(exp, dict) and "shapes" in exp:
        if m[0] != "ok":
            return [f"{label}: model {m}"]
        if m[1] != "1":
            d.append(f"{label}: model says not serialisable after replacement")
        codes = [None if c == "N" else C.uncps(c) for c, _ in m[3]]
        if codes != exp["codes"]:
            d.append(f"{label}: codes impl={exp['codes']} model={codes}")
        shapes = []
        for _, ty in m[3]:
            shapes.append(sorted([C.uncps(k), t if isinstance(t, str) else t[0]] for k, t in ty[1:]))
        if shapes != exp["shapes"]:
            for a, b in zip(shapes, exp["shapes"]):
                if a != b:
                    d.append(f"{label}: export shape impl={b} model={a}")
                    break
        return d
    if isinstance(exp, dict) and "issue" in exp:
        if m[0] != "ok":
            return [f"{label}: model {m} impl={exp['issue']}"]
        got = canon_model_issue(m[1])
        e = exp["issue"]
        for f in ("code", "sev", "idx", "idx_end", "char", "suffixes", "src"):
            if got[f] != e[f]:
                d.append(f"{label}: {f} impl={e[f]} model={got[f]}")
        if "mfrag" in e and got["mfrag"] != e["mfrag"]:
            d.append(f"{label}: fragment impl={e['mfrag']!r} model={got['mfrag']!r}")
        return d
    # issue lists (or an exception)
    if isinstance(exp, str):
        got = "exn:" + m[1] if m[0] == "exn" else "ok"
        if got != exp:
            d.append(f"{label}: impl={exp} model={got}")
        return d
    if m[0] != "ok":
        return [f"{label}: model {m} impl ok ({len(exp)} issues)"]
    got = [canon_model_issue(x) for x in m[1]]
    if len(got) != len(exp):
        return [f"{label}: {len(exp)} issues impl vs {len(got)} model: impl={[e['code'] for e in exp]} "
                f"model={[g['code'] for g in got]}"]
    for n, (e, g) in enumerate(zip(exp, got)):
        for f in ("code", "sev", "idx", "idx_end", "char", "suffixes", "ctx", "src"):
            if g[f] != e[f]:
                d.append(f"{label}#{n} {e['code']}: {f} impl={e[f]} model={g[f]}")
    return d


def run(tier, seed, res, model_ok=True, proof_ok=True):
    rng = random.Random(seed)
    scratch = C.scratch_dir()
    try:
        from hed.schema import hed_cache
        hed_cache.set_cache_directory(os.path.join(scratch, "cache"))
    except Exception:  # noqa
        pass
    try:
        return _run(tier, rng, res, model_ok, proof_ok)
    finally:
        shutil.rmtree(scratch, ignore_errors=True)


def _run(tier, rng, res, model_ok, proof_ok):
    quick = tier == "quick"
    n_str = 1300 if quick else 11000
    n_sc, n_tab = (260, 180) if quick else (3000, 2500)
    n_sort = 600 if quick else 6000
    n_fmt = 500 if quick else 5000
    n_ctx = 100 if quick else 1000
    if not proof_ok:
        n_str, n_sc, n_tab, n_sort, n_fmt = n_str * 3, n_sc * 3, n_tab * 3, n_sort * 3, n_fmt * 3
    consts, rows, lists = T.tables()
    cases = list(CORPUS)
    # exhaustive small part: every single pool entry alone, and every ordered pair of a warning with anything
    for s in GOOD + WARN + BAD:
        cases.append({"kind": "string", "text": s, "ph": False, "ctx": [("hed", None)], "flavour": "single"})
    for w in WARN[:6]:
        for s in (GOOD[:6] + WARN[:4] + BAD[:14]):
            cases.append({"kind": "string", "text": w + ", " + s, "ph": False, "ctx": [("file", "f"), ("hed", None)],
                          "flavour": "pair"})
    cases += gen_string_cases(rng, n_str)
    cases += gen_file_cases(rng, n_sc, n_tab)
    cases += gen_dataset_cases(rng, 80 if quick else 800)
    cases += gen_headerless_cases(rng, 60 if quick else 500)
    cases += gen_sort_cases(rng, n_sort)
    cases += gen_fmt_cases(rng, n_fmt, rows)
    cases += gen_ctx_cases(rng, n_ctx)

    with Pool(int(C.JOBS)) as pool:
        outs = pool.map(run_case, cases, chunksize=8)

    # ---- implementation-side oracle
    skipped = Counter()
    n_issues = n_offsets = 0
    hist = Counter()
    nontrivial = set()
    for o in outs:
        c = o["case"]
        hist[c["kind"] + ("/" + c["flavour"] if "flavour" in c else "")] += 1
        if o["skip"]:
            skipped[c["kind"] + ": " + o["skip"].split(":")[0]] += 1
            continue
        n_issues += o["n_issues"]
        n_offsets += o["n_offsets"]
        if o["n_issues"] or c["kind"] in ("sort", "fmt", "ctx"):
            nontrivial.add(json.dumps(c, sort_keys=True, default=str))
        seen = set()
        for clause, detail, fid in o["fails"]:
            if fid is not None:
                res.report(clause, c, detail, fid=fid)
            elif (clause) not in seen:
                seen.add(clause)
                res.report(clause, c, detail, fid=None)
    string_skips = sum(v for k, v in skipped.items() if k.startswith("string"))
    if string_skips > max(5, len(cases) // 100):
        res.violation("harness-error", None, f"too many skipped string cases: {dict(skipped)}", no_input=True)

    # ---- correspondence with the extracted model
    disagreements = 0
    corr = 0
    called = nrows = 0
    if model_ok:
        exe = C.build_driver("c12")
        lines = ["(table)"]
        owners = [None]
        for n, o in enumerate(outs):
            if o["skip"]:
                continue
            for label, line, exp in o["model"]:
                lines.append(line)
                owners.append((n, label, exp))
        mod = C.run_driver(exe, lines)
        called, nrows = check_registry(res, mod[0])
        reported = set()
        for own, m in zip(owners[1:], mod[1:]):
            n, label, exp = own
            corr += 1
            diffs = diff_model(label, exp, m) if m and m[0] != "ERR" else [f"{label}: driver {m}"]
            if diffs:
                disagreements += 1
                if n in reported:
                    continue
                reported.add(n)
                o = outs[n]
                # a property failure on this input was already reported by the oracle with the input
                if any(f[2] is None for f in o["fails"]):
                    continue
                res.violation("correspondence", o["case"], "; ".join(diffs)[:600], no_input=True)

    f1_cases = sum(1 for o in outs if o["f1"])
    samples = [cases[0], cases[len(CORPUS) + 3], next(c for c in cases if c["kind"] == "sidecar"),
               next(c for c in cases if c["kind"] == "table")]
    return {
        "evaluations": len(cases),
        "distinct_nontrivial": len(nontrivial),
        "rule": "corpus + every pool annotation alone + warning x annotation pairs + generated annotations over real "
                "8.3.0 tags (valid / warning / full-phase-error / malformed streams) through HedString.validate, "
                "HedValidator.validate (default handler, handler with file/row/column/string context), explicit 1 and 2 "
                "decoration passes, warnings on and off; generated sidecars and event tables (with and without onset "
                "column) through Sidecar.validate / TabularInput.validate; synthetic sort lists; direct format_error "
                "calls; push/pop sequences.  non-trivial = the case produced at least one issue (or is a "
                "sort/format/context case)",
        "samples": samples,
        "histogram": dict(hist),
        "issues_checked": n_issues,
        "issues_with_offsets": n_offsets,
        "skipped": dict(skipped),
        "known_finding_cases": f1_cases,
        "entry_point_paths_through_model": sum(o.get("paths", 0) for o in outs),
        "entry_point_paths_unmodelled": dict(Counter(o["unmodelled"] for o in outs if o.get("unmodelled"))),
        "disagreements_checked": disagreements,
        "correspondence_cases": corr,
        "registry_wrappers_called": called,
        "kind_table_rows": nrows,
        "exhaustive": False,
        "fixed_flag": FIXED,
    }


def replay(payload):
    case = payload.get("case")
    if not isinstance(case, dict) or "kind" not in case:
        print("no concrete input in replay:", str(payload.get("detail", ""))[:800])
        return 1
    if case.get("kind") == "string":
        case["ctx"] = [tuple(x) for x in case["ctx"]]
    o = run_case(case)
    print("case:", json.dumps(case, default=str)[:600])
    if o["skip"]:
        print("implementation raised:", o["skip"])
    bad = 0
    for clause, detail, fid in o["fails"]:
        print(("KNOWN " + fid if fid else "FAILS"), clause, detail)
        if not fid:
            bad += 1
    if not bad:
        try:
            exe = C.build_driver("c12")
            mod = C.run_driver(exe, [line for _, line, _ in o["model"]])
            for (label, line, exp), m in zip(o["model"], mod):
                for d in diff_model(label, exp, m):
                    print("CORRESPONDENCE", d)
                    bad += 1
        except Exception as e:  # noqa
            print("model not available:", e)
    return 1 if bad else 0
