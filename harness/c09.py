"""C09 -- Definitions expand to their declared content and shrink back losslessly."""
import os
import random
import re
import sys
from multiprocessing import Pool

from harness import common as C

PROP = "C09"
COQ_TARGETS = ["Props/C09.vo", "Extract/ExtractC09.vo"]   # Props/C09 pulls in Proofs/DupsProofs (C04 lemmas)

# Which code the tree under test is.  Mirrored by current_fx / current_fs in coq/Model/DefStore.v
# (translate() fails closed when they differ).
# /repo contains all three repairs, so all switches are True = "the code as it is":
#   FIXED     fix commit 60986da (keep HedTag._expanded in step with expand_defs and shrink_defs; former C09-F1/F3)
#   FIXED_F2  fix commit cbb8087 (sorted Def-expand comparison; former C09-F2)
#   FIXED_F4  fix commit 2492808 (HedTag.__eq__ = case-folded short_tag equality; former C09-F4)
# With FIXED the extracted model runs the code as it is, any expand-twice / expand-after-shrink failure is a
# VIOLATION, and every step is additionally compared with the spec-level run_t of theorem C09_interleaving.
# (False = the behaviour before the commit; only useful to re-examine an old tree.)
FIXED = True        # since 60986da: _expanded kept in step by expand_defs / shrink_defs
FIXED_F2 = True     # since cbb8087: _validate_def_contents compares sorted() groups
FIXED_F4 = True     # since 2492808: HedTag.__eq__ = case-folded short_tag equality

TRUSTED = [
    "Model/Defs.v (spec layer), Model/DefStore.v (heap with object identity) and Model/DefObj.v (ownership trees) "
    "are hand transcriptions of definition_dict.py, definition_entry.py, hed_string.py expand_defs/shrink_defs/copy, "
    "hed_group.py replace/_replace/find_def_tags/_sorted/_sort_key/__eq__, hed_tag.py expandable/expanded/__eq__, "
    "def_validator.py _validate_def_contents/validate_def_tags; tied by the correspondence run (dictionary, issue "
    "counts, str, _expandable/_expanded flags, parent pointers, def issue codes after every op)",
    "the abstract forest handed to the model is read off the implementation's own parse (HedString children, "
    "short_base_tag, extension, org_tag, takesValue/unique/required of the schema entry); parsing is C02's subject",
    "the interleaving theorem is proved on the ownership-tree layer; BOTH layers are run in the driver on every case and "
    "each is compared with the implementation after every op (text, _expandable/_expanded flags, exceptions), so the "
    "theorem's model is tied to the code directly; heap layer = ownership-tree layer is proved in general for copy "
    "(C09_copy_abs) and kernel-evaluated on an enumerated family for expand/shrink (C09_layers_agree_family), not proved "
    "in general",
    "str.casefold() is modelled by the ASCII rule plus the table coq/Gen/C09Fold.v, regenerated on every run from "
    "CPython for every code point the generators can put into a definition name (fail closed); tags, values and "
    "namespaces are ASCII",
]
ASSUMPTIONS = [
    "full HedValidator.validate() is exercised on the implementation only (oracle); the model covers "
    "validate_def_tags / _validate_def_contents",
    "C09_defexpand_valid_iff assumes tag texts non-empty and free of ',', '(' and ')' (wfl); the harness checks this "
    "of every parsed annotation (C02's tokenizer guarantees it); it reuses the C04 lemmas ckey_inj / sort_k_sorted / "
    "sorted_perm_unique",
    "deepcopy is modelled as copying every object (a superset of what is reachable); _original_children, spans and "
    "the DataFrame branch of df_util.shrink_defs (a no-op under pandas 3 copy-on-write) are not modelled",
    "interleaving / refinement theorems assume wf_dict (no Def/Def-expand/Definition inside stored contents, a "
    "placeholder tag present iff takes_value), which is proved to be preserved by check_for_definitions",
    "C09_interleaving is a theorem about the ownership-tree model (DefObj.v) in the mode of the code as it is; the "
    "pointer-level heap model (DefStore.v) is proved equal to it for copy only and kernel-checked on 190 annotations x "
    "op sequences of length <= 4 for expand/shrink (C09_layers_agree_family); both models are compared with the "
    "implementation after every op",
    "C09_shrink_expand_t needs an annotation without written Def-expand tags; C09_expansion_declarative needs at most "
    "one placeholder tag in the stored content (true of accepted value-taking definitions as parsed; hypothesis, not "
    "derived from acceptance); C09_check_for_definitions_fold holds by construction of the model",
    "theorems with fx = false / fs = false are records of defects repaired by 60986da / cbb8087, not statements "
    "about /repo",
]

_schemas = {}
MODES = ["std", "tl", "grp"]     # 8.3.0 / 8.3.0 loaded under the namespace tl: / group of 8.3.0 and sc:score_2.0.0


def schema(mode="std"):
    """The schema (group) of a case: plain, loaded under a namespace, or a group with a prefixed library."""
    if mode not in _schemas:
        from hed.schema import load_schema
        data = os.path.join(C.REPO, "hed/schema/schema_data")
        if mode == "std":
            _schemas[mode] = load_schema(os.path.join(data, "HED8.3.0.xml"))
        elif mode == "tl":
            _schemas[mode] = load_schema(os.path.join(data, "HED8.3.0.xml"), schema_namespace="tl:")
        else:
            from hed.schema.hed_schema_group import HedSchemaGroup
            _schemas[mode] = HedSchemaGroup([schema("std"),
                                             load_schema(os.path.join(data, "HED_score_2.0.0.xml"),
                                                         schema_namespace="sc:")])
    return _schemas[mode]


def strip_ns(t):
    """'sc:Def/A' -> ('sc:', 'Def/A'): a library namespace is a prefix ending in ':' before the first '/'."""
    i = t.find(":")
    if i != -1 and (t.find("/") == -1 or i < t.find("/")):
        return t[:i + 1], t[i + 1:]
    return "", t


def make_prefixer(rng, mode):
    """Namespace of every tag text of a case: none / always tl: / per tag text sc: or none (kept per text, so equal
    tags stay equal)."""
    memo = {}

    def pf(t):
        ns, bare = strip_ns(t)
        if ns or mode == "std":
            return t
        if mode == "tl":
            return "tl:" + bare
        key = bare.split("/")[0]          # Label/# and Label/3 must agree
        if key not in memo:
            memo[key] = rng.choice(["sc:", ""])
        return memo[key] + bare
    return pf


def map_tags(n, pf):
    if isinstance(n, str):
        return pf(n)
    return [map_tags(c, pf) for c in n]


def translate():
    """Fail closed when the Coq-side switches differ from FIXED / FIXED_F2."""
    src = open(os.path.join(C.COQ, "Model/DefStore.v")).read()
    m1 = re.search(r"Definition current_fx : bool := (true|false)\.", src)
    m2 = re.search(r"Definition current_fs : bool := (true|false)\.", src)
    if not m1 or not m2:
        raise RuntimeError("current_fx/current_fs not found in Model/DefStore.v")
    if (m1.group(1) == "true") != FIXED or (m2.group(1) == "true") != FIXED_F2:
        raise RuntimeError("FIXED/FIXED_F2 in harness/c09.py differ from current_fx/current_fs in Model/DefStore.v")
    # str.casefold() of every code point the generators can put into a definition name, from CPython
    entries = []
    for ch in fold_alphabet():
        c, cf = ord(ch), ch.casefold()
        if c < 128:
            want = chr(c + 32) if 65 <= c <= 90 else ch
            if cf != want:
                raise RuntimeError(f"casefold of ASCII {c} is not the ASCII rule of Model/Defs.v")
        elif cf != ch:
            entries.append(f"({c}, [{'; '.join(str(ord(x)) for x in cf)}])")
    text = ("(* GENERATED by harness/c09.py translate() from CPython's str.casefold(); do not edit. *)\n"
            "From Coq Require Import List NArith.\nImport ListNotations.\n"
            "Definition c09_fold_table : list (N * list N) := [" + "; ".join(entries) + "]%N.\n")
    C.write_if_changed(os.path.join(C.COQ, "Gen/C09Fold.v"), text)


# ---------------------------------------------------------------- structures (harness side, independent of hed)
# node = str (tag text) | list (group)

def txt(n):
    return n if isinstance(n, str) else "(" + ",".join(txt(c) for c in n) + ")"


def ftxt(f):
    return ",".join(txt(n) for n in f)


def parse_struct(s):
    """Inverse of ftxt for printed annotations (tags hold no comma/parenthesis)."""
    stack = [[]]
    cur = ""
    for c in s:
        if c in ",()":
            if cur.strip():
                stack[-1].append(cur.strip())
            cur = ""
            if c == "(":
                stack.append([])
            elif c == ")":
                g = stack.pop()
                stack[-1].append(g)
        else:
            cur += c
    if cur.strip():
        stack[-1].append(cur.strip())
    return stack[0]


def canon(n):
    if isinstance(n, str):
        return n
    return ("G",) + tuple(sorted((canon(c) for c in n), key=repr))


def fcanon_ordered(f):
    """Order of siblings outside Def-expand groups is kept, Def-expand groups are compared up to order."""
    out = []
    for n in f:
        if isinstance(n, str):
            out.append(n)
        elif any(isinstance(c, str) and strip_ns(c)[1].startswith("Def-expand/") for c in n):
            out.append(canon(n))
        else:
            out.append(("g",) + tuple(fcanon_ordered(n)))
    return out


def py_sort(n):
    """HedGroup.sort(): tags by text, then groups by their (sorted) text."""
    if isinstance(n, str):
        return n
    ch = [py_sort(c) for c in n]
    return sorted([c for c in ch if isinstance(c, str)]) + sorted([c for c in ch if not isinstance(c, str)], key=txt)


def all_tags(n):
    if isinstance(n, str):
        return [n]
    return [t for c in n for t in all_tags(c)]


def subst(n, v):
    if isinstance(n, str):
        return n.replace("#", v)
    return [subst(c, v) for c in n]


def split_def(tagtext):
    """'Def/Name/val' -> (name, val)"""
    tagtext = strip_ns(tagtext)[1]
    rest = tagtext.split("/", 1)[1] if "/" in tagtext else ""
    name, _, val = rest.partition("/")
    return name, val


def expansion_of(good, tagtext):
    """Statement: (Def-expand/Name[/v], content with '#' replaced by v) or None when not expandable."""
    name, val = split_def(tagtext)
    d = good.get(name.casefold())
    if d is None or d["takes"] != bool(val):
        return None
    ns, bare = strip_ns(tagtext)
    out = [ns + "Def-expand/" + bare.split("/", 1)[1]]        # the namespace stays
    if d["content"]:
        out.append(subst(d["content"], val) if val else d["content"])
    return out


def py_expand(good, f, top=True):
    out = []
    for n in f:
        if isinstance(n, str):
            e = expansion_of(good, n) if strip_ns(n)[1].startswith("Def/") else None
            out.append(e if e is not None else n)
        else:
            out.append(py_expand(good, n, False))
    return out


def multi_de(f, top=True):
    """Some non-root group holds two direct Def-expand tags (shrink_defs raises KeyError; statement silent)."""
    n = sum(1 for c in f if isinstance(c, str) and (strip_ns(c)[1] == "Def-expand"
                                                    or strip_ns(c)[1].startswith("Def-expand/")))
    if n >= 2 and not top:
        return True
    return any(multi_de(c, False) for c in f if not isinstance(c, str))


def has_defexpand(f):
    return any(strip_ns(t)[1].startswith("Def-expand") for n in f for t in all_tags(n))


# ---------------------------------------------------------------- implementation side

def node_sx(ch):
    """Abstract forest of the implementation's parse, in the driver's input syntax."""
    from hed.models.hed_tag import HedTag
    out = []
    for c in ch:
        if isinstance(c, HedTag):
            b = c.short_base_tag
            if b == "Def":
                bs = "D"
            elif b == "Def-expand":
                bs = "X"
            elif b == "Definition":
                bs = "N"
            else:
                bs = ["O", C.cps(b), c.is_takes_value_tag(),
                      bool(c.has_attribute("unique") or c.has_attribute("required"))]
            out.append(["T", bs, C.cps(c.extension), C.cps(c.org_tag), C.cps(c.schema_namespace)])
        else:
            out.append(["G"] + node_sx(c.children))
    return out


def walk(hs):
    """(shape text, flags, parents_ok, cyclic) by following children with a visited set."""
    from hed.models.hed_tag import HedTag
    flags = []
    ok = [True]
    cyc = [False]
    seen = set()

    def rec(g, is_root):
        if id(g) in seen:
            cyc[0] = True
            return "<cycle>"
        seen.add(id(g))
        parts = []
        for c in g.children:
            if c._parent is not g:
                ok[0] = False
            if isinstance(c, HedTag):
                parts.append(str(c))
                flags.append([str(c), c._expandable is not None, bool(c._expanded)])
            else:
                parts.append(rec(c, False))
        seen.discard(id(g))
        return ",".join(parts) if is_root else "(" + ",".join(parts) + ")"
    shape = rec(hs, True)
    return shape, flags, ok[0], cyc[0]


def dict_snapshot(dd):
    return [[k, e.name, bool(e.takes_value), None if e.contents is None else str(e.contents)]
            for k, e in dd.defs.items()]


CASE_TIMEOUT = int(os.environ.get("C09_CASE_TIMEOUT", "120"))   # seconds; a traversal of a cyclic tree never terminates


def _alarm(signum, frame):
    raise TimeoutError("operation did not terminate")


def impl_one(case):
    """impl_one_inner under an alarm: a hang is reported, not waited for."""
    import signal
    schema(case.get("mode", "std"))            # imports and schema load happen outside the alarm
    from hed.validator.def_validator import DefValidator  # noqa
    signal.signal(signal.SIGALRM, _alarm)
    signal.alarm(CASE_TIMEOUT)
    try:
        return impl_one_inner(case)
    except TimeoutError:
        return {"exn": "Timeout: an operation did not terminate", "defs": [], "steps": []}
    finally:
        signal.alarm(0)


def impl_one_inner(case):
    """Observable behaviour of the implementation on one case."""
    from hed.models.hed_string import HedString
    from hed.models.definition_dict import DefinitionDict
    from hed.validator.def_validator import DefValidator
    S = schema(case.get("mode", "std"))
    r = {"defs": [], "steps": [], "def_forests": []}
    try:
        dd = DefinitionDict()
        for d in case["defs"]:
            hs = HedString(d, S)
            r["def_forests"].append(node_sx(hs.children))
            before = dict_snapshot(dd)
            iss = dd.check_for_definitions(hs)
            r["defs"].append({"n": len(iss), "codes": sorted(set(i["code"] for i in iss)),
                              "unchanged": before == dict_snapshot(dd),
                              "added": [row[0] for row in dict_snapshot(dd)[len(before):]],
                              "prefix_kept": dict_snapshot(dd)[:len(before)] == before})
        r["dict"] = dict_snapshot(dd)
        hs = HedString(case["ann"], S, dd)
        r["forest"] = node_sx(hs.children)
        # hypothesis wfl of C09_defexpand_valid_iff: tag texts are non-empty and free of ',', '(' and ')'
        r["wf_text"] = all(str(t) and not any(c in str(t) for c in ",()") for t in hs.get_all_tags())
        dv = DefValidator(dd)
    except Exception as e:  # noqa
        r["exn"] = "setup:" + type(e).__name__ + ":" + str(e)[:100]
        return r
    saved = []                 # objects the working one was copied from, most recent first
    texts = {}                 # id(object) -> text it had when last worked on

    def observe(op):
        st = {"op": op}
        shape, flags, pok, cyc = walk(hs)
        st["cyclic"] = cyc
        try:
            st["str"] = str(hs)
        except RecursionError:
            st["exn"] = "RecursionError"
            return st
        st["shape"], st["flags"], st["parents"] = shape, flags, pok
        try:
            st["codes"] = [i["code"] for i in dv.validate_def_tags(hs)]
        except Exception as e:  # noqa
            st["codes"] = "exn:" + type(e).__name__
        return st
    r["steps"].append(observe("init"))
    for op in case["ops"]:
        try:
            if op == "E":
                hs.expand_defs()
            elif op == "S":
                hs.shrink_defs()
            elif op == "C":
                texts[id(hs)] = str(hs)
                saved.insert(0, hs)
                hs = hs.copy()
            elif op == "O":
                if saved:
                    texts[id(hs)] = str(hs)
                    hs, saved[0] = saved[0], hs
            elif op == "V":
                before = str(hs)
                full = [i["code"] for i in hs.validate()]
                st_extra = {"full": full, "pure": before == str(hs)}
        except Exception as e:  # noqa
            r["steps"].append({"op": op, "exn": type(e).__name__})
            break
        st = observe(op)
        if op == "V":
            st.update(st_extra)
        # copies are independent objects: every other live object still prints as it did
        try:
            st["others_intact"] = all(str(o) == texts[id(o)] for o in saved)
        except RecursionError:
            st["others_intact"] = False
        r["steps"].append(st)
        if "exn" in st or st["cyclic"]:
            break
    return r


def impl_column(case):
    """df_util.expand_defs / shrink_defs on a Series (fresh HedString per row)."""
    import pandas as pd
    from hed.models import df_util
    from hed.models.definition_dict import DefinitionDict
    S = schema(case.get("mode", "std"))
    dd = DefinitionDict()
    from hed.models.hed_string import HedString
    for d in case["defs"]:
        dd.check_for_definitions(HedString(d, S))
    rows = case["rows"]
    out = {}
    try:
        out["def_forests"] = [node_sx(HedString(d, S).children) for d in case["defs"]]
        out["forests"] = [node_sx(HedString(r, S, dd).children) for r in rows]
        s1 = pd.Series(list(rows))
        df_util.expand_defs(s1, S, dd)
        out["expand"] = [str(x) for x in s1]
        s2 = pd.Series(list(rows))
        df_util.shrink_defs(s2, S)
        out["shrink"] = [str(x) for x in s2]
        s3 = pd.Series(list(out["expand"]))
        df_util.shrink_defs(s3, S)
        out["roundtrip"] = [str(x) for x in s3]
    except Exception as e:  # noqa
        out["exn"] = type(e).__name__ + ":" + str(e)[:100]
    return out


# ---------------------------------------------------------------- generators

PLAIN = ["Red", "Blue", "Green", "Square", "Circle", "Triangle", "Item", "Sensory-event", "Agent-action"]
VALUED = ["Label/x1", "Label/abc", "Item-count/3", "Distance/3 m", "Frequency/5 Hz", "Weight/2 kg", "Age/3"]
PHS = ["Label/#", "Item-count/#", "Distance/# m", "Frequency/# Hz", "Weight/# kg", "Age/#"]
NAMES = ["MyDef", "A1", "Pq", "Cross-fix", "zz", "Long-definition-name", "B",
         # names whose lower() differs from their casefold(): sharp s, final sigma, ligature; plus a simple accent
         "Stra\u00dfe", "Ma\u00df", "\u039b\u03cc\u03b3\u03bf\u03c2", "\ufb01x", "\u00c9a"]


def fold_alphabet():
    """Every code point the generators can put into a definition name (names and their case variants)."""
    chars = set()
    for n in NAMES:
        for v in (n, n.upper(), n.lower(), n.casefold(), n.title(), n.swapcase()):
            chars |= set(v)
    return sorted(chars)
VALUES = ["3", "x1", "45", "7"]


def gen_content(rng, depth, n=None):
    out = []
    for _ in range(n or rng.randint(1, 4)):
        x = rng.random()
        if depth > 0 and x < 0.25:
            out.append(gen_content(rng, depth - 1))
        elif x < 0.75:
            out.append(rng.choice(PLAIN))
        else:
            out.append(rng.choice(VALUED))
    return out


def put_placeholder(rng, content, ph):
    """Replace one random tag position by the placeholder tag (in place)."""
    paths = []

    def rec(g, p):
        for i, c in enumerate(g):
            if isinstance(c, str):
                paths.append(p + [i])
            else:
                rec(c, p + [i])
    rec(content, [])
    p = rng.choice(paths)
    g = content
    for i in p[:-1]:
        g = g[i]
    g[p[-1]] = ph


INVALID_KINDS = ["two_groups", "extra_tag", "name_slash", "name_hash", "def_inside", "defexpand_inside",
                 "definition_inside", "two_placeholders", "ph_without_takes", "takes_without_ph",
                 "takes_no_content", "ph_on_non_tv", "double_hash", "nested_definition", "ungrouped"]


def gen_def(rng, name, kind="valid"):
    """A definition string with the verdict the statement gives it.
    valid: True / False / None (statement silent: correspondence only); need_issue: an issue must be reported."""
    takes = rng.random() < 0.45
    content = gen_content(rng, 2) if rng.random() < 0.88 else None
    if takes and content is None:
        content = gen_content(rng, 1)
    if takes:
        put_placeholder(rng, content, rng.choice(PHS))
    d = {"name": name, "takes": takes, "content": content, "valid": True, "need_issue": False, "kind": kind}
    dtag = "Definition/" + name + ("/#" if takes else "")
    group = [dtag] + ([content] if content is not None else [])
    if content is not None and rng.random() < 0.2:
        group = [content, dtag]
    top = [group]
    if kind == "valid":
        pass
    elif kind == "two_ph_no_takes":      # accepted by the code; the statement's iff holds (not exactly one '#')
        d["takes"], takes = False, False
        d["content"] = content = gen_content(rng, 1, 2) + [rng.choice(PHS), rng.choice(PHS)]
        top = [["Definition/" + name, content]]
    elif kind == "ph_non_tv_no_takes":   # one '#' on a non-value-taking tag, plain name: code rejects; statement silent
        d["takes"] = False
        content = gen_content(rng, 1) + [rng.choice(["Red/#", "Square/#"])]
        top = [["Definition/" + name, content]]
        d["valid"] = None
    elif kind == "unique_tag":           # code rejects (BAD_PROP_IN_DEFINITION); statement silent
        d["takes"] = False
        content = gen_content(rng, 1) + ["Event-context"]
        top = [["Definition/" + name, content]]
        d["valid"] = None
    else:
        d["valid"], d["need_issue"] = False, True
        if kind == "two_groups":
            group.append(gen_content(rng, 1))
            if content is None:
                group.append(gen_content(rng, 1))
        elif kind == "extra_tag":
            group.insert(rng.randint(0, len(group)), rng.choice(PLAIN))
        elif kind == "name_slash":
            dtag = "Definition/" + name + "/sub" + ("/#" if takes else "")
            top = [[dtag] + ([content] if content is not None else [])]
        elif kind == "name_hash":
            dtag = "Definition/" + name + "#" + ("/#" if takes else "")
            top = [[dtag] + ([content] if content is not None else [])]
        elif kind in ("def_inside", "defexpand_inside", "definition_inside"):
            if content is None:
                content = gen_content(rng, 1)
            extra = {"def_inside": "Def/Other", "defexpand_inside": ["Def-expand/Other", ["Red"]],
                     "definition_inside": "Definition/Inner"}[kind]
            tgt = content
            while rng.random() < 0.4 and any(isinstance(c, list) for c in tgt):
                tgt = rng.choice([c for c in tgt if isinstance(c, list)])
            tgt.insert(rng.randint(0, len(tgt)), extra)
            top = [[dtag, content]]
        elif kind == "two_placeholders":
            content = gen_content(rng, 1) + [rng.choice(PHS), rng.choice(PHS)]
            rng.shuffle(content)
            top = [["Definition/" + name + "/#", content]]
        elif kind == "ph_without_takes":
            content = gen_content(rng, 2)
            put_placeholder(rng, content, rng.choice(PHS))
            top = [["Definition/" + name, content]]
        elif kind == "takes_without_ph":
            top = [["Definition/" + name + "/#", gen_content(rng, 2)]]
        elif kind == "takes_no_content":
            top = [["Definition/" + name + "/#"]]
        elif kind == "ph_on_non_tv":
            content = gen_content(rng, 1) + [rng.choice(["Red/#", "Square/#"])]
            top = [["Definition/" + name + "/#", content]]
        elif kind == "double_hash":
            content = gen_content(rng, 1) + [rng.choice(["Label/##", "Label/# #", "Item-count/##"])]
            top = [["Definition/" + name + "/#", content]]
        elif kind == "nested_definition":
            top = [[group]]
            d["need_issue"] = False
        elif kind == "ungrouped":
            top = ["Definition/" + name]
            d["need_issue"] = False
    # other top-level material in the same string is ignored by the gatherer
    if rng.random() < 0.15:
        top = top + [rng.choice(PLAIN)]
    d["top"] = top
    d["text"] = ftxt(top)
    return d


def gen_defs(rng, malformed):
    """A list of definition strings; returns (defs, good) with good = what the statement lets in."""
    n = rng.randint(1, 4)
    names = rng.sample(NAMES, n)
    defs = []
    for nm in names:
        kind = "valid"
        x = rng.random()
        if malformed and x < 0.5:
            kind = rng.choice(INVALID_KINDS)
        elif x < 0.06:
            kind = "two_ph_no_takes"
        elif x < 0.09:
            kind = "unique_tag"
        elif x < 0.11:
            kind = "ph_non_tv_no_takes"
        defs.append(gen_def(rng, nm, kind))
    # duplicates (same name up to case) are reported and ignored
    if rng.random() < (0.5 if malformed else 0.12):
        src = rng.choice(defs)
        dup = gen_def(rng, rng.choice([src["name"], src["name"].upper(), src["name"].lower(),
                                       src["name"].casefold(), src["name"].swapcase()]), "valid")
        dup["dup_candidate"] = True
        defs.insert(rng.randint(1, len(defs)), dup)
    good = {}
    for d in defs:
        key = d["name"].casefold()
        if d["valid"] and key in good:
            d["valid"], d["need_issue"], d["kind"] = False, True, "duplicate"
        elif d["valid"]:
            good[key] = d
        elif d["valid"] is None:
            d["shadow"] = key        # the code rejects it; a later same-name definition is then not a duplicate
    return defs, good


def pack_defs(rng, defs):
    """Distribute the definitions over strings: one per string, or 2-4 consecutive ones in ONE string (the verdict
    of a definition must not depend on what precedes it in the same string, duplicate names apart)."""
    x = rng.random()
    if x < 0.35 or len(defs) == 1:
        sizes = [1] * len(defs)
    elif x < 0.65:
        sizes = [len(defs)]
    else:
        sizes, left = [], len(defs)
        while left:
            k = rng.randint(1, min(4, left))
            sizes.append(k)
            left -= k
    texts, pos = [], 0
    for k in sizes:
        texts.append(",".join(d["text"] for d in defs[pos:pos + k]))
        pos += k
    return texts, sizes


def def_ref(rng, good, wrong=0.12):
    if not good or rng.random() < 0.04:
        return "Def/Unknown" + rng.choice(["", "/3"])
    d = rng.choice(list(good.values()))
    nm = d["name"]
    if rng.random() < 0.1:
        nm = rng.choice([nm.lower(), nm.upper(), nm.casefold()])
    takes = d["takes"]
    if rng.random() < wrong:
        takes = not takes
    return "Def/" + nm + ("/" + rng.choice(VALUES) if takes else "")


DE_VARIANTS = ["sorted", "sorted", "as_defined", "shuffled", "wrong_tag", "extra_sibling", "missing_content",
               "tag_last", "literal_placeholder", "unknown", "wrong_valueness"]


def written_defexpand(rng, good, variant=None):
    """A Def-expand group as a user might write it + what the statement says about it."""
    variant = variant or rng.choice(DE_VARIANTS)
    if not good or variant == "unknown":
        return ["Def-expand/Unknown", ["Red"]], {"variant": "unknown", "equal": False}
    d = rng.choice(list(good.values()))
    v = rng.choice(VALUES) if d["takes"] else ""
    tagt = "Def-expand/" + d["name"] + ("/" + v if v else "")
    content = d["content"]
    exp = subst(content, v) if (content and v) else content
    # stored order: sorted with the '#' still in place, value plugged in afterwards
    stored = (subst(py_sort(content), v) if v else py_sort(content)) if content else None
    info = {"variant": variant, "name": d["name"], "value": v}
    if variant == "wrong_valueness":
        tagt = "Def-expand/" + d["name"] + ("" if v else "/3")
        g = [tagt] + ([exp] if exp else [])
        info["equal"] = False
        return g, info
    if variant == "sorted":
        body = stored
    elif variant == "as_defined":
        body = exp
    elif variant == "shuffled":
        def sh(n):
            if isinstance(n, str):
                return n
            c = [sh(x) for x in n]
            rng.shuffle(c)
            return c
        body = sh(exp) if exp else None
    elif variant == "wrong_tag":
        body = (list(stored) if stored else []) + [rng.choice(PLAIN + ["Label/other"])]
        if exp and rng.random() < 0.5:
            body = list(stored)[:-1] or ["Item"]
            if canon(body) == canon(exp):
                body = body + ["Item"]
    elif variant == "literal_placeholder":
        body = py_sort(content) if content else None     # '#' left in place
    else:
        body = stored
    g = [tagt] + ([body] if body else [])
    if variant == "extra_sibling":
        g.append(rng.choice(PLAIN))
    elif variant == "missing_content":
        g = [tagt]
    elif variant == "tag_last":
        g = ([body] if body else []) + [tagt]
    want = [tagt] + ([exp] if exp else [])
    info["equal"] = canon(g) == canon(want)
    info["in_stored_order"] = g == [tagt] + ([stored] if stored else [])
    return g, info


def gen_ann(rng, good, depth=3, with_de=None, malformed=False):
    info = []

    def rec(d, top):
        out = []
        for _ in range(rng.randint(1, 4)):
            x = rng.random()
            if d > 0 and x < 0.22:
                out.append(rec(d - 1, False))
            elif x < 0.55:
                out.append(def_ref(rng, good))
            elif x < 0.62 and with_de:
                g, i = written_defexpand(rng, good)
                info.append(i)
                out.append(g)
            elif malformed and x < 0.66:
                g, i = written_defexpand(rng, good)
                g2, _ = written_defexpand(rng, good)
                info.append({"variant": "two_de_tags"})
                out.append([g[0] if isinstance(g[0], str) else g[-1], g2[0] if isinstance(g2[0], str) else g2[-1]]
                           + [c for c in g if not isinstance(c, str)])
            elif malformed and x < 0.69:
                out.append(rng.choice(["Def-expand/MyDef", "Def", "Def-expand"]))
            elif x < 0.9:
                out.append(rng.choice(PLAIN))
            else:
                out.append(rng.choice(VALUED))
        return out
    f = rec(depth, True)
    return f, info


# E,S,copy,E(copy) / E,copy,S(copy),E(copy),S(orig) / both objects worked on alternately
INTERLEAVINGS = ["ESCE", "ECSEOS", "ESCEOE", "ECSEOSE", "CEOEOS", "ECOSOE", "ESCEVOEV", "CEOSE", "ECSOS",
                 "ECVSEOVS", "ESCESOES"]


def gen_ops(rng, maxlen=6):
    n = rng.randint(0, maxlen)
    if rng.random() < 0.25:      # interleavings of a copy and its source
        return rng.choice(INTERLEAVINGS)
    return "".join(rng.choices("ESCVO", weights=[38, 28, 14, 10, 10], k=n))


def apply_mode(case, mode, rng):
    """Put the case under a schema configuration: every tag text gets its namespace (definitions, declared contents,
    annotation, column rows); what the statement says about the case does not change."""
    case["mode"] = mode
    if mode == "std":
        return case
    pf = make_prefixer(rng, mode)
    for d in case["meta"]:
        if "top" in d:
            d["top"] = map_tags(d["top"], pf)
            d["text"] = ftxt(d["top"])
        else:
            d["text"] = ftxt(map_tags(parse_struct(d["text"]), pf))
        if d.get("content") is not None:
            d["content"] = map_tags(d["content"], pf)
    texts, pos = [], 0
    for k in case.get("pack") or [1] * len(case["meta"]):
        texts.append(",".join(d["text"] for d in case["meta"][pos:pos + k]))
        pos += k
    case["defs"] = texts
    if "ann_struct" in case:
        case["ann_struct"] = map_tags(case["ann_struct"], pf)
        case["ann"] = ftxt(case["ann_struct"]).replace(",", case.get("sep", ","))
    if "rows" in case:
        case["rows"] = [ftxt(map_tags(parse_struct(r), pf)) for r in case["rows"]]
    return case


def pick_mode(rng):
    return rng.choices(MODES, weights=[60, 20, 20])[0]


def gen_case(rng, malformed=False):
    defs, good = gen_defs(rng, malformed)
    with_de = rng.random() < 0.3
    ann, info = gen_ann(rng, good, depth=rng.randint(0, 3), with_de=with_de, malformed=malformed)
    sp = rng.choice([",", ",", ", ", " , "])
    texts, sizes = pack_defs(rng, defs)
    case = {"defs": texts, "pack": sizes, "meta": defs, "good": good, "ann": ftxt(ann).replace(",", sp), "sep": sp,
            "ann_struct": ann, "de_info": info, "ops": gen_ops(rng), "kind": "malformed" if malformed else "valid"}
    return apply_mode(case, pick_mode(rng), rng)


def de_case(rng, variant):
    """One annotation = exactly one written Def-expand group (the defexpand_valid_iff clause)."""
    while True:
        defs, good = gen_defs(rng, False)
        if good:
            break
    g, info = written_defexpand(rng, good, variant)
    texts, sizes = pack_defs(rng, defs)
    case = {"defs": texts, "pack": sizes, "meta": defs, "good": good, "ann": txt(g), "ann_struct": [g],
            "de_info": [info], "ops": rng.choice(["V", "", "VS", "S", "ES", "SE", "EV", "E", "VEV", "ECV", "EVCOV"]),
            "kind": "defexpand", "single_de": info}
    return apply_mode(case, pick_mode(rng), rng)


def fixed_case(defs, ann, ops, kind="corpus"):
    """Corpus case: all definitions valid as written; verdicts derived like for generated ones."""
    meta = []
    good = {}
    sizes = []
    for d in defs:
        groups = [g for g in parse_struct(d) if isinstance(g, list)]
        sizes.append(len(groups))
        for grp in groups:
            dtag = [c for c in grp if isinstance(c, str)][0]
            content = ([c for c in grp if isinstance(c, list)] or [None])[0]
            name = dtag.split("/")[1]
            m = {"name": name, "takes": dtag.endswith("/#"), "content": content, "valid": True, "need_issue": False,
                 "kind": "valid", "text": txt(grp)}
            if name.casefold() in good:
                m["valid"], m["need_issue"], m["kind"] = False, True, "duplicate"
            else:
                good[name.casefold()] = m
            meta.append(m)
    return {"defs": defs, "pack": sizes, "meta": meta, "good": good, "ann": ann, "ann_struct": parse_struct(ann),
            "de_info": [], "ops": ops, "kind": kind}


def corpus():
    d1 = ["(Definition/MyDef,(Red,Blue))"]
    d2 = ["(Definition/MyDef,(Red,Blue))", "(Definition/Pq/#,(Label/#,(Distance/3 m,Green)))", "(Definition/B)"]
    out = [
        fixed_case(d1, "Def/MyDef", "EE", "F1-witness"),
        fixed_case(d1, "(Def-expand/MyDef,(Blue,Red)),Def/MyDef", "ESE", "F3-witness"),
        fixed_case(d2, "Def/MyDef,(Def/Pq/3,Green),(Square,(Def/B,Def/mydef))", "ESCESV"),
        fixed_case(d2, "Def/MyDef,(Def/Pq/3,Green)", "ECE"),
        fixed_case(d2, "Def/MyDef,(Def/Pq/3,Green)", "CESCES"),
        fixed_case(d2, "(Def-expand/MyDef,Def-expand/B,(Blue,Red))", "S", "two-de-tags"),
        fixed_case(d2 + ["(Definition/mydef,(Green))"], "Def/MyDef", "ES"),
        fixed_case(["(Definition/Pq/#,(Label/#,(Distance/3 m,Green))),(Definition/MyDef,(Red,Blue)),(Definition/B)"],
                   "Def/MyDef,(Def/Pq/3,Green),Def/B", "ES", "several-definitions-in-one-string"),
        fixed_case(["(Definition/B),(Definition/Pq/#,(Label/#)),(Definition/MyDef,(Red,Blue)),(Definition/pq,(Red))"],
                   "Def/MyDef,(Def/Pq/3,Green),Def/B", "E", "several-definitions-in-one-string"),
        fixed_case(d2, "Def/MyDef,(Def/Pq/3,Green)", "ESCE", "copy-interleaving"),
        apply_mode(fixed_case(d2, "Def/MyDef,(Def/Pq/3,Green),(Def-expand/B)", "ESEV", "namespace"), "tl",
                   random.Random(1)),
        apply_mode(fixed_case(d2, "Def/MyDef,(Def/Pq/3,Green),(Def-expand/B)", "ESCEOS", "namespace"), "grp",
                   random.Random(2)),
        apply_mode(fixed_case(d2, "Def/MyDef,(Def/Pq/3,Green),(Def-expand/MyDef,(Blue,Red))", "SEV", "namespace"), "grp",
                   random.Random(5)),
        fixed_case(["(Definition/Stra\u00dfe,(Red,Blue))", "(Definition/STRASSE,(Green))",
                    "(Definition/\u039b\u03cc\u03b3\u03bf\u03c2/#,(Label/#)),(Definition/\u039b\u038c\u0393\u039f\u03a3,(Red))"],
                   "Def/strasse,Def/Stra\u00dfe,(Def/\u039b\u038c\u0393\u039f\u03a3/3,Green)", "ES", "casefold-names"),
        fixed_case(d2, "Def/MyDef,(Def/Pq/3,Green)", "ECSEOS", "copy-interleaving"),
        fixed_case(d2, "Def/MyDef,(Def/Pq/3,Green)", "ECSEOSEV", "copy-interleaving"),
        fixed_case(d2, "(Def-expand/MyDef,(Red,Green)),Def/MyDef", "EV", "mismatch-then-expand"),
        fixed_case(d2, "(Def-expand/Pq/3,(Label/4,(Distance/3 m,Green))),Def/B", "VEVSV", "mismatch-then-expand"),
    ]
    w = fixed_case(d1, "(Def-expand/MyDef,(Red,Blue))", "V", "F2-witness")
    w["single_de"] = {"variant": "as_defined", "equal": True, "in_stored_order": False, "name": "MyDef", "value": ""}
    out.append(w)
    w = fixed_case(d1, "(Def-expand/MyDef,(Blue,Red))", "V", "F2-sorted")
    w["single_de"] = {"variant": "sorted", "equal": True, "in_stored_order": True, "name": "MyDef", "value": ""}
    out.append(w)
    w = fixed_case(["(Definition/Q/#,(Label/#))"], "(Def-expand/Q/3,(Label/#))", "V", "F4-witness")
    w["single_de"] = {"variant": "literal_placeholder", "equal": False, "in_stored_order": False, "name": "Q",
                      "value": "3"}
    out.append(w)
    return out


# ---------------------------------------------------------------- oracle (statement, on the implementation only)

def strip_case(case):
    """JSON-able payload with everything the oracle needs (replayable)."""
    return {k: case[k] for k in ("defs", "pack", "mode", "ann", "ops", "kind", "meta", "good", "de_info", "single_de", "ann_struct")
            if k in case}


def slim_case(case):
    return {"defs": case["defs"], "ann": case["ann"], "ops": case["ops"], "mode": case.get("mode", "std")}


def oracle(case, r, res):
    """Each clause of the statement checked on the implementation's behaviour."""
    cc = strip_case(case)
    if "exn" in r:
        res.report("never-raises", cc, r["exn"])
        return
    good = case["good"]
    # ---- acceptance: every definition gets the verdict it would get alone, wherever it stands in its string
    pos = 0
    for size, text, o in zip(case.get("pack") or [1] * len(case["defs"]), case["defs"], r["defs"]):
        ms = case["meta"][pos:pos + size]
        pos += size
        if not o.get("prefix_kept", True):
            res.report("definition-not-stored", cc, f"{text!r} changed entries stored earlier")
        for m in ms:
            key = m["name"].casefold()
            if m["valid"] is True and key not in o["added"]:
                res.report("definition-accepted", cc, f"valid definition {m['text']!r} not stored by {text!r} "
                                                      f"(issues={o['n']} {o['codes']})")
            if m["valid"] is False and m["kind"] != "duplicate" and key in o["added"] \
                    and not any(x is not m and x["valid"] and x["name"].casefold() == key for x in ms):
                res.report("definition-not-stored", cc, f"{m['kind']}: {m['text']!r} in {text!r} was stored")
        if all(m["valid"] is not None for m in ms):
            want_added = [m["name"].casefold() for m in ms if m["valid"]]
            if o["added"] != want_added:
                res.report("definition-not-stored" if len(o["added"]) > len(want_added) else "definition-accepted",
                           cc, f"{text!r} stored {o['added']}, expected {want_added}")
            need = sum(1 for m in ms if m["need_issue"])
            if need == 0 and o["n"] != 0:
                res.report("definition-accepted", cc, f"valid definitions {text!r} reported {o['n']} {o['codes']}")
            if o["n"] < need or (o["n"] and o["codes"] != ["DEFINITION_INVALID"]):
                res.report("definition-rejected", cc,
                           f"{[m['kind'] for m in ms]}: {text!r} issues={o['n']} {o['codes']}, at least {need} expected")
    shadowed = {m["shadow"] for m in case["meta"] if "shadow" in m}
    stored = {row[0]: row for row in r["dict"]}
    if not shadowed:
        if set(stored) != set(good):
            res.report("definition-dictionary", cc, f"stored={sorted(stored)} expected={sorted(good)}")
        for k, m in good.items():
            if k in stored:
                row = stored[k]
                want = None if m["content"] is None else canon(m["content"])
                got = None if row[3] is None else canon(parse_struct(row[3])[0] if row[3] != "()" else [])
                if row[2] != m["takes"] or got != want or row[1] != m["name"]:
                    res.report("definition-content", cc, f"{k}: stored={row} declared={m['text']!r}")
    # ---- op sequence laws
    steps = r["steps"]
    for k, st in enumerate(steps):
        if not st.get("others_intact", True):
            res.report("copy-independent", cc,
                       f"after ops {case['ops'][:k]!r} another live object (copy source / copy) changed its text")
            break
    # validation looks at the annotation only: equal text => equal Def/Def-expand verdict, whatever the history
    by_text = {}
    for k, st in enumerate(steps):
        if "str" in st and "codes" in st:
            first = by_text.setdefault(st["str"], (k, st["codes"]))
            if first[1] != st["codes"]:
                res.report("validate-depends-on-text-only", cc,
                           f"{st['str']!r}: codes {first[1]} after ops {case['ops'][:first[0]]!r} but "
                           f"{st['codes']} after ops {case['ops'][:k]!r}")
                break
    if shadowed:
        return
    seen_e = False        # an expand_defs happened on this object lineage
    e_then_s = False      # ... followed later by a shrink_defs
    e_since_s = False     # ... with no shrink_defs since
    base_text = None      # text before the last expand when it held no Def-expand
    others = []           # the same bookkeeping for the saved objects
    written = has_defexpand(case["ann_struct"])
    for k in range(1, len(steps)):
        prev, st = steps[k - 1], steps[k]
        op = st["op"]
        if "str" not in prev:
            break
        before = parse_struct(prev["str"])
        if op == "C":
            others.insert(0, (seen_e, e_then_s, e_since_s, base_text, prev["str"]))
        if op == "O":
            if "exn" in st:
                res.report("copy-validate-never-raise", cc, f"{op}: {st['exn']}")
                return
            if others:
                mine = (seen_e, e_then_s, e_since_s, base_text, prev["str"])
                seen_e, e_then_s, e_since_s, base_text, want_text = others[0]
                others[0] = mine
                if st["str"] != want_text:
                    res.report("copy-independent", cc, f"after ops {case['ops'][:k]!r}: the other object prints "
                                                       f"{st['str']!r}, it was left as {want_text!r}")
            elif st["str"] != prev["str"]:
                res.report("copy-validate-keep-text", cc, f"{op}: {prev['str']!r} -> {st['str']!r}")
            continue
        if op == "E":
            want = py_expand(good, before)
            if "exn" in st:
                fid = "C09-F1" if (e_since_s and not FIXED) else None
                res.report("expand-twice-equals-once" if e_since_s else "expand-never-raises", cc,
                           f"after ops {case['ops'][:k]!r}: {st['exn']}", fid=fid)
                return
            got = parse_struct(st["str"])
            if fcanon_ordered(got) != fcanon_ordered(want):
                fid = None
                if e_then_s and written and not FIXED:
                    fid = "C09-F3"
                res.report("expand-replaces-every-def", cc,
                           f"after ops {case['ops'][:k]!r}: got {st['str']!r} want {ftxt(want)!r}", fid=fid)
            if not has_defexpand(before):
                base_text = before
            elif not e_since_s:
                base_text = None
            seen_e, e_since_s = True, True
        elif op == "S":
            if "exn" in st:
                if not (st["exn"] == "KeyError" and multi_de(before)):
                    res.report("shrink-never-raises", cc, f"after ops {case['ops'][:k]!r}: {st['exn']}")
                return
            if e_since_s and base_text is not None:
                if fcanon_ordered(parse_struct(st["str"])) != fcanon_ordered(base_text):
                    res.report("shrink-restores-original", cc,
                               f"after ops {case['ops'][:k]!r}: got {st['str']!r} want {ftxt(base_text)!r}")
            e_then_s = e_then_s or seen_e
            e_since_s = False
            base_text = None
        else:
            if "exn" in st:
                res.report("copy-validate-never-raise", cc, f"{op}: {st['exn']}")
                return
            if st["str"] != prev["str"]:
                res.report("copy-validate-keep-text", cc, f"{op}: {prev['str']!r} -> {st['str']!r}")
            if op == "V" and not st.get("pure", True):
                res.report("validate-pure", cc, "validate changed the string")
        if "str" in st and st["shape"] != st["str"]:
            res.report("str-is-tree", cc, f"str={st['str']!r} tree={st['shape']!r}")
        if "str" in st and not st["parents"]:
            res.report("parent-pointers", cc, f"after ops {case['ops'][:k]!r} a child's _parent is not its container")
    # ---- Def-expand accepted iff content equals the expansion up to sibling order
    info = case.get("single_de")
    if info and steps and "codes" in steps[0]:
        same = [s for s in steps if s.get("str") == steps[0]["str"] and isinstance(s.get("codes"), list)]
        verdicts = {"DEF_EXPAND_INVALID" not in s["codes"] for s in same}
        if len(verdicts) > 1:
            res.report("validate-depends-on-text-only", cc, f"{case['ann']!r}: verdict changes along {case['ops']!r}")
        accepted = "DEF_EXPAND_INVALID" not in steps[0]["codes"]
        full = next((s["full"] for s in steps if s.get("op") == "V" and "full" in s), None)
        if full is not None and case["ops"].startswith("V") and (info.get("value", "") or "0").isdigit():
            accepted = accepted and "DEF_EXPAND_INVALID" not in full
        if info["equal"] and not accepted:
            fid = "C09-F2" if (not info.get("in_stored_order") and not FIXED_F2) else None
            res.report("defexpand-accepted-when-equal", cc, f"{case['ann']!r} rejected", fid=fid)
        if not info["equal"] and accepted:
            fid = "C09-F4" if (info.get("variant") == "literal_placeholder" and "#" in case["ann"]
                               and not FIXED_F4) else None
            res.report("defexpand-rejected-when-different", cc, f"{case['ann']!r} accepted", fid=fid)


def oracle_column(case, out, res):
    cc = {"defs": case["defs"], "rows": case["rows"], "kind": "column", "mode": case.get("mode", "std")}
    if "exn" in out:
        res.report("column-never-raises", cc, out["exn"])
        return
    good = case["good"]
    for row, e, s, rt in zip(case["rows"], out["expand"], out["shrink"], out["roundtrip"]):
        st = parse_struct(row)
        if "def/" in row.lower():
            if fcanon_ordered(parse_struct(e)) != fcanon_ordered(py_expand(good, st)):
                res.report("column-expand", cc, f"{row!r} -> {e!r}")
            if not has_defexpand(st) and fcanon_ordered(parse_struct(rt)) != fcanon_ordered(st):
                res.report("column-roundtrip", cc, f"{row!r} -> {e!r} -> {rt!r}")
        elif e != row:
            res.report("column-expand-untouched", cc, f"{row!r} -> {e!r}")
        if "def-expand/" not in row.lower() and s != row:
            res.report("column-shrink-untouched", cc, f"{row!r} -> {s!r}")


# ---------------------------------------------------------------- correspondence

def model_line(r, ops):
    return C.to_sx([FIXED, FIXED_F2, r["def_forests"], r["forest"], list(ops)])


def sx_s(x):
    return C.uncps(x) if isinstance(x, list) else x


def compare(case, r, m):
    """Differences between the implementation's behaviour and the extracted model's."""
    diffs = []
    if m[0] != "ok":
        return [f"model failed: {m}"]
    wf, counts, dct = m[1]
    if wf != "1":
        diffs.append("model dictionary is not wf_dict")
    if not r.get("wf_text", True):
        diffs.append("a parsed tag text is empty or holds ',', '(' or ')' (hypothesis wfl of C09_defexpand_valid_iff)")
    if [int(c) for c in counts] != [d["n"] for d in r["defs"]]:
        diffs.append(f"definition issue counts impl={[d['n'] for d in r['defs']]} model={counts}")
    md = [[sx_s(k), sx_s(n), t == "1", None if c == "None" else sx_s(c)] for k, n, t, c in dct]
    if md != r["dict"]:
        diffs.append(f"dictionary impl={r['dict']} model={md}")
    for k, st in enumerate(r["steps"]):
        if k >= len(m[2]):
            diffs.append("model has fewer steps")
            break
        heap, owned, spec, val = m[2][k]
        where = f"after ops {case['ops'][:k]!r}: "
        if "exn" in st:
            if heap[0] != "exn" or heap[1] != st["exn"]:
                diffs.append(where + f"impl raises {st['exn']} model heap={heap[:2]}")
            if owned[0] != "exn" or owned[1] != st["exn"]:
                diffs.append(where + f"impl raises {st['exn']} model tree layer={owned[:2]}")
            break
        if heap[0] != "ok":
            diffs.append(where + f"impl str={st['str']!r} model heap={heap}")
            break
        if sx_s(heap[1]) != st["str"]:
            diffs.append(where + f"str impl={st['str']!r} model={sx_s(heap[1])!r}")
        mf = [[sx_s(a), b == "1", c == "1"] for a, b, c in heap[2][1]] if heap[2][0] == "ok" else heap[2]
        if mf != st["flags"]:
            diffs.append(where + f"flags impl={st['flags']} model={mf}")
        mp = heap[3][1] == "1" if heap[3][0] == "ok" else heap[3]
        if mp != st["parents"]:
            diffs.append(where + f"parents_ok impl={st['parents']} model={mp}")
        if owned[0] != "ok" or sx_s(owned[1]) != st["str"]:
            diffs.append(where + f"tree layer differs: {owned[:2] if owned[0] != 'ok' else sx_s(owned[1])!r} vs {st['str']!r}")
        elif [[sx_s(a), b == "1", c == "1"] for a, b, c in owned[2]] != st["flags"]:
            diffs.append(where + f"tree layer flags differ: impl={st['flags']}")
        mv = list(val[1]) if (isinstance(val, list) and val[0] == "ok") else val
        if mv != st["codes"]:
            diffs.append(where + f"def issue codes impl={st['codes']} model={mv}")
        if FIXED and (spec[0] != "ok" or sx_s(spec[1]) != st["str"]):
            diffs.append(where + f"spec run_t differs: {spec}")
    return diffs


# ---------------------------------------------------------------- run

def column_cases(rng, n):
    out = []
    for _ in range(n):
        while True:
            defs, good = gen_defs(rng, False)
            if not any("shadow" in d for d in defs):
                break
        rows = []
        for _ in range(rng.randint(2, 6)):
            ann, _ = gen_ann(rng, good, depth=rng.randint(0, 2), with_de=False)
            rows.append(ftxt(ann) if rng.random() < 0.8 else ftxt([t for t in ann if isinstance(t, str)
                                                                     and not t.startswith("Def")] or ["Red"]))
        texts, sizes = pack_defs(rng, defs)
        out.append(apply_mode({"defs": texts, "pack": sizes, "meta": defs, "good": good, "rows": rows},
                              pick_mode(rng), rng))
    return out


def run(tier, seed, res, model_ok=True, proof_ok=True):
    rng = random.Random(seed)
    n_valid, n_mal, n_de, n_col = (2000, 900, 700, 120) if tier == "quick" else (24000, 10000, 8000, 1200)
    sc = float(os.environ.get("C09_SCALE", "1"))
    n_valid, n_mal, n_de, n_col = int(n_valid * sc), int(n_mal * sc), int(n_de * sc), int(n_col * sc)
    if not proof_ok:
        n_valid, n_mal, n_de = n_valid * 3, n_mal * 3, n_de * 3
    cases = corpus()
    cases += [gen_case(rng, False) for _ in range(n_valid)]
    cases += [gen_case(rng, True) for _ in range(n_mal)]
    cases += [de_case(rng, DE_VARIANTS[i % len(DE_VARIANTS)]) for i in range(n_de)]
    cols = column_cases(rng, n_col)

    slim = [slim_case(c) for c in cases]
    with Pool(int(C.JOBS)) as pool:
        impl = pool.map(impl_one, slim, chunksize=50)
        colout = pool.map(impl_column, [{"defs": c["defs"], "rows": c["rows"], "mode": c["mode"]} for c in cols],
                          chunksize=10)

    for c, r in zip(cases, impl):
        oracle(c, r, res)
    for c, o in zip(cols, colout):
        oracle_column(c, o, res)

    disagreements = 0
    n_corr = 0
    if model_ok:
        exe = C.build_driver("c09")
        idx = [i for i, r in enumerate(impl) if "exn" not in r]
        mod = C.run_driver(exe, [model_line(impl[i], cases[i]["ops"]) for i in idx])
        n_corr = len(idx)
        for i, m in zip(idx, mod):
            diffs = compare(cases[i], impl[i], m)
            if diffs:
                disagreements += 1
                probe = C.Result(PROP)
                probe.known_ids = {}
                oracle(cases[i], impl[i], probe)
                if not probe.violations:
                    res.violation("correspondence", strip_case(cases[i]), "; ".join(diffs)[:1500], no_input=True)

    # columns: every masked row must print as the model's fresh load + one op
    if model_ok:
        lines, where = [], []
        for ci, (c, o) in enumerate(zip(cols, colout)):
            if "exn" in o:
                continue
            for ri, row in enumerate(c["rows"]):
                for op, key, mask in (("E", "expand", "def/"), ("S", "shrink", "def-expand/")):
                    if mask in row.lower():
                        lines.append(C.to_sx([FIXED, FIXED_F2, o["def_forests"], o["forests"][ri], [op]]))
                        where.append((ci, ri, key))
        for (ci, ri, key), m in zip(where, C.run_driver(exe, lines)):
            n_corr += 1
            heap = m[2][1][0] if m[0] == "ok" else m
            got = colout[ci][key][ri]
            if heap[0] != "ok" or sx_s(heap[1]) != got:
                disagreements += 1
                res.violation("correspondence", {"defs": cols[ci]["defs"], "rows": cols[ci]["rows"], "kind": "column"},
                              f"df_util {key} row {ri}: impl={got!r} model={heap[:2] if heap[0] != 'ok' else sx_s(heap[1])!r}",
                              no_input=True)

    def nontrivial(c):
        return ("Def" in c["ann"]) and len(c["ops"]) >= 1
    distinct = len({(tuple(c["defs"]), c["ann"], c["ops"]) for c in cases if nontrivial(c)})
    hist = {"kind": {}, "ops_len": {}, "def_kinds": {}, "de_variants": {}, "schema_mode": {}, "strings_with_k_defs": {},
            "non_ascii_names": 0}
    for c in cases:
        hist["kind"][c["kind"]] = hist["kind"].get(c["kind"], 0) + 1
        hist["ops_len"][len(c["ops"])] = hist["ops_len"].get(len(c["ops"]), 0) + 1
        hist["schema_mode"][c.get("mode", "std")] = hist["schema_mode"].get(c.get("mode", "std"), 0) + 1
        for k in c.get("pack") or []:
            hist["strings_with_k_defs"][k] = hist["strings_with_k_defs"].get(k, 0) + 1
        for m in c["meta"]:
            hist["non_ascii_names"] += 0 if m["name"].isascii() else 1
            hist["def_kinds"][m["kind"]] = hist["def_kinds"].get(m["kind"], 0) + 1
        for i in c["de_info"]:
            hist["de_variants"][i["variant"]] = hist["de_variants"].get(i["variant"], 0) + 1
    hist["raised"] = sum(1 for r in impl if any("exn" in s for s in r.get("steps", [])))
    return {
        "evaluations": len(cases) + sum(len(c["rows"]) for c in cols),
        "distinct_nontrivial": distinct,
        "rule": "corpus (finding witnesses) + generated definition sets (valid, one of 15 invalid kinds, duplicates) x "
                "nested annotations with Def references / written Def-expand groups x op sequences over "
                "{expand,shrink,copy,validate} of length <= 6 on one object + single written Def-expand groups in 11 "
                "variants + df_util Series columns; non-trivial = the annotation holds a Def/Def-expand tag and at "
                "least one op is applied",
        "samples": [strip_case(cases[0]), strip_case(cases[len(cases) // 3]), strip_case(cases[-1])],
        "histogram": hist,
        "disagreements_checked": disagreements,
        "correspondence_cases": n_corr,
        "column_cases": len(cols),
        "exhaustive": False,
        "fixed_flags": {"FIXED": FIXED, "FIXED_F2": FIXED_F2, "FIXED_F4": FIXED_F4},
    }


def replay(payload):
    case = payload.get("case")
    if not case or "defs" not in case:
        print("no concrete input in replay:", str(payload.get("detail", ""))[:800])
        return 1
    if "rows" in case:
        print("impl:", impl_column(case))
        return 1
    r = impl_one(slim_case(case))
    print("case:", slim_case(case))
    for d, o in zip(case["defs"], r.get("defs", [])):
        print("  def", d, "->", o)
    print("  dict", r.get("dict"))
    for st in r.get("steps", []):
        print("  step", {k: v for k, v in st.items() if k != "flags"})
    print("clause:", payload.get("clause"), "detail:", str(payload.get("detail"))[:600])
    if "meta" in case and "good" in case:
        res = C.Result(PROP)
        res.known_ids = {}
        oracle(case, r, res)
        for v in res.violations:
            print("FAILS:", v["clause"], v["detail"][:300])
        return 1 if res.violations else 0
    return 1
