"""Translators for C01 (fail closed: any unrecognised source shape raises).

T1  hed/errors/error_types.py + hed/errors/error_messages.py decorators  -> kind -> (published code, severity)
T2  CharValidator.*_CHARS, DefTagNames.*, the two regex literals the hand-written scanners were written against
T6  CPython's str.isprintable / isalnum / isalpha as range tables over all 0x110000 code points
Output: coq/Gen/ValidationCodes.v and coq/Gen/UniRanges01.v (written only when the content changed).
"""
import ast
import os
import re

from harness import common as C

# constructor of Model/ValKinds.v  ->  (class in error_types.py, attribute)
KIND_CLASS = {"BAD_DEFINITION_LOCATION": "DefinitionErrors"}
for _k in ("DURATION_HAS_OTHER_TAGS DURATION_WRONG_NUMBER_GROUPS ONSET_NO_DEF_TAG_FOUND ONSET_TOO_MANY_DEFS "
           "ONSET_WRONG_NUMBER_GROUPS ONSET_TAG_OUTSIDE_OF_GROUP ONSET_DEF_UNMATCHED ONSET_PLACEHOLDER_WRONG").split():
    KIND_CLASS[_k] = "TemporalErrors"
OCODES = ["PLACEHOLDER_INVALID", "DEFINITION_INVALID", "TEMPORAL_TAG_ERROR", "DEF_INVALID", "DEF_EXPAND_INVALID"]

EXPECTED_LITERALS = {
    # file, class, attribute -> literal the hand-written recogniser in Model/Validate.v transcribes
    ("hed/validator/hed_validator.py", "HedValidator", "pattern_doubleslash"): r"([ \t/]{2,}|^/|/$)",
    ("hed/validator/util/tag_util.py", "TagValidator", "CAMEL_CASE_EXPRESSION"): r"([A-Z]+\s*[a-z-]*)+",
}
EXPECTED_SETS = {"TEMPORAL_KEYS": ["ONSET_KEY", "OFFSET_KEY", "INSET_KEY"], "DURATION_KEYS": ["DURATION_KEY", "DELAY_KEY"]}


def kinds_in_model():
    src = open(os.path.join(C.COQ, "Model", "ValKinds.v")).read()
    body = src[src.index("Inductive kind :="):src.index("Inductive ocode")]
    body = re.sub(r"\(\*.*?\*\)", "", body, flags=re.S)
    ks = re.findall(r"\bK_([A-Z_]+)\b", body)
    if len(ks) != len(set(ks)) or not ks:
        raise ValueError("T1: cannot read the kind constructors of Model/ValKinds.v")
    return ks


def _parse(rel):
    p = os.path.join(C.REPO, rel)
    return ast.parse(open(p, encoding="utf8").read(), filename=p)


def class_constants(rel, wanted=None):
    """{class: {ATTR: constant}} for simple `ATTR = <literal>` class-level assignments."""
    out = {}
    for node in _parse(rel).body:
        if not isinstance(node, ast.ClassDef):
            continue
        if wanted and node.name not in wanted:
            continue
        d = {}
        for st in node.body:
            if isinstance(st, ast.Assign) and len(st.targets) == 1 and isinstance(st.targets[0], ast.Name):
                if isinstance(st.value, ast.Constant):
                    if st.targets[0].id in d:
                        raise ValueError(f"T1: {rel}:{node.name}.{st.targets[0].id} assigned twice")
                    d[st.targets[0].id] = st.value.value
                else:
                    d[st.targets[0].id] = st.value      # kept as AST (sets etc.)
        out[node.name] = d
    return out


def _attr(node, consts, what):
    if not (isinstance(node, ast.Attribute) and isinstance(node.value, ast.Name)):
        raise ValueError(f"T1: unrecognised {what}: {ast.dump(node)}")
    cls, at = node.value.id, node.attr
    if cls not in consts or at not in consts[cls] or isinstance(consts[cls][at], ast.AST):
        raise ValueError(f"T1: {cls}.{at} is not a known constant ({what})")
    return cls, at, consts[cls][at]


def error_table():
    """{(class, ATTR): (internal value, published code, severity int)} from the decorators."""
    consts = class_constants("hed/errors/error_types.py")
    table = {}
    for node in _parse("hed/errors/error_messages.py").body:
        if not isinstance(node, ast.FunctionDef):
            continue
        for dec in node.decorator_list:
            if not (isinstance(dec, ast.Call) and isinstance(dec.func, ast.Name)
                    and dec.func.id in ("hed_error", "hed_tag_error")):
                raise ValueError(f"T1: unrecognised decorator on {node.name}: {ast.dump(dec)[:200]}")
            if len(dec.args) != 1:
                raise ValueError(f"T1: decorator of {node.name} has {len(dec.args)} positional arguments")
            cls, at, internal = _attr(dec.args[0], consts, f"error type of {node.name}")
            sev = consts["ErrorSeverity"]["ERROR"]
            code = internal
            for kw in dec.keywords:
                if kw.arg == "default_severity":
                    _, _, sev = _attr(kw.value, consts, f"severity of {node.name}")
                elif kw.arg == "actual_code":
                    _, _, code = _attr(kw.value, consts, f"actual_code of {node.name}")
                elif kw.arg == "has_sub_tag":
                    if not isinstance(kw.value, ast.Constant):
                        raise ValueError(f"T1: has_sub_tag of {node.name}")
                else:
                    raise ValueError(f"T1: unknown decorator keyword {kw.arg} on {node.name}")
            if (cls, at) in table:
                raise ValueError(f"T1: {cls}.{at} registered twice")
            if not isinstance(code, str) or not isinstance(internal, str) or not isinstance(sev, int):
                raise ValueError(f"T1: bad constant types for {cls}.{at}")
            table[(cls, at)] = (internal, code, sev)
    return table, consts


def kind_rows():
    """[(constructor suffix, internal value, published code, 'Error'|'Warning')] for every model kind."""
    table, consts = error_table()
    sev_names = {consts["ErrorSeverity"]["ERROR"]: "Error", consts["ErrorSeverity"]["WARNING"]: "Warning"}
    if consts["ErrorSeverity"]["ERROR"] >= consts["ErrorSeverity"]["WARNING"]:
        raise ValueError("T1: ErrorSeverity.ERROR is no longer below WARNING")
    rows = []
    for k in kinds_in_model():
        cls = KIND_CLASS.get(k, "ValidationErrors")
        if (cls, k) not in table:
            raise ValueError(f"T1: no @hed_error/@hed_tag_error registration for {cls}.{k}")
        internal, code, sev = table[(cls, k)]
        if sev not in sev_names:
            raise ValueError(f"T1: severity {sev} of {cls}.{k}")
        rows.append((k, internal, code, sev_names[sev]))
    internals = [r[1] for r in rows]
    if len(set(internals)) != len(internals):
        raise ValueError("T1: two model kinds share one internal value")
    orows = []
    for o in OCODES:
        v = consts["ValidationErrors"].get(o)
        if not isinstance(v, str):
            raise ValueError(f"T1: ValidationErrors.{o} missing")
        orows.append((o, v))
    return rows, orows


def char_constants():
    cc = class_constants("hed/validator/util/char_util.py", {"CharValidator"})["CharValidator"]
    out = {}
    for n in ("INVALID_STRING_CHARS", "INVALID_STRING_CHARS_PLACEHOLDERS", "TAG_ALLOWED_CHARS",
              "DEFAULT_ALLOWED_PLACEHOLDER_CHARS"):
        if not isinstance(cc.get(n), str):
            raise ValueError(f"T2: CharValidator.{n} is not a string literal")
        out[n] = cc[n]
    dn = class_constants("hed/models/model_constants.py", {"DefTagNames"})["DefTagNames"]
    for n in ("DEF_KEY", "DEF_EXPAND_KEY", "DEFINITION_KEY", "ONSET_KEY", "OFFSET_KEY", "INSET_KEY", "DURATION_KEY",
              "DELAY_KEY"):
        if not isinstance(dn.get(n), str):
            raise ValueError(f"T2: DefTagNames.{n} is not a string literal")
        out[n] = dn[n]
    for n, members in EXPECTED_SETS.items():
        v = dn.get(n)
        ok = (isinstance(v, ast.Set) and [e.id for e in v.elts if isinstance(e, ast.Name)] == members
              and len(v.elts) == len(members))
        if not ok:
            raise ValueError(f"T2: DefTagNames.{n} is not the set literal {{{', '.join(members)}}}")
    v = dn.get("ALL_TIME_KEYS")
    if not (isinstance(v, ast.AST) and ast.unparse(v) == "TEMPORAL_KEYS.union(DURATION_KEYS)"):
        raise ValueError("T2: DefTagNames.ALL_TIME_KEYS changed shape")
    sv = class_constants("hed/validator/util/string_util.py", {"StringValidator"})["StringValidator"]
    if (sv.get("OPENING_GROUP_CHARACTER"), sv.get("CLOSING_GROUP_CHARACTER"), sv.get("COMMA")) != ("(", ")", ","):
        raise ValueError("T2: StringValidator delimiter constants changed")
    for (rel, cls, attr), lit in EXPECTED_LITERALS.items():
        found = None
        for node in _parse(rel).body:
            if isinstance(node, ast.ClassDef) and node.name == cls:
                for st in node.body:
                    if isinstance(st, ast.Assign) and isinstance(st.targets[0], ast.Name) and st.targets[0].id == attr:
                        val = st.value
                        if isinstance(val, ast.Call) and val.args:      # re.compile(r"...")
                            val = val.args[0]
                        if isinstance(val, ast.Constant):
                            found = val.value
        if found != lit:
            raise ValueError(f"T2: {rel}:{cls}.{attr} is {found!r}, the hand-written scanner transcribes {lit!r}")
    return out


def ranges(pred):
    out, start = [], None
    for c in range(0x110000):
        if pred(chr(c)):
            if start is None:
                start = c
        elif start is not None:
            out.append((start, c - 1))
            start = None
    if start is not None:
        out.append((start, 0x10FFFF))
    return out


_UNI = None


def uni_tables():
    global _UNI
    if _UNI is None:
        _UNI = {"nonprintable_ranges": ranges(lambda ch: not ch.isprintable()),
                "alnum_ranges": ranges(str.isalnum), "alpha_ranges": ranges(str.isalpha)}
    return _UNI


def cstr(s):
    return "[" + ";".join(str(ord(c)) for c in s) + "]"


def translate():
    rows, orows = kind_rows()
    cc = char_constants()
    L = ["(* GENERATED by harness/c01_translate.py from hed/errors/error_types.py, hed/errors/error_messages.py,",
         "   hed/validator/util/char_util.py and hed/models/model_constants.py (Python ast).  Do not edit. *)",
         "From Coq Require Import List NArith.",
         "From HV Require Import Base.Str Model.ValKinds.",
         "Import ListNotations.",
         "Local Open Scope N_scope.",
         "",
         "(* published code of each internal kind: the decorator's actual_code, else the error type itself *)",
         "Definition kind_code (k : kind) : str :=",
         "  match k with"]
    for k, internal, code, sev in rows:
        L.append(f"  | K_{k} => {cstr(code)}   (* {internal} -> {code} *)")
    L += ["  end.", "", "Definition kind_sev (k : kind) : sev :=", "  match k with"]
    for k, internal, code, sev in rows:
        L.append(f"  | K_{k} => {sev}")
    L += ["  end.", "", "Definition ocode_str (o : ocode) : str :=", "  match o with"]
    for o, v in orows:
        L.append(f"  | O_{o} => {cstr(v)}   (* {v} *)")
    L += ["  end.", ""]
    for n in sorted(cc):
        L.append(f"Definition c_{n} : str := {cstr(cc[n])}.   (* {cc[n]!r} *)")
    L.append("")
    C.write_if_changed(os.path.join(C.COQ, "Gen", "ValidationCodes.v"), "\n".join(L))

    U = ["(* GENERATED by harness/c01_translate.py from CPython's str.isprintable/isalnum/isalpha over all",
         "   0x110000 code points (inclusive ranges, ascending).  Do not edit. *)",
         "From Coq Require Import List NArith.",
         "Import ListNotations.",
         "Local Open Scope N_scope.", ""]
    for n, rs in uni_tables().items():
        U.append(f"Definition {n} : list (N * N) := [")
        U.append(";\n".join("  " + "; ".join(f"({a},{b})" for a, b in rs[i:i + 8]) for i in range(0, len(rs), 8)))
        U.append("].")
        U.append("")
    C.write_if_changed(os.path.join(C.COQ, "Gen", "UniRanges01.v"), "\n".join(U))
    return rows, orows, cc


if __name__ == "__main__":
    r, o, c = translate()
    for x in r:
        print(x)
    print(o, c)
