"""C11 -- Units are accepted and converted exactly as the schema defines them.

Translator  : every bundled schema XML (read by harness/schema_xml.py, independently of hed-python) ->
              coq/Gen/Units_<v>.v + coq/Gen/UnitsAll.v (unit classes, units, modifiers, value-taking nodes with unit
              classes; the inflect plural of every unit name is obtained here, with the same call the code makes,
              and emitted as oracle data) and a one-line s-expression dump per schema for the extracted model.
              class_regex.json is pinned: the numericClass word regex and its (empty) character list.
Run         : (tag | unused unit class) x unit x modifier (permitted or not) x singular/plural x case spellings x
              numeric literals, plus a malformed stream -> HedString(...).validate() codes, the validator's unit check
              and HedTag.value_as_default_unit() are compared with the extracted model (correspondence) and, separately,
              judged against the property statement by an oracle that only uses the XML reading (spec_case).
"""
import collections
import copy
import json
import math
import os
import random
import shutil
from fractions import Fraction
from multiprocessing import Pool

from harness import common as C
from harness import schema_xml as X

PROP = "C11"
# Repair switches, mirrored by the Coq-side arguments [fixed] [f3] [f4] of Model/Units.v (sent to the extracted
# model with every case).  1 = the repaired code (what /repo contains), 0 = the code before that repair:
#   VERIF_C11_FIXED     fix: commits f83491d, d18c9c6 (C11-F1 case-folded lookup in conversion, C11-F2 a^b factors)
#   VERIF_C11_FIXED_F4  fix: commit 537f494, C11-F4 (a unit after the number only counts when the value is a single word)
#   VERIF_C11_FIXED_F3  fix: commit 0669633, C11-F3 (number = first word, unit text = the rest: unit names with blanks)
FIXED = int(os.environ.get("VERIF_C11_FIXED", "1"))
FIXED_F4 = int(os.environ.get("VERIF_C11_FIXED_F4", str(FIXED)))
FIXED_F3 = int(os.environ.get("VERIF_C11_FIXED_F3", str(FIXED)))
# the findings these repairs removed; recognised (printed as KNOWN-FINDING) only when the matching switch is 0
PRE_FIX_FINDINGS = {
    "C11-F1": (lambda: not FIXED, "before fix: f83491d -- an accepted unit NAME written in a different letter case "
               "than the derived lower-case key made value_as_default_unit raise TypeError"),
    "C11-F2": (lambda: not FIXED, "before fix: d18c9c6 -- conversionFactor written a^b read as 10e6: value 10x too "
               "large per caret"),
    "C11-F3": (lambda: not FIXED_F3, "before fix: 0669633 -- a declared unit name that contains a blank ('degree "
               "Celsius') was never accepted (UNITS_INVALID)"),
    "C11-F4": (lambda: not FIXED_F4 and not FIXED_F3, "before fix: 537f494 -- several words after the number whose "
               "LAST word is an accepted unit drew no UNITS_INVALID; value_as_default_unit raised ValueError"),
}
COQ_TARGETS = ["Props/C11.vo", "Extract/ExtractC11.vo"]
TRUSTED = [
    "Model/Units.v is a hand transcription of UnitEntry.finalize_entry/_get_conversion_factor/get_conversion_factor, "
    "UnitClassEntry.finalize_entry/get_derivative_unit_entry, HedSchema._get_modifiers_for_unit, "
    "HedSchemaUnitSection.__getitem__, HedTag._get_tag_units_portion/get_stripped_unit_value/value_as_default_unit/"
    "default_unit and UnitValueValidator.check_tag_unit_class_units_are_valid/_check_value_class/_check_units; tied "
    "by the correspondence run (testing)",
    "translator: unit tables read from the bundled XML with xml.etree (not through hed-python); inflect plurals are "
    "oracle data obtained with the call the code makes (pluralize.plural(name.lower()), hertz->hertz)",
    "numbers are exact rationals in the model: IEEE rounding of float() and of the two multiplications is not "
    "modelled (values are compared exactly when exactly representable, else within 2^-50 relative)",
    "str.casefold()/lower() modelled on ASCII; float() modelled on decimal/scientific literals only (no inf/nan/"
    "underscores/blank padding/non-ASCII digits); the numericClass regex is a hand-written recogniser pinned to the "
    "regex text in class_regex.json",
]
ASSUMPTIONS = [
    "theorems hold for every unit schema satisfying the boolean predicate wf_schema (checked by vm_compute for each "
    "bundled schema) and every list of its unit classes; they additionally assume the unit text has a single reading "
    "(unamb) and the text before the last blank is not itself a unit spelling (cands = []) -- the only bundled text "
    "with two readings is computed (uV in electricPotentialUnits)",
    "the theorems stated first in Props/C11.v are about the code as it now is (all repair switches true: fix: "
    "f83491d, d18c9c6, 537f494 (C11-F4), 0669633 (C11-F3), all in /repo); for each switch = false the corresponding "
    "full statement is refuted by a kernel-evaluated witness, kept only as the record of the repaired defect "
    "(behaviour before that commit)",
    "texts with more than one reading (only 'uV' in electricPotentialUnits of 8.3.0 / score 2.0.0) are outside the "
    "iff/value theorems; for them it is proved that acceptance is sound and a defined value is number x factors of "
    "one genuine reading (C11_value_is_a_reading), and C11_ambiguous_uV states what the code does with 'uV' (symbol "
    "reading micro-V wins: 3 uV -> 3e-11; 'uv'/'UV' -> the name, 3); the oracle accepts either reading",
    "C11_string_is_concat / _tag_context_free / _order_irrelevant hold by the shape of the model (the loop of "
    "_validate_individual_tags_in_hed_string is transcribed as an accumulator without other state); that the "
    "IMPLEMENTATION carries no state between the tags of a string is tested only (stream 'multi')",
    "the number text is one word; the unit text may have any number of words (unit names with blanks)",
]

NUMERIC_REGEX = "^[+-]?(\\d+(\\.\\d*)?|\\.\\d+)([eE][+-]?\\d+)?$"     # what Model/Units.v scan_num was written against
CODES = {"VALUE_INVALID": "V", "UNITS_INVALID": "I", "UNITS_MISSING": "M"}
SEVERITY = {"V": 1, "I": 1, "M": 10}
# issues that concern the surroundings of a tag (reserved tags outside their group), never the value or unit
CONTEXT_CODES = {"TAG_GROUP_ERROR", "TEMPORAL_TAG_ERROR"}


# ============================================================================ translator

def _flag(attrs, name, where):
    v = attrs.get(name)
    if v is None:
        return False
    if v is not True:
        raise ValueError(f"C11 translator: attribute {name} of {where} carries a value {v!r}")
    return True


def _one(attrs, name, where):
    v = attrs.get(name)
    if v is None:
        return None
    if v is True or len(v) != 1 or v[0] == "":
        raise ValueError(f"C11 translator: attribute {name} of {where} is not a single non-empty value: {v!r}")
    return v[0]


def _ascii(s, where):
    if not s or any(ord(c) > 126 or ord(c) < 32 for c in s):
        raise ValueError(f"C11 translator: non-ASCII or empty name {s!r} in {where}")
    return s


_PLURAL = None


def plural_of(name_lower):
    """The same call UnitEntry.finalize_entry makes (hed_schema_entry.py: pluralize = inflect.engine(); defnoun)."""
    global _PLURAL
    if _PLURAL is None:
        import inflect
        _PLURAL = inflect.engine()
        _PLURAL.defnoun("hertz", "hertz")
    return _PLURAL.plural(name_lower)


def units_view(s):
    """Independent reading of the unit tables of one schema dict (harness/schema_xml.py)."""
    where = s["file"]
    classes = []
    for uc in s["unit_classes"]:
        units = []
        for u in uc["units"]:
            nm = _ascii(u["name"], where)
            a = u["attrs"]
            sym = _flag(a, "unitSymbol", nm)
            pl = nm if sym else _ascii(plural_of(nm.lower()), where + ":plural of " + nm)
            units.append({"name": nm, "symbol": sym, "prefix": _flag(a, "unitPrefix", nm), "si": _flag(a, "SIUnit", nm),
                          "factor": _one(a, "conversionFactor", nm), "plural": pl})
        classes.append({"name": _ascii(uc["name"], where), "default": _one(uc["attrs"], "defaultUnits", uc["name"]),
                        "units": units})
    mods = []
    for m in s["unit_modifiers"]:
        nm = _ascii(m["name"], where)
        a = m["attrs"]
        mods.append({"name": nm, "si_mod": _flag(a, "SIUnitModifier", nm), "si_sym": _flag(a, "SIUnitSymbolModifier", nm),
                     "factor": _one(a, "conversionFactor", nm)})
    tags = []
    for t in s["tags"]:
        if t["short"] != "#" or "unitClass" not in t["attrs"]:
            continue
        uc = t["attrs"]["unitClass"]
        if uc is True or any("," in x for x in uc):
            raise ValueError(f"C11 translator: unitClass shape on {t['long']}")
        vc = t["attrs"].get("valueClass", [])
        if vc not in ([], ["numericClass"]):
            raise ValueError(f"C11 translator: unit-class node {t['long']} with value classes {vc}: not modelled")
        parent = t["long"].split("/")[-2]
        tags.append({"name": _ascii(parent, where), "long": t["long"], "classes": list(uc), "numeric": bool(vc)})
    names = [t["name"] for t in tags]
    if len(set(n.casefold() for n in names)) != len(names):
        raise ValueError("C11 translator: two unit-class nodes share a short name in " + where)
    return {"file": s["file"], "classes": classes, "mods": mods, "tags": tags}


def _cs(s):
    return "[" + ";".join(str(ord(c)) for c in s) + "]"


def _copt(s):
    return "None" if s is None else "(Some " + _cs(s) + ")"


def _cb(b):
    return "true" if b else "false"


def emit_units_v(view, key):
    L = [f"(* GENERATED by harness/c11.py from hed/schema/schema_data/{view['file']} (read with xml.etree,",
         "   independently of hed-python; u_plural is the inflect plural of the lower-cased name).  Do not edit. *)",
         "From Coq Require Import List NArith.",
         "From HV Require Import Base.Str Model.Units.",
         "Import ListNotations.",
         "Local Open Scope N_scope.", "",
         "Definition mods : list moddef := ["]
    L.append(";\n".join(f"  mkMod {_cs(m['name'])} {_cb(m['si_mod'])} {_cb(m['si_sym'])} {_copt(m['factor'])}"
                        for m in view["mods"]))
    L.append("].")
    L.append("")
    L.append("Definition classes : list classdef := [")
    rows = []
    for c in view["classes"]:
        us = ";\n     ".join(f"mkUnit {_cs(u['name'])} {_cb(u['symbol'])} {_cb(u['prefix'])} {_cb(u['si'])} "
                             f"{_copt(u['factor'])} {_cs(u['plural'])}" for u in c["units"])
        rows.append(f"  mkClass {_cs(c['name'])} {_copt(c['default'])}\n    [{us}]")
    L.append(";\n".join(rows))
    L.append("].")
    L.append("")
    L.append("Definition schema : uschema := mkSchema classes mods.")
    L.append("")
    L.append("Definition tags : list utag := [")
    L.append(";\n".join("  mkUTag " + _cs(t["name"]) + " [" + ";".join(_cs(c) for c in t["classes"]) + "] "
                        + _cb(t["numeric"]) for t in view["tags"]))
    L.append("].")
    L.append("")
    return "\n".join(L)


def emit_all_v(keys):
    L = ["(* GENERATED by harness/c11.py: every bundled schema's unit tables.  Do not edit. *)",
         "From Coq Require Import List NArith.",
         "From HV Require Import Base.Str Model.Units."]
    for k in keys:
        L.append(f"From HV Require Gen.Units_{k}.")
    L += ["Import ListNotations.", "Local Open Scope N_scope.", "",
          "Definition all_schemas : list (str * uschema * list utag) := ["]
    L.append(";\n".join(f"  ({_cs(k)}, Units_{k}.schema, Units_{k}.tags)" for k in keys))
    L.append("].")
    L.append("")
    return "\n".join(L)


def _sx_str(s):
    return "(" + " ".join(str(ord(c)) for c in s) + ")"


def _sx_opt(s):
    return "()" if s is None else "(" + _sx_str(s) + ")"


def dump_sx(view):
    cl = " ".join("(" + _sx_str(c["name"]) + " " + _sx_opt(c["default"]) + " (" + " ".join(
        "(" + " ".join([_sx_str(u["name"]), C.to_sx(u["symbol"]), C.to_sx(u["prefix"]), C.to_sx(u["si"]),
                        _sx_opt(u["factor"]), _sx_str(u["plural"])]) + ")" for u in c["units"]) + "))"
        for c in view["classes"])
    md = " ".join("(" + " ".join([_sx_str(m["name"]), C.to_sx(m["si_mod"]), C.to_sx(m["si_sym"]), _sx_opt(m["factor"])])
                  + ")" for m in view["mods"])
    return "((" + cl + ") (" + md + "))"


def check_class_regex():
    """T3 for C11: the recogniser in Model/Units.v was written against these literals; any edit fails closed."""
    p = os.path.join(C.REPO, "hed/validator/util/class_regex.json")
    d = json.load(open(p, encoding="utf-8"))
    if d["class_words"].get("numericClass") != NUMERIC_REGEX:
        raise ValueError("C11 tie: class_words.numericClass changed: " + repr(d["class_words"].get("numericClass")))
    if d["class_chars"].get("numericClass") != []:
        raise ValueError("C11 tie: class_chars.numericClass is no longer empty")


_VIEWS = None


def views():
    global _VIEWS
    if _VIEWS is None:
        allsch = X.load_all()
        _VIEWS = {k: units_view(X.schema_for_use(k, allsch)) for k in sorted(allsch)}
    return _VIEWS


def translate():
    check_class_regex()
    vs = views()
    for k, v in vs.items():
        C.write_if_changed(os.path.join(C.COQ, "Gen", f"Units_{k}.v"), emit_units_v(v, k))
    C.write_if_changed(os.path.join(C.COQ, "Gen", "UnitsAll.v"), emit_all_v(sorted(vs)))
    return vs


# ============================================================================ specification (statement -> expectation)

NUM_RE = None


def num_ok(s):
    """A numeric literal in the sense of the statement: integers, decimals, exponents, signs (ASCII)."""
    i, n = 0, len(s)
    if i < n and s[i] in "+-":
        i += 1
    j = i
    while j < n and s[j] in "0123456789":
        j += 1
    nd = j - i
    i = j
    if i < n and s[i] == ".":
        j = i + 1
        while j < n and s[j] in "0123456789":
            j += 1
        if nd == 0 and j == i + 1:
            return False
        i = j
    elif nd == 0:
        return False
    if i < n and s[i] in "eE":
        i += 1
        if i < n and s[i] in "+-":
            i += 1
        j = i
        while j < n and s[j] in "0123456789":
            j += 1
        if j == i:
            return False
        i = j
    return i == n


def factor_meaning(text):
    """What a conversionFactor text means: 'a^b' is a to the power b, otherwise a decimal literal."""
    if text is None:
        return Fraction(1)
    if "^" in text:
        a, b = text.split("^", 1)
        return Fraction(a) ** int(b)
    return Fraction(text)


def permitted(view, u):
    if not u["si"]:
        return []
    return [m for m in view["mods"] if (m["si_sym"] if u["symbol"] else m["si_mod"])]


def spellings(view, classes, text):
    """All (class, unit, modifier|None) such that `text` spells the unit per the statement."""
    out = []
    for c in view["classes"]:
        if c["name"] not in classes:
            continue
        for u in c["units"]:
            for m in [None] + permitted(view, u):
                pre = m["name"] if m else ""
                if u["symbol"]:
                    ok = text == pre + u["name"]
                else:
                    f = text.lower()
                    ok = f in ((pre + u["name"]).lower(), (pre + u["plural"]).lower())
                if ok:
                    out.append((c, u, m))
    return out


def spec_case(view, classes, numeric, ext):
    """Expectation for `Tag/<ext>` from the statement alone.  Returns dict:
       kind: bare | accepted | other | skip ; codes (sorted list over V/I/M) or None ; values: None (no claim),
       [] (must be absent) or list of Fractions (any of them); readings (for the finding classes)."""
    if ext == "" or ext != ext.strip() or "  " in ext:
        return {"kind": "skip"}
    if " " not in ext:
        if num_ok(ext):
            return {"kind": "bare", "codes": ["M"], "values": None, "readings": []}
        return {"kind": "skip"}
    a, _, rest = ext.partition(" ")
    b_last, _, _ = ext.rpartition(" ")
    suffix = [r for r in spellings(view, classes, rest) if not r[1]["prefix"]] if num_or_word(a) else []
    # prefix-type unit before the number:  "<unit> <number>"
    pre_txt, _, num_after = ext.rpartition(" ")
    prefix = [r for r in spellings(view, classes, pre_txt) if r[1]["prefix"]]
    if suffix and prefix:
        return {"kind": "skip"}
    if suffix or prefix:
        number = a if suffix else num_after
        readings = suffix or prefix
        codes = ["V"] if (numeric and not num_ok(number)) else []
        values = None
        if num_ok(number):
            vals = []
            for (_c, u, m) in readings:
                if u["factor"] is None:
                    vals.append(None)
                else:
                    vals.append(Fraction(number) * factor_meaning(u["factor"]) * factor_meaning(m["factor"] if m else None))
            values = vals
        return {"kind": "accepted", "codes": codes, "values": values, "readings": readings, "number": number,
                "unit_text": rest if suffix else pre_txt}
    codes = ["I"] + (["V"] if (numeric and not num_ok(a)) else [])
    return {"kind": "other", "codes": sorted(codes), "values": [], "readings": [], "number": a, "unit_text": rest}


def num_or_word(a):
    return " " not in a and a != ""


# ============================================================================ implementation side

_SCHEMAS = {}


def impl_schema(key):
    if key not in _SCHEMAS:
        from hed.schema import load_schema
        _SCHEMAS[key] = load_schema(os.path.join(C.REPO, X.SCHEMA_DIR, views()[key]["file"]))
    return _SCHEMAS[key]


def _canon_value(f):
    try:
        v = f()
    except Exception as e:  # noqa
        return ["exn", type(e).__name__]
    if v is None:
        return ["none"]
    if isinstance(v, bool) or not isinstance(v, (int, float)):
        return ["exn", "NotANumber:" + type(v).__name__]
    if math.isinf(v) or math.isnan(v):
        return ["inf"]
    fr = Fraction(v)
    return ["q", fr.numerator, fr.denominator]


def impl_case(case):
    """case = (schema key, host tag short name, classes or None, ext).  classes None: the tag's own classes through
    HedString.validate(); otherwise the host tag's schema entry is shallow-copied with unit_classes replaced by the
    named classes (unit classes no bundled tag uses), and only the validator's unit check + conversion run."""
    key, tag, classes, ext = case
    from hed.models.hed_string import HedString
    from hed.models.hed_tag import HedTag
    from hed.validator.util.class_util import UnitValueValidator
    sch = impl_schema(key)
    out = {}
    text = f"{tag}/{ext}"
    try:
        if classes is None:
            iss = HedString(text, sch).validate()
            got = sorted((i["code"], i["severity"]) for i in iss)
            out["codes"] = sorted(CODES[c] for c, _s in got if c in CODES)
            out["sev_bad"] = [[c, s] for c, s in got if c in CODES and SEVERITY[CODES[c]] != s]
            out["other"] = sorted({c for c, _s in got if c not in CODES})
            ht = HedTag(text, sch)
        else:
            ht = HedTag(text, sch)
            e = copy.copy(ht._schema_entry)
            e.unit_classes = {c: sch.unit_classes[c] for c in classes}
            ht._schema_entry = e
            iss = UnitValueValidator().check_tag_unit_class_units_are_valid(ht, ht.extension)
            got = sorted((i["code"], i["severity"]) for i in iss)
            out["codes"] = sorted(CODES[c] for c, _s in got if c in CODES)
            out["sev_bad"] = [[c, s] for c, s in got if c in CODES and SEVERITY[CODES[c]] != s]
            out["other"] = sorted({c for c, _s in got if c not in CODES})
    except Exception as ex:  # noqa
        out["codes_exn"] = type(ex).__name__ + ":" + str(ex)[:80]
        try:
            ht = HedTag(text, sch)
        except Exception as ex2:  # noqa
            out["value"] = ["exn", "HedTag:" + type(ex2).__name__]
            return out
    out["ext_seen"] = ht.extension
    out["value"] = _canon_value(ht.value_as_default_unit)
    return out


# ============================================================================ cases

VALID_NUMS = ["3", "0", "1.5", "-2", "+4", ".5", "2.", "1e3", "1E-2", "-0.25e+1", "12.75", "007", "6.5e20", "1e-7",
              "1024", "0.125", "+.25E2", "1.e1", "100", "0.003"]
BAD_NUMS = ["abc", "1..2", "--1", "1e", "e5", ".", "3s", "0x10", "1e+", "+", "1.5.", "3-", "1k"]


def case_variants(text, symbol, rng):
    vs = [text]
    for v in (text.upper(), text.lower(), text.capitalize(), text.swapcase()):
        if v not in vs:
            vs.append(v)
    if len(text) > 2:
        mixed = "".join(c.upper() if rng.random() < 0.5 else c.lower() for c in text)
        if mixed not in vs:
            vs.append(mixed)
    return vs


def unit_texts(view, cname, rng):
    """(text, is_prefix_unit) for every unit x modifier (permitted or not) x singular/plural x case spelling."""
    out = []
    c = [x for x in view["classes"] if x["name"] == cname][0]
    for u in c["units"]:
        bases = [u["name"]] if u["symbol"] else [u["name"].lower(), u["plural"]]
        for m in [None] + view["mods"]:
            for b in bases:
                t = (m["name"] if m else "") + b
                for v in case_variants(t, u["symbol"], rng):
                    out.append((v, u["prefix"]))
    seen, res = set(), []
    for x in out:
        if x not in seen:
            seen.add(x)
            res.append(x)
    return res


def other_texts(view, cname, rng, n):
    """Unit texts that are mostly NOT spellings of the class: near misses, foreign units, several words."""
    c = [x for x in view["classes"] if x["name"] == cname][0]
    keys = []
    for u in c["units"]:
        keys += [u["name"]] if u["symbol"] else [u["name"].lower(), u["plural"]]
    foreign = [u["name"] for x in view["classes"] if x["name"] != cname for u in x["units"]]
    mods = [m["name"] for m in view["mods"]]
    out = ["xyz", "units", "k", "milli", "per", "%", "s^-1"]
    for _ in range(n):
        k = rng.choice(keys)
        r = rng.random()
        if r < 0.15 and len(k) > 1:
            i = rng.randrange(len(k))
            out.append(k[:i] + k[i + 1:])
        elif r < 0.3:
            i = rng.randrange(len(k) + 1)
            out.append(k[:i] + rng.choice("abcxyzSM-^2") + k[i:])
        elif r < 0.45:
            out.append(rng.choice(mods) + rng.choice(mods) + k)
        elif r < 0.6:
            out.append(rng.choice(foreign))
        elif r < 0.7:
            out.append(k + "s")
        elif r < 0.8:
            out.append(rng.choice(mods) + " " + k)        # several words
        elif r < 0.9:
            out.append(rng.choice(["m", "per", "x", k]) + " " + k)
        else:
            out.append(k + " " + rng.choice(["m", "abc", k]))
    return out


def gen_cases(view, key, rng, full_all_tags, n_other, sample_step):
    """List of (key, host tag, classes|None, ext, stream)."""
    cases = []
    numeric_tags = [t for t in view["tags"] if t["numeric"]]
    seen_classlists = set()
    ni = 0
    for ti, t in enumerate(view["tags"]):
        first = tuple(t["classes"]) + (t["numeric"],) not in seen_classlists
        seen_classlists.add(tuple(t["classes"]) + (t["numeric"],))
        texts = []
        for cn in t["classes"]:
            if any(c["name"] == cn for c in view["classes"]):
                texts += unit_texts(view, cn, rng)
        for i, (txt, pre) in enumerate(texts):
            if not (first or full_all_tags or (i + ti) % sample_step == 0):
                continue
            num = VALID_NUMS[ni % len(VALID_NUMS)]
            ni += 1
            cases.append((key, t["name"], None, f"{txt} {num}" if pre else f"{num} {txt}", "spelling"))
            if first and i % 5 == 0:     # the other side of the number as well
                cases.append((key, t["name"], None, f"{num} {txt}" if pre else f"{txt} {num}", "wrong-side"))
        if first or full_all_tags:
            for num in VALID_NUMS + BAD_NUMS:
                cases.append((key, t["name"], None, num, "bare"))
            some = [x for x in texts if x[0] == x[0].lower()][:: max(1, len(texts) // 12)]
            for num in VALID_NUMS + BAD_NUMS:
                for txt, pre in some[:6]:
                    cases.append((key, t["name"], None, f"{txt} {num}" if pre else f"{num} {txt}", "numbers"))
            for cn in t["classes"]:
                if any(c["name"] == cn for c in view["classes"]):
                    for o in other_texts(view, cn, rng, n_other):
                        num = rng.choice(VALID_NUMS + BAD_NUMS[:3])
                        cases.append((key, t["name"], None, f"{num} {o}", "other"))
            # declared unit names that contain a blank (C11-F3)
            for c in view["classes"]:
                if c["name"] in t["classes"]:
                    for u in c["units"]:
                        if " " in u["name"]:
                            for v in (u["name"], u["name"].lower(), u["plural"]):
                                cases.append((key, t["name"], None, f"3 {v}", "blank-name"))
                                cases.append((key, t["name"], None, f"1.5 x {v}", "blank-name"))
                                cases.append((key, t["name"], None, f"2 {v} x", "blank-name"))
                                cases.append((key, t["name"], None, f"4 {v.split(' ')[0]}", "blank-name"))
                                cases.append((key, t["name"], None, f"5 {v.split(' ')[-1]}", "blank-name"))
                                cases.append((key, t["name"], None, f"{v} 6", "blank-name"))
    # unit classes no bundled tag uses: through a host tag whose entry is given that class
    used = {c for t in view["tags"] for c in t["classes"]}
    if numeric_tags:
        host = numeric_tags[0]["name"]
        for c in view["classes"]:
            if c["name"] in used:
                continue
            for i, (txt, pre) in enumerate(unit_texts(view, c["name"], rng)):
                num = VALID_NUMS[ni % len(VALID_NUMS)]
                ni += 1
                cases.append((key, host, [c["name"]], f"{txt} {num}" if pre else f"{num} {txt}", "unused-class"))
                if i % 5 == 0:
                    cases.append((key, host, [c["name"]], f"{num} {txt}" if pre else f"{txt} {num}", "unused-class-wrong-side"))
            for num in VALID_NUMS[:6] + BAD_NUMS[:3]:
                cases.append((key, host, [c["name"]], num, "unused-class-bare"))
            for o in other_texts(view, c["name"], rng, max(4, n_other // 3)):
                cases.append((key, host, [c["name"]], f"{rng.choice(VALID_NUMS)} {o}", "unused-class-other"))
    return cases


CORPUS = [
    # (schema, tag, classes, ext, stream)
    ("8_3_0", "Duration", None, "3 Seconds", "corpus"),          # C11-F1
    ("8_3_0", "Duration", None, "3 Milliseconds", "corpus"),     # C11-F1
    ("8_3_0", "Temperature", None, "3 degree-Celsius", "corpus"),  # C11-F1
    ("8_2_0", "Duration", None, "3 Ms", "corpus"),               # C11-F2 (10^6 read as 10e6)
    ("8_2_0", "Duration", None, "3 us", "corpus"),               # C11-F2
    ("8_3_0", "Duration", None, "3 Ms", "corpus"),               # 8.3.0 itself writes 10e6: as the schema defines
    ("8_1_0", "Temperature", None, "3 degree Celsius", "corpus"),  # C11-F3
    ("8_3_0", "Duration", None, "3 m s", "corpus"),              # C11-F4
    ("8_3_0", "Duration", None, "3 abc seconds", "corpus"),      # C11-F4
    ("8_2_0", "Temperature", None, "3 Degrees Celsius", "corpus"),   # C11-F3 (plural, other case)
    ("8_1_0", "Temperature", None, "3 kilodegree celsius", "corpus"),  # C11-F3 with an SI prefix
    ("8_3_0", "Temperature", None, "3 x degree Celsius", "corpus"),  # extra word before a unit name with a blank
    ("8_1_0", "Temperature", None, "3 Celsius", "corpus"),
    ("8_3_0", "Duration", None, "3 ms", "corpus"),
    ("8_3_0", "Duration", None, "3", "corpus"),
    ("8_3_0", "Duration", None, "3 xyz", "corpus"),
    ("8_3_0", "Duration", None, "3 MS", "corpus"),
    ("8_3_0", "Duration", None, "3 kday", "corpus"),
    ("8_3_0", "Duration", None, "1e3 s", "corpus"),
    ("8_3_0", "Duration", None, "abc s", "corpus"),
    ("8_3_0", "Duration", None, "s 3", "corpus"),
    ("8_3_0", "Duration", ["currencyUnits"], "$ 3", "corpus"),
    ("8_3_0", "Duration", ["currencyUnits"], "3 $", "corpus"),
    ("8_3_0", "Duration", ["currencyUnits"], "3 dollars", "corpus"),
    ("8_3_0", "Duration", ["electricPotentialUnits"], "3 uV", "corpus"),   # two readings (C11_ambiguous_uV)
    ("8_3_0", "Duration", ["electricPotentialUnits"], "3 uv", "corpus"),   # only the name reading
    ("8_3_0", "Duration", ["electricPotentialUnits"], "3 UV", "corpus"),
    ("8_3_0", "Duration", ["magneticFieldUnits"], "3 fT", "corpus"),
]


# ============================================================================ judging

def q_of(v):
    return Fraction(int(v[1]), int(v[2]))


def close(a, b):
    """Exact rationals a (expected) and b (observed float): equal, or within 2^-50 relative (IEEE rounding of
    float() and of two multiplications is not modelled)."""
    if a == b:
        return True
    return abs(a - b) <= abs(a) * Fraction(1, 2 ** 50)


def caret_count(r):
    _c, u, m = r
    return (1 if (u["factor"] and "^" in u["factor"]) else 0) + (1 if (m and m["factor"] and "^" in m["factor"]) else 0)


def classify_and_report(res, view, case, exp, got, stats):
    """The implementation-side oracle: each clause of the statement on the implementation's behaviour."""
    key, tag, classes, ext, stream = case
    cdesc = {"schema": key, "schema_file": view["file"], "tag": tag, "classes": classes, "extension": ext,
             "string": f"{tag}/{ext}", "stream": stream}
    if exp["kind"] == "skip":
        return
    if "codes_exn" in got:
        res.report("validation-never-raises", cdesc, got["codes_exn"])
        return
    if got.get("sev_bad"):
        res.report("severity", cdesc, str(got["sev_bad"]))
    if exp["kind"] == "bare":
        if got["codes"] != ["M"]:
            res.report("bare-number-warns-only", cdesc, f"codes={got['codes']}")
        return
    if exp["kind"] == "accepted":
        stats["accepted"] += 1
        if got["codes"] != exp["codes"]:
            blank_name = any(" " in r[1]["name"] for r in exp["readings"])
            fid = "C11-F3" if (not FIXED_F3 and blank_name and "I" in got["codes"]) else None
            res.report("accepted-spelling", cdesc, f"expected codes {exp['codes']} got {got['codes']}", fid=fid)
        elif set(got.get("other", [])) - CONTEXT_CODES:
            res.report("accepted-spelling", cdesc, f"other issues {got['other']}")
        vals = exp["values"]
        if vals is None:
            return
        v = got["value"]
        if not FIXED_F3 and any(" " in r[1]["name"] for r in exp["readings"]):
            return          # already reported as C11-F3 above; the conversion cannot see the unit either
        want_abs = [x for x in vals if x is None]
        want_num = [x for x in vals if x is not None]
        ok = (v[0] == "none" and want_abs) or (v[0] == "q" and any(close(x, q_of(v)) for x in want_num))
        if ok:
            if v[0] == "q":
                stats["values_checked"] += 1
                if any(x == q_of(v) for x in want_num):
                    stats["values_exact"] += 1
            return
        if v[0] == "exn":
            # C11-F1: accepted unit NAME written in a different case than the derived (lower-case) key
            ut = exp["unit_text"]
            f1 = (not FIXED and v[1] == "TypeError" and want_num and ut != ut.lower()
                  and all(not r[1]["symbol"] for r in exp["readings"]))
            res.report("convert-defined", cdesc, f"value_as_default_unit raised {v[1]}", fid="C11-F1" if f1 else None)
            return
        if v[0] == "q" and want_num:
            # C11-F2: a factor written a^b is 10x too large per caret
            f2 = (not FIXED) and any(caret_count(r) > 0 and x is not None and close(x * 10 ** caret_count(r), q_of(v))
                     for r, x in zip(exp["readings"], vals))
            res.report("convert-value", cdesc, f"value {float(q_of(v))!r} expected {[float(x) for x in want_num]}",
                       fid="C11-F2" if f2 else None)
            return
        res.report("convert-value", cdesc, f"value {v} expected {[None if x is None else float(x) for x in vals]}")
        return
    if exp["kind"] == "other":
        stats["other"] += 1
        if got["codes"] != exp["codes"]:
            # C11-F4: several words after the number, the last of which is an accepted unit spelling
            ut = exp["unit_text"]
            last = ut.rpartition(" ")[2]
            f4 = (not FIXED_F4 and not FIXED_F3 and " " in ut and "I" not in got["codes"] and "M" not in got["codes"]
                  and any(not r[1]["prefix"] for r in spellings(view, classes_of(view, case), last)))
            res.report("other-text-invalid", cdesc, f"expected codes {exp['codes']} got {got['codes']}",
                       fid="C11-F4" if f4 else None)
        v = got["value"]
        if v[0] != "none":
            ut = exp["unit_text"]
            last = ut.rpartition(" ")[2]
            f4 = (not FIXED_F4 and not FIXED_F3 and " " in ut
                  and any(not r[1]["prefix"] for r in spellings(view, classes_of(view, case), last)))
            res.report("unrecognised-absent", cdesc, f"value_as_default_unit gave {v}", fid="C11-F4" if f4 else None)


def classes_of(view, case):
    key, tag, classes, ext, stream = case
    if classes is not None:
        return classes
    return [t for t in view["tags"] if t["name"] == tag][0]["classes"]


def numeric_of(view, case):
    return [t for t in view["tags"] if t["name"] == case[1]][0]["numeric"]


def model_line(path, view, case):
    cl = classes_of(view, case)
    return "(" + " ".join([path, C.to_sx(bool(FIXED)), C.to_sx(bool(FIXED_F3)), C.to_sx(bool(FIXED_F4)),
                           C.to_sx(numeric_of(view, case)),
                           "(" + " ".join(_sx_str(c) for c in cl) + ")", _sx_str(case[3])]) + ")"


def model_value(m):
    v = m[1]
    if v == "none":
        return ["none"]
    if v[0] == "exn":
        return ["exn", v[1]]

    def z(a):
        if a == "0":
            return 0
        neg = a.startswith("-")
        return (-1 if neg else 1) * int(a.lstrip("-")[1:], 2)
    return ["q", z(v[1]), z(v[2])]


def same_value(iv, mv):
    if iv[0] != mv[0]:
        return False
    if iv[0] == "q":
        return close(q_of(mv), q_of(iv))
    return iv == mv



# ============================================================================ strings with several unit-carrying tags
# The unit rule is per tag: the unit issues of a string are the concatenation over its tags of the per-tag issues
# (Model/Units.v validate_units_string, Props C11_string_is_concat / _tag_context_free / _order_irrelevant).

LAYOUTS = ("groups", "toplevel", "same-group", "nested")


def multi_string(layout, tags):
    parts = [f"{sp}/{ext}" for sp, _name, ext in tags]
    if layout == "groups":
        return ", ".join(f"({x})" for x in parts)
    if layout == "toplevel":
        return ", ".join(parts)
    if layout == "same-group":
        return "(" + ", ".join(parts) + ")"
    out = parts[-1]
    for x in reversed(parts[:-1]):
        out = f"{x}, ({out})"
    return f"({out})"


def spelling_pairs(view, cname, rng, n):
    """(text a, text b, prefix?) : two spellings that differ only in letter case (declared / re-cased symbol,
    name / re-cased name), over units x modifiers (permitted or not) of one class; names with blanks left out."""
    c = [x for x in view["classes"] if x["name"] == cname][0]
    pool = []
    for u in c["units"]:
        if " " in u["name"]:
            continue
        bases = [u["name"]] if u["symbol"] else [u["name"].lower(), u["plural"]]
        mods = [None] + permitted(view, u)
        extra = [m for m in view["mods"] if m not in mods]
        if extra:
            mods = mods + [rng.choice(extra)]
        for m in mods:
            for b in bases:
                k = (m["name"] if m else "") + b
                vs_ = case_variants(k, u["symbol"], rng)
                for v in vs_[1:]:
                    pool.append((k, v, u["prefix"]))
                if len(vs_) > 2:
                    pool.append((vs_[1], vs_[2], u["prefix"]))
    rng.shuffle(pool)
    sym_first = sorted(pool[:n], key=lambda x: x[0])
    return sym_first


def gen_multi(view, key, rng, per_class, all_tags):
    """(key, layout, [(tag spelling, node name, extension), ...], stream)"""
    out = []
    seen = set()
    li = 0
    for t in view["tags"]:
        sig = tuple(t["classes"]) + (t["numeric"],)
        if sig in seen and not all_tags:
            continue
        seen.add(sig)
        name = t["name"]
        forms = [name, name, name.lower(), name.upper(), t["long"][:-2]]
        for cn in t["classes"]:
            if not any(c["name"] == cn for c in view["classes"]):
                continue
            for a, b, pre in spelling_pairs(view, cn, rng, per_class):
                num = rng.choice(VALID_NUMS)
                num_b = num
                r = rng.random()
                if r < 0.15:
                    num_b = num.swapcase() if num.swapcase() != num else "1E3"     # the value in another case
                    if num_b == "1E3":
                        num = "1e3"
                elif r < 0.25:
                    num_b = rng.choice(VALID_NUMS)

                def ext(n_, u_):
                    return f"{u_} {n_}" if pre else f"{n_} {u_}"
                ta = (name, name, ext(num, a))
                tb = (rng.choice(forms), name, ext(num_b, b))
                combos = [[ta, tb], [tb, ta]]
                r2 = rng.random()
                if r2 < 0.2:
                    combos.append([ta, tb, (rng.choice(forms), name, ext(num, a))])
                elif r2 < 0.4:
                    combos.append([tb, (name, name, ext(num_b, b))])        # the same tag twice
                elif r2 < 0.5:
                    combos.append([ta, (name, name, ext(num, a)), tb])
                for tags in combos:
                    out.append((key, LAYOUTS[li % len(LAYOUTS)], tags, "multi"))
                    li += 1
    return out


MULTI_CORPUS = [
    ("8_3_0", "groups", [("Delay", "Delay", "3 ms"), ("Delay", "Delay", "3 MS")], "multi-corpus"),
    ("8_3_0", "groups", [("Delay", "Delay", "3 MS"), ("Delay", "Delay", "3 ms")], "multi-corpus"),
    ("8_3_0", "toplevel", [("Distance", "Distance", "2 km"), ("distance", "Distance", "2 Km")], "multi-corpus"),
    ("8_3_0", "groups", [("Duration", "Duration", "3 seconds"), ("Duration", "Duration", "3 SECONDS")], "multi-corpus"),
    ("8_3_0", "same-group", [("Distance", "Distance", "1e3 m"), ("Distance", "Distance", "1E3 M")], "multi-corpus"),
    ("8_3_0", "groups", [("Delay", "Delay", "3 MS"), ("Delay", "Delay", "3 MS")], "multi-corpus"),
]


def impl_multi(mc):
    key, layout, tags, _stream = mc
    from hed.models.hed_string import HedString
    sch = impl_schema(key)

    def unit_issues(text):
        iss = HedString(text, sch).validate()
        got = []
        for i in iss:
            if i["code"] in CODES:
                st = i.get("source_tag")
                got.append([getattr(st, "org_tag", str(st)), CODES[i["code"]]])
        return sorted(got)
    out = {}
    try:
        out["per_tag"] = unit_issues(multi_string(layout, tags))
        alone = {}
        for sp, _n, ext in tags:
            one = f"{sp}/{ext}"
            if one not in alone:
                alone[one] = [c for _t, c in unit_issues(multi_string(layout, [(sp, _n, ext)]))]
        out["alone"] = alone
    except Exception as ex:  # noqa
        out["exn"] = type(ex).__name__ + ":" + str(ex)[:80]
    return out


def multi_expected(view, mc):
    """Per tag, from the statement: [[org_tag, code], ...] sorted; None when some tag is outside the spec'd shapes."""
    key, layout, tags, _stream = mc
    exp = []
    for sp, name, ext in tags:
        t = [x for x in view["tags"] if x["name"] == name][0]
        e = spec_case(view, t["classes"], t["numeric"], ext)
        if e["kind"] == "skip":
            return None
        exp += [[f"{sp}/{ext}", c] for c in e["codes"]]
    return sorted(exp)


def multi_desc(view, mc):
    key, layout, tags, stream = mc
    return {"schema": key, "schema_file": view["file"], "string": multi_string(layout, tags),
            "multi": {"layout": layout, "tags": [list(x) for x in tags]}, "stream": stream}


def judge_multi(res, view, mc, got):
    exp = multi_expected(view, mc)
    if exp is None:
        return False
    d = multi_desc(view, mc)
    if "exn" in got:
        res.report("validation-never-raises", d, got["exn"])
        return True
    if got["per_tag"] != exp:
        res.report("per-tag-verdict-in-a-string", d, f"unit issues of the string {got['per_tag']}; per tag the "
                                                     f"statement gives {exp}")
    else:
        # and it is what each tag gets when it stands alone
        want = sorted([f"{sp}/{ext}", c] for sp, _n, ext in mc[2] for c in got["alone"][f"{sp}/{ext}"])
        if want != got["per_tag"]:
            res.report("per-tag-verdict-in-a-string", d, f"in the string {got['per_tag']}, alone {want}")
    return True


def multi_model_line(path, view, mc):
    items = []
    for _sp, name, ext in mc[2]:
        t = [x for x in view["tags"] if x["name"] == name][0]
        items.append("(" + " ".join([C.to_sx(t["numeric"]), "(" + " ".join(_sx_str(c) for c in t["classes"]) + ")",
                                     _sx_str(ext)]) + ")")
    return "(" + " ".join([path, "M", C.to_sx(bool(FIXED_F3)), C.to_sx(bool(FIXED_F4)), "(" + " ".join(items) + ")"]) + ")"


def _impl_worker(case):
    return impl_case(case[:4])


def run(tier, seed, res, model_ok=True, proof_ok=True):
    rng = random.Random(seed)
    for fid, (active, what) in PRE_FIX_FINDINGS.items():
        if active() and hasattr(res, "known_ids"):
            res.known_ids.setdefault(fid, {"property": PROP, "id": fid, "what": what})
    vs = views()
    scratch = C.scratch_dir()
    try:
        paths = {}
        for k, v in vs.items():
            p = os.path.join(scratch, f"units_{k}.sx")
            with open(p, "w") as f:
                f.write(dump_sx(v) + "\n")
            paths[k] = p
        wide = (tier != "quick") or not proof_ok
        cases = [c for c in CORPUS if c[0] in vs]
        if tier == "quick" and proof_ok:
            plan = {"8_3_0": (False, 60, 7), "8_2_0": (False, 20, 40)}
        else:
            plan = {k: (True, 120 if proof_ok else 300, 1) for k in vs}
        for k in sorted(plan):
            if k in vs:
                full, n_other, step = plan[k]
                cs = gen_cases(vs[k], k, rng, full, n_other, step)
                if tier == "quick" and proof_ok and k == "8_2_0":
                    cs = [c for i, c in enumerate(cs) if i % 3 == 0]
                cases += cs
        mcases = [m for m in MULTI_CORPUS if m[0] in vs]
        for k in sorted(plan):
            if k in vs:
                quick = tier == "quick" and proof_ok
                mcases += gen_multi(vs[k], k, rng, (40 if k == "8_3_0" else 12) if quick else 60, not quick)
        with Pool(int(C.JOBS)) as pool:
            impl = pool.map(_impl_worker, cases, chunksize=200)
            mimpl = pool.map(impl_multi, mcases, chunksize=50)
        stats = collections.Counter()
        hist = collections.Counter()
        for case, got in zip(cases, impl):
            view = vs[case[0]]
            hist[case[4]] += 1
            exp = spec_case(view, classes_of(view, case), numeric_of(view, case), case[3])
            hist["spec:" + exp["kind"]] += 1
            classify_and_report(res, view, case, exp, got, stats)
        mjudged = 0
        for mc, got in zip(mcases, mimpl):
            hist[mc[3] + ":" + mc[1]] += 1
            if judge_multi(res, vs[mc[0]], mc, got):
                mjudged += 1
        disagreements = 0
        if model_ok:
            exe = C.build_driver("c11")
            mmod = C.run_driver(exe, [multi_model_line(paths[m[0]], vs[m[0]], m) for m in mcases])
            for mc, got, m in zip(mcases, mimpl, mmod):
                if "exn" in got:
                    continue
                if m and m[0] == "ERR":
                    disagreements += 1
                    res.violation("correspondence", multi_desc(vs[mc[0]], mc), f"model driver: {m}", no_input=True)
                    continue
                if sorted(m) != sorted(c for _t, c in got["per_tag"]):
                    disagreements += 1
                    probe = C.Result(PROP)
                    probe.known_ids = {}
                    judge_multi(probe, vs[mc[0]], mc, got)
                    if not probe.violations:
                        res.violation("correspondence", multi_desc(vs[mc[0]], mc),
                                      f"string codes impl={got['per_tag']} model={sorted(m)}", no_input=True)
            mod = C.run_driver(exe, [model_line(paths[c[0]], vs[c[0]], c) for c in cases])
            for case, got, m in zip(cases, impl, mod):
                if "codes_exn" in got:
                    continue
                if got.get("ext_seen") != case[3]:
                    continue      # the parser changed the extension (blank trimming): not the text the model was given
                if m[0] == "ERR":
                    disagreements += 1
                    res.violation("correspondence", {"string": f"{case[1]}/{case[3]}", "schema": case[0]},
                                  f"model driver: {m}", no_input=True)
                    continue
                mcodes = sorted(m[0])
                mv = model_value(m)
                diffs = []
                if mcodes != got["codes"]:
                    diffs.append(f"codes impl={got['codes']} model={mcodes}")
                if got["value"][0] != "inf" and not same_value(got["value"], mv):
                    diffs.append(f"value impl={got['value']} model={mv}")
                if diffs:
                    disagreements += 1
                    probe = C.Result(PROP)
                    probe.known_ids = {}
                    view = vs[case[0]]
                    exp = spec_case(view, classes_of(view, case), numeric_of(view, case), case[3])
                    classify_and_report(probe, view, case, exp, got, collections.Counter())
                    if not probe.violations:
                        res.violation("correspondence",
                                      {"schema": case[0], "tag": case[1], "classes": case[2], "extension": case[3],
                                       "string": f"{case[1]}/{case[3]}"}, "; ".join(diffs), no_input=True)
        distinct = len({(c[0], c[1], tuple(c[2] or ()), c[3]) for c in cases if " " in c[3]})
        return {
            "evaluations": len(cases) + len(mcases),
            "multi_tag_strings": {"strings": len(mcases), "judged": mjudged,
                                  "rule": "two or three unit-carrying tags per string that differ only in the letter "
                                          "case of the unit (declared/re-cased symbol, name/re-cased name), of the "
                                          "value or of the tag spelling (short, lower, upper, long form), both "
                                          "orders, repeated tags; layouts: separate groups, top level, one group, "
                                          "nested; per tag the verdict of the statement = the verdict alone"},
            "distinct_nontrivial": distinct,
            "rule": "corpus + per schema: every (value-taking node with unit classes | unit class no node uses) x unit x "
                    "modifier (permitted or not) x singular/plural x case variants x rotating numeric literals, bare "
                    "numbers, valid/invalid literals x units, near-miss / foreign / several-word unit texts; quick: "
                    "8.3.0 (full cross for one node per class list, every 7th combination for the others) + a third of "
                    "8.2.0's representative cross; thorough: all bundled schemas, full cross for every node; "
                    "non-trivial = the extension has a unit text (contains a blank)",
            "samples": [list(cases[i][:4]) for i in (0, 3, len(cases) // 2, len(cases) - 1)],
            "histogram": dict(hist),
            "disagreements_checked": disagreements,
            "correspondence_cases": (len(cases) + len(mcases)) if model_ok else 0,
            "exhaustive": False,
            "oracle": {"accepted_spellings": stats["accepted"], "other_texts": stats["other"],
                       "values_compared": stats["values_checked"], "values_compared_exactly": stats["values_exact"]},
            "schemas": sorted(plan),
            "fixed": {"f1_f2": bool(FIXED), "f3": bool(FIXED_F3), "f4": bool(FIXED_F4)},
        }
    finally:
        shutil.rmtree(scratch, ignore_errors=True)


def replay(payload):
    case = payload.get("case") or {}
    if "multi" in case:
        mc = (case["schema"], case["multi"]["layout"], [tuple(x) for x in case["multi"]["tags"]], "replay")
        view = views()[mc[0]]
        got = impl_multi(mc)
        res = C.Result(PROP)
        res.known_ids = {}
        judge_multi(res, view, mc, got)
        print("string:", multi_string(mc[1], mc[2]), "schema:", view["file"])
        print("impl:", got)
        print("statement expects per tag:", multi_expected(view, mc))
        for v in res.violations:
            print("FAILS:", v["clause"], v["detail"])
        return 1 if res.violations else 0
    if "extension" not in case:
        print("no concrete input in replay:", str(payload.get("detail", ""))[:800])
        return 1
    c = (case["schema"], case["tag"], case.get("classes"), case["extension"], "replay")
    view = views()[c[0]]
    got = impl_case(c[:4])
    exp = spec_case(view, classes_of(view, c), numeric_of(view, c), c[3])
    res = C.Result(PROP)
    res.known_ids = {}
    classify_and_report(res, view, c, exp, got, collections.Counter())
    print("string:", f"{c[1]}/{c[3]}", "schema:", view["file"], "classes:", classes_of(view, c))
    print("impl:", got)
    print("statement expects:", {k: (v if k != "readings" else [(r[0]['name'], r[1]['name'], r[2]['name'] if r[2] else None)
                                                                    for r in v]) for k, v in exp.items()})
    for v in res.violations:
        print("FAILS:", v["clause"], v["detail"])
    return 1 if res.violations else 0
