"""C02 -- Parsing is total and the parse tree mirrors the source text."""
import itertools
import os
import random
import sys
from multiprocessing import Pool

from harness import common as C

PROP = "C02"
COQ_TARGETS = ["Props/C02.vo", "Extract/ExtractC02.vo"]
TRUSTED = [
    "model Model/Parse.v is a hand transcription of HedString.split_hed_string / split_into_groups / __init__ and "
    "StringValidator.check_count_tag_group_parentheses; tied by the correspondence run (tokens, tree with spans, "
    "original-form print, count verdict)",
    "Base/Str.v isspace table compared with CPython str.isspace() for all 0x110000 code points on each run",
]
ASSUMPTIONS = [
    "print-and-reparse is proved for every text and every well-formed rendering of tag texts (C02_print_reparse, "
    "C02_render_reparse); that hed-python's short/long forms ARE such renderings of the same tags is checked on the "
    "implementation only (testing; see C03 for the forms themselves)",
    "tag identification against the schema inside the constructor (HedTag.__init__ -> schema lookups) is not modelled: "
    "the model takes no schema, so 'the tree is the same under every schema configuration' is what the correspondence "
    "run checks (5 configurations: plain, namespaced, schema group with a prefixed library, pre-8.3, library schema) "
    "and 'never raises' for that part is tested over each schema's own vocabulary in every tag position and in "
    "case-fold-equivalent spellings (testing)",
    "C02_spec_bounded is an additional exhaustive kernel evaluation for |s|<=6 over {a,' ',',','(',')','/'}; all "
    "other theorems are unbounded (every string)",
]

SIGMA6 = "a ,()/"
_schemas = {}
# schema configurations an annotation is constructed under: the parse tree must not depend on them
CONFIGS = ["8.3.0", "ts:8.3.0", "8.3.0+sc:score_2.0.0", "8.1.0", "testlib_2.0.0"]
PREFIX = {0: "", 1: "ts:", 2: "sc:", 3: "", 4: ""}


def schema(cfg=0):
    if cfg not in _schemas:
        from hed.schema import load_schema
        from hed.schema.hed_schema_group import HedSchemaGroup
        d = os.path.join(C.REPO, "hed/schema/schema_data")
        if cfg == 0:
            _schemas[cfg] = load_schema(os.path.join(d, "HED8.3.0.xml"))
        elif cfg == 1:
            _schemas[cfg] = load_schema(os.path.join(d, "HED8.3.0.xml"), schema_namespace="ts:")
        elif cfg == 2:
            _schemas[cfg] = HedSchemaGroup([load_schema(os.path.join(d, "HED8.3.0.xml")),
                                            load_schema(os.path.join(d, "HED_score_2.0.0.xml"), schema_namespace="sc:")])
        elif cfg == 3:
            _schemas[cfg] = load_schema(os.path.join(d, "HED8.1.0.xml"))
        else:
            _schemas[cfg] = load_schema(os.path.join(d, "HED_testlib_2.0.0.xml"))
    return _schemas[cfg]


# ---------------------------------------------------------------- implementation side

def tree_of(children):
    from hed.models.hed_tag import HedTag
    out = []
    for ch in children:
        if isinstance(ch, HedTag):
            out.append(["T", ch.span[0], ch.span[1]])
        else:
            out.append(["G", ch.span[0], ch.span[1], tree_of(ch.children)])
    return out


def shape_of(children, attr):
    from hed.models.hed_tag import HedTag
    out = []
    for ch in children:
        if isinstance(ch, HedTag):
            out.append(("T", getattr(ch, attr)))
        else:
            out.append(("G", tuple(shape_of(ch.children, attr))))
    return out


def impl_one(case):
    """Observable behaviour of the implementation on text s under schema configuration cfg."""
    from hed.models.hed_string import HedString
    from hed.validator.util.string_util import StringValidator
    cfg, s = case if isinstance(case, tuple) else (0, case)
    _sch = schema(cfg)
    r = {"s": s, "cfg": cfg}
    try:
        hs = HedString(s, _sch)
    except Exception as e:  # noqa
        r["exn"] = type(e).__name__
        return r
    try:
        r["toks"] = [[1 if k else 0, a, b] for k, (a, b) in HedString.split_hed_string(s)]
        r["tree"] = tree_of(hs.children)
        r["org"] = hs.get_as_original()
        r["org_tags"] = [(t.span[0], t.span[1], t.org_tag) for t in hs.get_all_tags()]
        r["count_mismatch"] = 1 if StringValidator.check_count_tag_group_parentheses(s) else 0
        # print / re-parse in the three forms
        rt = {}
        for form, attr in (("str", "short_tag"), ("org", "org_tag"), ("short", "short_tag"), ("long", "long_tag"),
                           ("original", None)):
            txt = str(hs) if form == "str" else (hs.get_as_original() if form == "original" else hs.get_as_form(attr))
            hs2 = HedString(txt, _sch)
            # equal tree = same nesting and, tag by tag, the same canonical short AND long form
            rt[form] = (shape_of(hs2.children, "short_tag") == shape_of(hs.children, "short_tag")
                        and shape_of(hs2.children, "long_tag") == shape_of(hs.children, "long_tag"))
        r["reparse"] = rt
        if not balanced(s):
            codes = [i["code"] for i in hs.validate()]
            r["val_mismatch"] = 1 if "PARENTHESES_MISMATCH" in codes else 0
    except Exception as e:  # noqa
        r["exn"] = "late:" + type(e).__name__ + ":" + str(e)[:80]
    return r


# ---------------------------------------------------------------- independent reference (python)

def balanced(s):
    d = 0
    for c in s:
        if c == "(":
            d += 1
        elif c == ")":
            d -= 1
            if d < 0:
                return False
    return d == 0


def ref_tree(s):
    """Spec of the statement: tags = maximal runs of non-delimiter characters trimmed of blanks."""
    stack = [[None, []]]
    i, n = 0, len(s)
    run_start = 0

    def flush(a, b):
        while a < b and s[a] == " ":
            a += 1
        while b > a and s[b - 1] == " ":
            b -= 1
        if a < b:
            stack[-1][1].append(["T", a, b])
    for i, c in enumerate(s):
        if c in ",()":
            flush(run_start, i)
            run_start = i + 1
            if c == "(":
                stack.append([i, []])
            elif c == ")":
                a, ch = stack.pop()
                stack[-1][1].append(["G", a, i + 1, ch])
    flush(run_start, n)
    return stack[0][1]


def oracle(r, res):
    """Check every clause of the statement on the implementation's output."""
    s = r["s"]
    case = {"text": s, "codepoints": C.cps(s), "schema_config": CONFIGS[r.get("cfg", 0)], "cfg": r.get("cfg", 0)}
    if "exn" in r:
        res.report("never-raises", case, r["exn"])
        return
    if balanced(s):
        exp = ref_tree(s)
        if r["tree"] != exp:
            res.report("tree-mirrors-text", case, f"impl={r['tree']} spec={exp}")
        for a, b, org in r["org_tags"]:
            if org != s[a:b]:
                res.report("org-tag-is-slice", case, f"{org!r} vs {s[a:b]!r}")
        for form, ok in r["reparse"].items():
            if not ok:
                res.report("print-reparse-" + form, case, "")
    else:
        if r["tree"]:
            res.report("unbalanced-empty-tree", case, str(r["tree"]))
        if not r.get("val_mismatch"):
            fid = None
            res.report("unbalanced-reports-mismatch", case, "no PARENTHESES_MISMATCH", fid=fid)


# ---------------------------------------------------------------- cases

TAGS = ["Red", "Event/Sensory-event", "Label/abc", "Duration/3 ms", "Blue", "red", "Item/Object", "Nonsense/x",
        "Def/Name", "Agent-action", "Property/Sensory-property/Sensory-attribute/Visual-attribute/Color/CSS-color/"
        "Red-color/Red", "Red-color/Myext", "Parameter-value/1.5", "ts:Red", "{col}", "#", "Label/#",
        "Red/", "Label/", "/Red", "Red//x", "Red/ x", "Red /x", "Event/", "Label/a/", "Label/a//b", "Red-color/",
        "Duration/3 ms/", "RED", "label/ABC", "Def/Name/", "Sensory-event/ext/"]
ODD = ["\t", " ", "​", "\U0001F600", "\n", "　", "é", "~", "[", "}", "  ", " "]


def gen_random(rng, n):
    out = []
    for _ in range(n):
        k = rng.randint(0, 14)
        parts = []
        depth = 0
        for _ in range(k):
            x = rng.random()
            if x < 0.35:
                parts.append(rng.choice(TAGS))
            elif x < 0.5:
                parts.append(",")
            elif x < 0.62:
                parts.append("(")
                depth += 1
            elif x < 0.74:
                if depth > 0 or rng.random() < 0.15:
                    parts.append(")")
                    depth -= 1
            elif x < 0.88:
                parts.append(rng.choice(ODD))
            else:
                parts.append(rng.choice(["a", "b c", "/", "x/y"]))
            if rng.random() < 0.5:
                parts.append(",")
        if rng.random() < 0.7:
            parts += [")"] * max(depth, 0)
        out.append("".join(parts))
    return out


def gen_wellformed(rng, n):
    def g(d):
        items = []
        for _ in range(rng.randint(1, 3)):
            if d > 0 and rng.random() < 0.4:
                items.append("(" + g(d - 1) + ")")
            else:
                items.append(rng.choice(TAGS[:13] + TAGS[17:]))
        sep = rng.choice([",", ", ", " , ", ",  "])
        return sep.join(items)
    return [rng.choice(["", " "]) + g(rng.randint(0, 4)) + rng.choice(["", " "]) for _ in range(n)]


# spellings that differ from a schema name only by Unicode case folding / letter case
FOLD_EQUIV = [("ss", "\u00df"), ("s", "\u017f"), ("fi", "\ufb01"), ("fl", "\ufb02"), ("ff", "\ufb00"), ("st", "\ufb06"),
              ("k", "\u212a"), ("i", "\u0130"), ("i", "\u0131"), ("e", "\u00e9"), ("a", "\u00c5"), ("n", "\u0149"),
              ("o", "\u03c3"), ("o", "\u03c2")]
_vocab = {}


def vocab(cfg):
    """(short names, long names, value-taking short names) of the configuration's schema(s), read from the code."""
    if cfg not in _vocab:
        sch = schema(cfg)
        schs = getattr(sch, "_schemas", None)
        schs = list(schs.values()) if schs else [sch]
        short, long_, taking = [], [], []
        for one in schs:
            for e in one.tags.all_entries:
                if e.short_tag_name == "#":
                    taking.append(e.long_tag_name.split("/")[-2])
                else:
                    short.append(e.short_tag_name)
                    long_.append(e.long_tag_name)
        _vocab[cfg] = (sorted(set(short)), sorted(set(long_)), sorted(set(taking)))
    return _vocab[cfg]


def respell(rng, name):
    """A spelling of a schema name: as is, other letter case, or with a case-fold-equivalent / look-alike letter."""
    x = rng.random()
    if x < 0.3:
        return name
    if x < 0.5:
        return rng.choice([name.upper(), name.lower(), name.swapcase(), name.capitalize(), name.title()])
    cands = [(a, b) for a, b in FOLD_EQUIV if a in name.lower()]
    if not cands:
        return name + rng.choice(["\u00df", "\u017f", "x", "-1", ""])
    a, b = rng.choice(cands)
    low = name.lower()
    i = low.index(a) if rng.random() < 0.5 else low.rindex(a)
    out = name[:i] + b + name[i + len(a):]
    return out if rng.random() < 0.7 else out.upper()


def schema_tag(rng, cfg):
    """One tag text over the schema vocabulary: every position (base, intermediate, extension, value) can carry a
       schema name in any spelling; prefixes of the configuration are used, omitted or wrong."""
    short, long_, taking = vocab(cfg)
    kind = rng.random()
    name = rng.choice(short)
    if kind < 0.15:
        t = respell(rng, name)
    elif kind < 0.3:
        full = rng.choice(long_).split("/")
        k = rng.randint(0, len(full) - 1)
        t = "/".join(respell(rng, x) if rng.random() < 0.4 else x for x in full[k:])
    elif kind < 0.65:   # extension terms under an identified tag: new words, schema names, respelled schema names
        terms = [respell(rng, rng.choice(short)) if rng.random() < 0.7 else rng.choice(["ext", "Myext", "x-1", "\u00e4"])
                 for _ in range(rng.randint(1, 3))]
        base = rng.choice(long_).split("/")
        t = "/".join(base[rng.randint(0, len(base) - 1):] + terms)
    elif kind < 0.85 and taking:   # value positions
        val = rng.choice([respell(rng, rng.choice(short)), "3 ms", "1.5", "#", "abc", "Stra\u00dfe", "a/b",
                          respell(rng, rng.choice(short)) + "/" + respell(rng, rng.choice(short))])
        t = respell(rng, rng.choice(taking)) + "/" + val
    else:
        t = respell(rng, name) + rng.choice(["/", "//x", "/ x", " /x", ""])
    pre = PREFIX[cfg]
    y = rng.random()
    if pre and y < 0.7:
        t = pre + t
    elif y < 0.8:
        t = rng.choice(["ts:", "sc:", "xx:", ":", "a:b:"]) + t
    return t


def gen_schema_vocab(rng, n, cfg):
    def g(d):
        items = []
        for _ in range(rng.randint(1, 3)):
            if d > 0 and rng.random() < 0.35:
                items.append("(" + g(d - 1) + ")")
            else:
                items.append(schema_tag(rng, cfg))
        return rng.choice([",", ", "]).join(items)
    return [(cfg, g(rng.randint(0, 3))) for _ in range(n)]


# whole-text "magic words" and characters that strip()/split()/codecs treat specially: no text is exempt from parsing
MAGIC = ["n/a", "N/A", "na", "NA", "nan", "None", "null", "#", "{}", "{a}", "HED", "0", "-", "n/a/", "/n/a", "n / a",
         "true", "''", '""', "\\", "n/a n/a"]
EDGE = ["\ufeff", "\u200b", "\u00a0", "\t", "\n", "\r", "\r\n", "\x00", "\x0b", "\x0c", "\x1c", "\x85", "\u2028",
        "\u2029", "\u3000", "\u200e", "\u202e", "\u00ad", "\ufffe", "\U000e0001", "\ud7ff", "\uffff"]


def gen_special(rng, n):
    out = []
    for w in MAGIC:
        for pad in ("", " ", "  "):
            out += [pad + w + pad, pad + w + ",", "," + w + pad, "(" + pad + w + pad + ")", w + ", Red", "Red," + pad + w,
                    "(Red, " + w + ")", w + "," + w]
    base = ["Red, Blue", "(Red, Blue)", "Sensory-event, (Red, Blue)", "Red", "", "(", ")", "Label/abc, (Def/Name)"]
    for c in EDGE:
        for b in base:
            out += [c + b, b + c, c + b + c, c + c + b, " " + c + b, c + " " + b]
        out += [c, c + ",", "Red," + c + "Blue", "Red" + c + ",Blue", "(" + c + "Red)", "(Red" + c + ")", "Re" + c + "d",
                c + "n/a", "n/a" + c]
    wf = gen_wellformed(rng, n)
    for t in wf:
        c = rng.choice(EDGE)
        x = rng.random()
        if x < 0.3:
            out.append(c + t)
        elif x < 0.6:
            out.append(t + c)
        elif x < 0.8:
            out.append(c + t + rng.choice(EDGE))
        else:
            k = rng.randint(0, len(t))
            out.append(t[:k] + c + t[k:])
    return out


def all_strings(n):
    for k in range(n + 1):
        for t in itertools.product(SIGMA6, repeat=k):
            yield "".join(t)


def check_isspace_table():
    """Base/Str.v isspace must equal CPython's str.isspace()."""
    def m(c):
        return (9 <= c <= 13 or 28 <= c <= 32 or c in (133, 160, 5760, 8232, 8233, 8239, 8287, 12288)
                or 8192 <= c <= 8202)
    bad = [c for c in range(0x110000) if m(c) != chr(c).isspace()]
    import re
    src = open(os.path.join(C.COQ, "Base/Str.v")).read()
    nums = set(int(x) for x in re.findall(r"\d+", src[src.index("Definition isspace"):src.index("Fixpoint count")]))
    want = {9, 13, 28, 32, 133, 160, 5760, 8192, 8202, 8232, 8233, 8239, 8287, 12288}
    if nums != want:
        bad.append(("coq-table-differs", sorted(nums ^ want)))
    return bad


def run(tier, seed, res, model_ok=True, proof_ok=True):
    rng = random.Random(seed)
    # corpus first
    corpus = [")(", "(a))((b)", "", " ", "(", ")", "a", "(a", "a)", "((a),b", "(Red,Blue),(Green),(Blue,Red)"]
    nmax = 6 if tier == "quick" else 8
    if tier == "quick":
        exhaustive = list(all_strings(nmax))
    else:
        exhaustive = list(all_strings(7)) + rng.sample(list(itertools.islice(all_strings(8), 335923, None)), 300000)
    nrand = 3000 if tier == "quick" else 60000
    corpus += ["Red, (Blue, Event/Pre\u00df)", "Agent/\u017fen\u017fory-event", "Item/De\ufb01nition/x", "Label/Stra\u00dfe"]
    cases = [(0, s) for s in corpus + exhaustive + gen_random(rng, nrand) + gen_wellformed(rng, nrand)]
    cases += [(0, s) for s in gen_special(rng, 600 if tier == "quick" else 10000)]
    nvoc = 800 if tier == "quick" else 12000
    for cfg in range(len(CONFIGS)):
        cases += gen_schema_vocab(rng, nvoc, cfg)
        if cfg:
            cases += [(cfg, s) for s in corpus + gen_wellformed(rng, nvoc // 2) + gen_random(rng, nvoc // 2)]
    if not proof_ok:   # broken proof/tie: widen the search for a concrete failing input
        cases += [(0, s) for s in gen_random(rng, nrand * 3) + gen_wellformed(rng, nrand * 3)]
        for cfg in range(len(CONFIGS)):
            cases += gen_schema_vocab(rng, nvoc * 3, cfg)

    bad_table = check_isspace_table()
    if bad_table:
        res.violation("isspace-table", {"codepoints": bad_table[:10]}, "Str.isspace differs from CPython", no_input=True)

    with Pool(int(C.JOBS)) as pool:
        impl = pool.map(impl_one, cases, chunksize=500)

    # implementation-side oracle (search for failing inputs; testing)
    for r in impl:
        oracle(r, res)

    # correspondence with the extracted model
    disagreements = 0
    if model_ok:
        exe = C.build_driver("c02")
        mod = C.run_driver(exe, [C.to_sx(C.cps(s)) for _, s in cases])
        for (cfg, s), r, m in zip(cases, impl, mod):
            if "exn" in r:
                continue  # already reported by the oracle
            if m[0] != "ok":
                disagreements += 1
                res.violation("correspondence", {"text": s, "cfg": cfg}, f"model={m}", no_input=True)
                continue
            mt = [[int(x) for x in t] for t in m[1]] if m[1] != "None" else None

            def conv(t):
                return ["T", int(t[1]), int(t[2])] if t[0] == "T" else ["G", int(t[1]), int(t[2]), [conv(c) for c in t[3]]]
            mtree = [conv(t) for t in m[2]]
            morg = C.uncps(m[3])
            diffs = []
            if mt != r["toks"]:
                diffs.append(f"tokens impl={r['toks']} model={mt}")
            if mtree != r["tree"]:
                diffs.append(f"tree impl={r['tree']} model={mtree}")
            if morg != r["org"]:
                diffs.append(f"org impl={r['org']!r} model={morg!r}")
            if int(m[6]) != r["count_mismatch"]:
                diffs.append(f"count_mismatch impl={r['count_mismatch']} model={m[6]}")
            if diffs:
                disagreements += 1
                # is it a property failure (then the oracle above reported it with the input)?
                probe = C.Result(PROP)
                probe.known_ids = {}
                oracle(r, probe)
                if not probe.violations:
                    res.violation("correspondence", {"text": s, "codepoints": C.cps(s), "cfg": cfg,
                                                     "schema_config": CONFIGS[cfg]}, "; ".join(diffs), no_input=True)

    distinct = len({(cfg, s) for cfg, s in cases if any(c in s for c in ",()")})
    nonascii = sum(1 for _, s in cases if any(ord(c) > 127 for c in s))
    return {
        "evaluations": len(cases),
        "distinct_nontrivial": distinct,
        "rule": f"corpus + all strings over {{a,blank,',','(',')','/'}} up to length {nmax if tier=='quick' else 7} "
                f"(+300k of length 8 in thorough) + {nrand} random delimiter/Unicode strings + {nrand} well-formed "
                f"nested annotations over real schema tags (schema 8.3.0) + per schema configuration {CONFIGS}: {nvoc} "
                "nested annotations over the schema's own vocabulary (base / intermediate / extension / value positions, "
                "names as is, in other letter case or with case-fold-equivalent letters, prefix used / omitted / wrong) "
                "and, for the non-default configurations, the corpus + well-formed + random streams again; "
                "+ a stream of whole-text magic words (n/a, None, null, #, {} ...) in list/group positions and of "
                "characters that strip()/split()/codecs treat specially (BOM, zero-width, every Unicode blank and line "
                "break, NUL, bidi marks) at the start, end and inside of well-formed annotations; "
                "non-trivial = contains at least one delimiter",
        "samples": [cases[0][1], cases[len(corpus) + 777][1], cases[-1][1], cases[-nvoc - 1][1]],
        "exhaustive": False,
        "disagreements_checked": disagreements,
        "correspondence_cases": len(cases) if model_ok else 0,
        "histogram": {"balanced": sum(1 for _, s in cases if balanced(s)),
                      "unbalanced": sum(1 for _, s in cases if not balanced(s)),
                      "max_len": max(len(s) for _, s in cases), "non_ascii": nonascii,
                      "per_config": {CONFIGS[k]: sum(1 for c, _ in cases if c == k) for k in range(len(CONFIGS))}},
    }


def replay(payload):
    s = payload["case"].get("text") if payload.get("case") else None
    if s is None:
        print("no concrete input in replay:", payload.get("detail", "")[:500])
        return 1
    r = impl_one((payload["case"].get("cfg", 0), s))
    res = C.Result(PROP)
    res.known_ids = {}
    oracle(r, res)
    print("impl:", r)
    for v in res.violations:
        print("FAILS:", v["clause"], v["detail"])
    return 1 if res.violations else 0
