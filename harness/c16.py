"""C16 -- Each dataset file is validated with its inherited, merged sidecar."""
import contextlib
import io
import itertools
import json
import os
import random
import re
import shutil
import subprocess
import sys
from multiprocessing import Pool

from harness import common as C

PROP = "C16"
COQ_TARGETS = ["Props/C16.vo", "Extract/ExtractC16.vo"]
TRUSTED = [
    "model Model/Bids.v is a hand transcription of io_util.check_filename/get_allowed/parse_bids_filename/_split_entity/"
    "get_file_list (os.walk with pruning), BidsFile.__init__, BidsSidecarFile.is_sidecar_for/set_contents, "
    "BidsFileGroup.__init__/get_sidecars_from_path/_get_sidecar_for_obj/validate_sidecars/validate_datafiles, "
    "Sidecar.load_sidecar_files, BidsDataset.validate and hed_validator.main; tied by the correspondence run "
    "(discovered files, parsed suffix/extension/entities, chain, merged dictionary incl. key order, exception type, "
    "issue sequence, exit status)",
    "file system abstractions: os.walk yields the same order on two walks of an unchanged tree; realpath is the "
    "identity (no symlinks); a directory and a file never share a path (hypothesis fs_ok of the theorems); "
    "sidecar_dir_dict[dir] modelled as the sub-list of sidecar_dict lying in dir; the group is computed on paths "
    "relative to the dataset root: that the real (absolute) paths give the same walk, applicability test and chain "
    "whatever the root is called is proved (C16_os_walk_is_walk, C16_is_sidecar_for_root_independent, "
    "C16_chain_root_independent) and exercised by generating the root's own name and the components above it",
    "str.lower() modelled for ASCII only (generated names are ASCII plus caseless white space); Base/Str.v isspace "
    "table compared with CPython for every code point used by the generators",
    "the sidecar and tabular validators are parameters of the model (properties C07/C08); a JSON document that is "
    "not an object is refused like unparseable JSON (HedFileError)",
]
ASSUMPTIONS = [
    "the theorems quantify over all directory trees, all file names and all sidecar contents of the model; the "
    "at-most-one-applicable-sidecar-per-directory hypothesis is the property's own",
    "VERIF_C16_FIXED=1 (default) = /repo as it is (fix commit be9bad3 repaired C16-F1); C16_merged_is_fold is the "
    "code-relative form (fold along the chain the code computes, no side condition), C16_merged_is_fold_applicable the "
    "declarative clause (merge of exactly the applicable sidecars by depth, under data_file and the statement's "
    "at-most-one hypothesis); the C16_before_fix_* theorems are only the record of the behaviour before be9bad3 "
    "(VERIF_C16_FIXED=0 checks an old tree against that record and accepts the C16-F1 class)",
    "C16_dataset_issues, C16_every_sidecar_validated / C16_every_data_file_validated / C16_dataset_issue_origin and "
    "C16_cli_exit_iff hold essentially by construction of the model (the driver is transcribed as concatenating "
    "loops and int(bool(list))); the tie of that structure to the code is tested: issue sequence and exit status "
    "against per-file validation, for merged sidecars of every entry shape (no HED key at all, HED misplaced inside "
    "Levels, metadata only, empty and non-object entries, the empty sidecar)",
    "which of several applicable sidecars in ONE directory is taken (a BIDS violation outside the statement) is not a "
    "theorem beyond C16_chain_only_applicable / C16_chain_one_per_depth; it is compared with the model by testing",
    "issue equality and the CLI exit status are checked on the implementation (testing) against per-file validation "
    "with the specification's merged sidecar; in the model they are structural",
]

# 1 = the tree under test has fix commit be9bad3, which repaired C16-F1 (data file gets the merge of ITS OWN chain;
# /repo has it): the model of the code as it is now is used and the oracle demands the full statement;
# 0 = the behaviour before commit be9bad3 (only for checking an old tree against the record of the repaired defect).
FIXED = int(os.environ.get("VERIF_C16_FIXED", "1"))
EXCLUDED_NAMES = ["sourcedata", "derivatives", "code", "stimuli", "phenotype"]
COLS = ["a", "b", "c", "trial_type"]
DESC = {"Name": "verif", "BIDSVersion": "1.8.0", "HEDVersion": "8.3.0"}
_schema = None


def schema():
    global _schema
    if _schema is None:
        from hed.schema import load_schema
        _schema = load_schema(os.path.join(C.REPO, "hed/schema/schema_data/HED8.3.0.xml"))
    return _schema


# ---------------------------------------------------------------- trees on disk
# tree = {"files": {name: content}, "dirs": {name: tree}}
# content = {"json": obj} | {"text": str}

def write_tree(root, tree):
    os.makedirs(root, exist_ok=True)
    for name, content in tree["files"].items():
        with open(os.path.join(root, name), "w", encoding="utf8") as f:
            if "json" in content:
                json.dump(content["json"], f)
            else:
                f.write(content["text"])
    for name, sub in tree["dirs"].items():
        write_tree(os.path.join(root, name), sub)


def rel_parts(root, p):
    r = os.path.relpath(p, root)
    parts = [] if r == "." else r.split(os.sep)
    return parts


def canon_issue(i):
    return [str(i.get("code")), str(i.get("ec_filename")), str(i.get("ec_sidecarColumnName")), str(i.get("ec_column")),
            str(i.get("ec_row")), str(i.get("severity"))]


def describe_obj(root, g, obj, merged):
    d = rel_parts(root, os.path.dirname(obj.file_path))
    return {"dir": d, "name": os.path.basename(obj.file_path), "suffix": obj.suffix, "ext": obj.ext,
            "ents": [[k, v] for k, v in obj.entity_dict.items()],
            "chain": [[rel_parts(root, os.path.dirname(p)), os.path.basename(p)] for p in g.get_sidecars_from_path(obj)],
            "merged": merged}


def dump_val(v):
    return json.dumps(v, sort_keys=True)


def validate_separately(root, sidecar_chains, data_chains, cfw):
    """The right-hand side of the statement: validate each merged sidecar and each events file with its
    merged sidecar, one by one, with fresh objects.  *_chains: [(dir parts, name, [chain paths])]."""
    from hed.models.sidecar import Sidecar
    from hed.models.tabular_input import TabularInput
    from hed.validator.sidecar_validator import SidecarValidator
    from hed.errors.error_reporter import ErrorHandler
    out = []
    for d, name, chain in sidecar_chains:
        paths = [os.path.join(root, *cd, cn) for cd, cn in chain]
        sc = Sidecar(files=paths, name=name)
        out += SidecarValidator(schema()).validate(sc, name=name, error_handler=ErrorHandler(cfw))
    for d, name, chain in data_chains:
        paths = [os.path.join(root, *cd, cn) for cd, cn in chain]
        fp = os.path.join(root, *d, name)
        sc = Sidecar(files=paths, name=name) if paths else None
        ti = TabularInput(file=fp, sidecar=sc, name=fp)
        out += ti.validate(schema(), name=name, error_handler=ErrorHandler(cfw))
    return [canon_issue(i) for i in out]


def run_cli(root, cfw, sub=False):
    args = [root] + (["--check-for-warnings"] if cfw else [])
    if sub:
        env = dict(os.environ)
        try:
            p = subprocess.run([C.PY, "-W", "ignore", "-m", "hed.scripts.hed_validator"] + args, env=env,
                               stdout=subprocess.PIPE, stderr=subprocess.PIPE, text=True, timeout=900)
            return p.returncode, p.stdout[-300:] + p.stderr[-300:]
        except subprocess.TimeoutExpired:     # overloaded machine: fall back to the in-process call below
            pass
    from hed.scripts import hed_validator
    old = sys.argv
    buf = io.StringIO()
    try:
        sys.argv = ["hed_validator"] + args
        with contextlib.redirect_stdout(buf), contextlib.redirect_stderr(buf):
            try:
                rc = hed_validator.main()
            except SystemExit as e:
                rc = ("SystemExit", e.code)
            except Exception as e:  # noqa
                rc = ("exn", type(e).__name__)
    finally:
        sys.argv = old
    return rc, buf.getvalue()[-300:]


def impl_one(case):
    """Observable behaviour of the implementation on one directory tree."""
    base, idx, tree, cfw, want_sub = case["base"], case["idx"], case["tree"], case["cfw"], case.get("sub", False)
    top = os.path.join(base, f"ds{idx}")
    # the dataset root's own name and the components above it are inputs: exclusion applies BELOW the root only
    root = os.path.join(top, *case.get("rootpath", ["ds"]))
    r = {"idx": idx}
    try:
        write_tree(root, tree)
        root = os.path.realpath(root)
        root_arg = root + (os.sep if case.get("trailing") else "")
        # the listing order the implementation will see
        walk = []
        for cur, dirs, files in os.walk(root, topdown=True):
            walk.append([rel_parts(root, cur), list(dirs), list(files)])
        r["walk"] = walk
        from hed.tools.bids.bids_dataset import BidsDataset
        import inspect
        r["excl"] = list(inspect.signature(BidsDataset.__init__).parameters["exclude_dirs"].default)
        r["types"] = list(inspect.signature(BidsDataset.__init__).parameters["tabular_types"].default)
        try:
            ds = BidsDataset(root_arg, schema=schema())
        except Exception as e:  # noqa
            r["exn"] = type(e).__name__
            ds = None
        if ds is not None:
            g = ds.get_tabular_group("events")
            r["sidecars"] = [describe_obj(root, g, o, [[k, dump_val(v)] for k, v in o.contents.loaded_dict.items()])
                             for o in g.sidecar_dict.values()]
            r["data"] = [describe_obj(root, g, o, None if o.sidecar is None else
                                      [[k, dump_val(v)] for k, v in o.sidecar.contents.loaded_dict.items()])
                         for o in g.datafile_dict.values()]
            objs = list(g.sidecar_dict.values()) + list(g.datafile_dict.values())
            r["isf"] = [[1 if s.is_sidecar_for(o) else 0 for o in objs] for s in g.sidecar_dict.values()]
            try:
                r["issues"] = [canon_issue(i) for i in ds.validate(check_for_warnings=cfw)]
            except Exception as e:  # noqa
                r["issues_exn"] = type(e).__name__ + ":" + str(e)[:100]
        r["cli"] = run_cli(root_arg, cfw, sub=want_sub)[0]
        # the statement's right-hand side (computed here because the files are on disk now):
        #  "spec":  per-file validation with the specification's chains (supplied by the caller);
        #  "model": per-file validation along the chains the implementation reported, combined the way the
        #           model's constructor combines them (FIXED: the file's own chain; before the fix: the own chain
        #           of the deepest sidecar) -- the chains themselves are compared with the model separately
        exp = {}
        chains = {"spec": case.get("chains_spec"), "model": chains_of(r, case.get("fixed", FIXED)) if ds is not None else None}
        for key, ch in chains.items():
            if ch is not None:
                try:
                    exp[key] = validate_separately(root, ch[0], ch[1], cfw)
                except Exception as e:  # noqa
                    exp[key] = "exn:" + type(e).__name__
        r["expect"] = exp
    except Exception as e:  # noqa
        import traceback
        r["harness_exn"] = traceback.format_exc()[-1500:]
    finally:
        shutil.rmtree(top, ignore_errors=True)
    return r


# ---------------------------------------------------------------- independent reference (the statement, in python)

REGULAR = re.compile(r"^((?:[A-Za-z0-9]+-[A-Za-z0-9]+_)*)([A-Za-z0-9]+)\.(json|tsv)$")


def spec_parse(name):
    """Entities/suffix of a regular BIDS name; None when the name is not regular (then no oracle)."""
    m = REGULAR.match(name)
    if not m:
        return None
    ents = {}
    for piece in m.group(1).split("_"):
        if piece:
            k, v = piece.split("-")
            if k in ents:
                return None           # repeated entity: not a BIDS name
            ents[k] = v
    return {"suffix": m.group(2), "ext": "." + m.group(3), "ents": ents}


def all_files(tree, d=()):
    for name, content in tree["files"].items():
        yield list(d), name, content
    for name, sub in tree["dirs"].items():
        yield from all_files(sub, d + (name,))


def spec_dataset(tree, excl, suffix="events"):
    """Sidecars/data files taking part, and for each its applicable chain (None = outside the statement)."""
    files = [(d, n, c) for d, n, c in all_files(tree) if not any(x in excl for x in d)]
    sidecars, data = [], []
    for d, n, c in files:
        p = spec_parse(n)
        if p is None:
            # not a regular name: does it even look like a candidate?  then the whole tree is outside the oracle
            low = n.lower()
            if (low.endswith(".json") and low[:-5].endswith(suffix)) or (low.endswith(".tsv") and low[:-4].endswith(suffix)):
                return None
            continue
        if p["suffix"].lower().endswith(suffix) and p["suffix"] != suffix:
            return None               # e.g. myevents / EVENTS: discovery quirk, outside the oracle
        if p["suffix"] != suffix:
            continue
        rec = {"dir": d, "name": n, "ents": p["ents"], "content": c}
        (sidecars if p["ext"] == ".json" else data).append(rec)

    def chain(f):
        app = [s for s in sidecars
               if f["dir"][:len(s["dir"])] == s["dir"] and all(f["ents"].get(k) == v for k, v in s["ents"].items())]
        app.sort(key=lambda s: len(s["dir"]))
        for a, b in zip(app, app[1:]):
            if len(a["dir"]) == len(b["dir"]):
                return None           # more than one applicable file in a directory: outside the statement
        return app

    def merged(ch):
        m = {}
        for s in ch:
            if "json" not in s["content"] or not isinstance(s["content"]["json"], dict):
                return "unloadable"
            m.update(s["content"]["json"])
        return m
    for f in sidecars + data:
        f["chain"] = chain(f)
        f["merged"] = None if f["chain"] is None else merged(f["chain"])
    return {"sidecars": sidecars, "data": data}


def finding_class(f):
    """C16-F1: the chain of f contains a sidecar whose entities are not all among those of the deepest
    sidecar of the chain; the implementation then merges only the deepest sidecar's own chain."""
    ch = f["chain"]
    if not ch:
        return None
    last = ch[-1]
    kept = [s for s in ch if all(last["ents"].get(k) == v for k, v in s["ents"].items())]
    if len(kept) == len(ch):
        return None
    m = {}
    for s in kept:
        m.update(s["content"]["json"])
    return m


def oracle(case_pub, r, spec, res, stats=None):
    """Every clause of the statement on the implementation's behaviour.  Returns True when the dataset
    contains a file of the known-finding class."""
    has_finding = False
    if spec is None:
        return False
    unloadable = any("json" not in f["content"] or not isinstance(f["content"]["json"], dict) for f in spec["sidecars"])
    if "exn" in r:
        if not unloadable:
            res.report("constructor-raises", case_pub, r["exn"])
        return False
    if unloadable:
        return False
    key = lambda f: (f["dir"], f["name"])
    # files taking part (excluded directories take no part)
    for kind in ("sidecars", "data"):
        got = sorted(key(x) for x in r[kind])
        want = sorted(key(x) for x in spec[kind])
        if got != want:
            res.report("discovery-excluded", case_pub, f"{kind}: impl={got} spec={want}")
            return False
    by = {(tuple(f["dir"]), f["name"]): f for f in spec["sidecars"] + spec["data"]}
    # the applicability test: same suffix, directory on the root path, entities contained with equal values
    objs = r["sidecars"] + r["data"]
    for i, sx in enumerate(r["sidecars"]):
        s = by[(tuple(sx["dir"]), sx["name"])]
        for j, ox in enumerate(objs):
            o = by[(tuple(ox["dir"]), ox["name"])]
            want = 1 if (s is o or (o["dir"][:len(s["dir"])] == s["dir"]
                                    and all(o["ents"].get(k) == v for k, v in s["ents"].items()))) else 0
            if r["isf"][i][j] != want:
                res.report("is-sidecar-for", case_pub, f"sidecar {sx['dir']}/{sx['name']} for {ox['dir']}/{ox['name']}: "
                           f"impl={r['isf'][i][j]} spec={want}")
    all_in_scope = True
    for kind in ("sidecars", "data"):
        for x in r[kind]:
            f = by[(tuple(x["dir"]), x["name"])]
            if f["chain"] is None:
                all_in_scope = False
                continue
            want_chain = [[s["dir"], s["name"]] for s in f["chain"]]
            if x["chain"] != want_chain:
                res.report("chain", case_pub, f"{x['dir']}/{x['name']}: impl={x['chain']} spec={want_chain}")
            want_m = {k: dump_val(v) for k, v in f["merged"].items()}
            got_m = None if x["merged"] is None else dict((k, v) for k, v in x["merged"])
            if got_m is None and not f["chain"]:
                continue
            if got_m != want_m:
                bad = finding_class(f)
                fid = None
                if not FIXED and bad is not None and kind == "data" and got_m == {k: dump_val(v) for k, v in bad.items()}:
                    fid = "C16-F1"
                    has_finding = True
                res.report("merged", case_pub, f"{x['dir']}/{x['name']}: impl={got_m} spec={want_m}", fid=fid)
    # validation = concatenation of the per-file validations with the spec's merged sidecars; exit status
    exp = r.get("expect", {}).get("spec")
    if all_in_scope and not has_finding and exp is not None:
        if "issues" not in r:
            res.report("validate-raises", case_pub, r.get("issues_exn", "?"))
        elif isinstance(exp, str) or sorted(r["issues"]) != sorted(exp):   # the statement fixes no order
            res.report("issues-exact", case_pub, f"impl={r['issues'][:6]} spec={exp[:6]}" if not isinstance(exp, str) else exp)
        if not isinstance(exp, str):
            want_rc = 1 if exp else 0
            if r["cli"] != want_rc:
                res.report("cli-exit", case_pub, f"exit={r['cli']} expected={want_rc} issues={len(exp)}")
    if "issues" in r and isinstance(r["cli"], int) and (r["cli"] != 0) != bool(r["issues"]) and all_in_scope:
        res.report("cli-exit-iff", case_pub, f"exit={r['cli']} issues={len(r['issues'])}")
    return has_finding


# ---------------------------------------------------------------- model side

def model_input(r, tree, excl, suffix="events"):
    """The tree in the implementation's os.walk order, names as code points, JSON keys/values as ids."""
    kid, vid = {}, {}

    def ident(tab, x):
        if x not in tab:
            tab[x] = len(tab)
        return tab[x]
    order = {tuple(d): (dirs, files) for d, dirs, files in r["walk"]}

    def conv(t, d):
        dirs, files = order[tuple(d)]
        fl = []
        for n in files:
            c = t["files"][n]
            if n.lower().endswith(".json"):
                obj = None
                if "json" in c:
                    obj = c["json"]
                else:
                    try:
                        obj = json.loads(c["text"])
                    except Exception:  # noqa
                        obj = None
                if isinstance(obj, dict):
                    cont = [[ident(kid, k), ident(vid, dump_val(v))] for k, v in obj.items()]
                else:
                    cont = "N"
            else:
                cont = "N"
            fl.append([C.cps(n), cont])
        return [fl, [[C.cps(n), conv(t["dirs"][n], d + [n])] for n in dirs]]
    sx = C.to_sx([str(1 if FIXED else 0), [C.cps(e) for e in excl], C.cps(suffix), conv(tree, [])])
    return sx, {v: k for k, v in kid.items()}, {v: k for k, v in vid.items()}


def decode_model(m, kname, vname):
    def obj(x, is_data):
        d = [C.uncps(c) for c in x[0]]
        mg = x[6]
        if is_data:
            mg = None if mg == "N" else mg[1]
        return {"dir": d, "name": C.uncps(x[1]), "suffix": None if x[2] == "N" else C.uncps(x[2][1]),
                "ext": C.uncps(x[3]), "ents": [[C.uncps(k), C.uncps(v)] for k, v in x[4]],
                "chain": [[[C.uncps(c) for c in cd], C.uncps(cn)] for cd, cn in x[5]],
                "merged": None if mg is None else [[kname[int(k)], vname[int(v)]] for k, v in mg]}
    if m[0] == "exn":
        return {"exn": m[1]}
    if m[0] != "ok":
        return {"err": str(m)}
    return {"sidecars": [obj(x, False) for x in m[1]], "data": [obj(x, True) for x in m[2]],
            "isf": [[int(b) for b in row] for row in m[3]]}


def chains_of(desc, fixed):
    return ([(x["dir"], x["name"], x["chain"] or [[x["dir"], x["name"]]]) for x in desc["sidecars"]],
            [(x["dir"], x["name"], chain_for_data(desc, x, fixed)) for x in desc["data"]])


def chain_for_data(desc, x, fixed):
    """Repaired constructor: the data file is validated with the merge of its own chain.  Before the fix: with
    the contents of the LAST sidecar of its chain (that sidecar's own chain)."""
    if not x["chain"] or fixed:
        return x["chain"]
    last = x["chain"][-1]
    for s in desc["sidecars"]:
        if [s["dir"], s["name"]] == last:
            return s["chain"] or [[s["dir"], s["name"]]]
    return []


def spec_chains(spec):
    if spec is None or any(f["chain"] is None or f["merged"] == "unloadable" for f in spec["sidecars"] + spec["data"]):
        return None
    conv = lambda f: (f["dir"], f["name"], [[s["dir"], s["name"]] for s in f["chain"]])
    return None, [conv(f) for f in spec["sidecars"]], [conv(f) for f in spec["data"]]


EXN_MAP = {"HedFileError": "HedFileError", "KeyError": "KeyError", "TypeError": "TypeError", "ValueError": "ValueError",
           "AttributeError": "AttributeError", "IndexError": "IndexError"}


# ---------------------------------------------------------------- generators

def shape_entry(shape, tag, c):
    """One column entry of a sidecar in one of the shapes the sidecar validator has a rule (or silence) for.
    Every entry names the file it comes from (tag), so that a merge shows which file supplied it."""
    return {
        "cat": {"HED": {"x": f"Label/{tag}{c}", "y": f"Label/{tag}"}},
        "cat_missing_key": {"HED": {"x": f"Label/{tag}{c}"}},                      # SIDECAR_KEY_MISSING warning on y
        "cat_bad_tag": {"HED": {"x": f"Badtag{tag}, Red", "y": "Blue"}},             # TAG_INVALID
        "val": {"HED": f"Label/# , Label/{tag}"},                                    # value column
        "meta": {"Description": f"no hed {tag}", "Levels": {"x": f"level {tag}", "y": "other"}},
        "levels_hed": {"Description": f"misplaced {tag}",                            # HED inside Levels entries
                       "Levels": {"x": {"Description": "r", "HED": f"Label/{tag}"}, "y": {"HED": "Blue"}}},
        "deep_hed": {"Levels": {"x": {"More": {"HED": f"Label/{tag}"}}}},
        "emptyobj": {},
        "str": f"just text {tag}",
        "list": [1, tag],
        "null": None,
        "num": 3,
        "hed_assembled": {"HED_assembled": {"x": f"Label/{tag}"}},
        "hed_list": {"HED": [f"Label/{tag}"]},
        "hed_null": {"HED": None, "Description": tag},
        "hed_emptydict": {"HED": {}, "Description": tag},
        "hed_emptystr": {"HED": "", "Description": tag},
    }[shape]


HED_SHAPES = ["cat", "cat", "cat", "cat_missing_key", "cat_bad_tag", "val"]
NOHED_SHAPES = ["meta", "levels_hed", "levels_hed", "deep_hed", "emptyobj", "str", "list", "null", "num"]
ODD_SHAPES = ["hed_assembled", "hed_list", "hed_null", "hed_emptydict", "hed_emptystr"]
FAMILY_SHAPES_QUICK = ["cat", "cat_bad_tag", "val", "meta", "levels_hed", "emptyobj", "null", "hed_emptydict"]
FAMILY_SHAPES_ALL = ["cat", "cat_missing_key", "cat_bad_tag", "val"] + sorted(set(NOHED_SHAPES)) + ODD_SHAPES


def jcontent(rng, tag):
    """Small sidecar: a random subset of columns in a random mode.  Modes: mostly well placed HED (mixed), no
    properly placed HED key anywhere (only metadata / misplaced HED / non-object entries), the empty object, a
    top-level HED key."""
    mode = rng.random()
    if mode < 0.04:
        return {"json": {}}
    d = {}
    cols = [c for c in COLS if rng.random() < 0.55] or [rng.choice(COLS)]
    rng.shuffle(cols)
    for c in cols:
        if mode < 0.30:
            shape = rng.choice(NOHED_SHAPES)
        else:
            x = rng.random()
            shape = rng.choice(HED_SHAPES) if x < 0.72 else rng.choice(NOHED_SHAPES) if x < 0.92 else rng.choice(ODD_SHAPES)
        d[c] = shape_entry(shape, tag, c)
    if 0.30 <= mode < 0.34:
        d["HED"] = f"Label/{tag}"
    return {"json": d}


def gen_shape_family(shapes):
    """Every pair (shape of the root sidecar's entries, shape of the subject-level sidecar's entries): the deeper file
    overrides BOTH columns of the shallower one; sub-01 sees the merge, sub-02 the root sidecar alone; plus the
    empty sidecar object at either level."""
    out = []
    ev = {"text": "onset\tduration\ta\tb\n1\t0.5\tx\ty\n2\t0.5\ty\tn/a\n"}
    for s1 in shapes + ["EMPTY"]:
        for s2 in shapes + ["EMPTY"]:
            tree = new_dir()
            tree["files"]["dataset_description.json"] = {"json": DESC}
            tree["files"]["task-rest_events.json"] = {"json": {} if s1 == "EMPTY" else
                                                      {"a": shape_entry(s1, "R", "a"), "b": shape_entry(s1, "R", "b")}}
            get_dir(tree, ["sub-01"])["files"]["sub-01_task-rest_events.json"] = {
                "json": {} if s2 == "EMPTY" else {"b": shape_entry(s2, "S", "b"), "a": shape_entry(s2, "S", "a")}}
            get_dir(tree, ["sub-01", "eeg"])["files"]["sub-01_task-rest_events.tsv"] = ev
            get_dir(tree, ["sub-02", "eeg"])["files"]["sub-02_task-rest_events.tsv"] = ev
            out.append(tree)
    return out


def tsv(rng):
    cols = [c for c in COLS if rng.random() < 0.6]
    rows = rng.randint(1, 2)
    lines = ["\t".join(["onset", "duration"] + cols)]
    for i in range(rows):
        lines.append("\t".join([str(i + 1), "0.5"] + [rng.choice(["x", "y", "x", "n/a"]) for _ in cols]))
    return {"text": "\n".join(lines) + "\n"}


def ent_name(ents, suffix="events", ext=".json"):
    return "_".join([f"{k}-{v}" for k, v in ents] + [suffix]) + ext


def new_dir():
    return {"files": {}, "dirs": {}}


def get_dir(tree, parts):
    t = tree
    for p in parts:
        t = t["dirs"].setdefault(p, new_dir())
    return t


def gen_tree(rng, malformed=False, finding_bias=0.5):
    tree = new_dir()
    tree["files"]["dataset_description.json"] = {"json": DESC}
    nsub, nses = rng.randint(1, 3), rng.choice([0, 0, 1, 2])
    tasks = rng.sample(["rest", "go", "nback"], rng.randint(1, 2))
    nrun = rng.choice([0, 0, 1, 2])
    dtype = rng.choice(["eeg", "func", "beh"])
    datafiles = []
    for s in range(1, nsub + 1):
        for se in (range(1, nses + 1) if nses else [None]):
            for t in tasks:
                for ru in (range(1, nrun + 1) if nrun else [None]):
                    if rng.random() < 0.25 and datafiles:
                        continue
                    ents = [("sub", f"{s:02d}")] + ([("ses", f"{se:02d}")] if se else []) + [("task", t)] \
                        + ([("run", str(ru))] if ru else [])
                    d = [f"sub-{s:02d}"] + ([f"ses-{se:02d}"] if se else []) + ([dtype] if rng.random() < 0.9 else [])
                    get_dir(tree, d)["files"][ent_name(ents, ext=".tsv")] = tsv(rng)
                    datafiles.append((d, ents))
    # sidecars at any subset of levels with entity subsets of some data file
    n_sc = rng.randint(0, 5)
    count = 0
    for _ in range(n_sc):
        d, ents = rng.choice(datafiles)
        lvl = rng.randint(0, len(d))
        if rng.random() < finding_bias:
            sub_e = [e for e in ents if rng.random() < 0.45]
        else:   # BIDS-like: entities grow with depth
            allowed = {0: ["task"], 1: ["sub", "task"], 2: ["sub", "ses", "task", "run"], 3: ["sub", "ses", "task", "run"]}[min(lvl, 3)]
            sub_e = [e for e in ents if e[0] in allowed and rng.random() < 0.8]
        if rng.random() < 0.1 and sub_e:      # a value that matches no file / another file
            i = rng.randrange(len(sub_e))
            sub_e[i] = (sub_e[i][0], rng.choice(["99", "other", "02", "go"]))
        name = ent_name(sub_e)
        tgt = get_dir(tree, d[:lvl])
        if name not in tgt["files"]:
            count += 1
            tgt["files"][name] = jcontent(rng, f"f{count}")
    # excluded directories (and near misses) with copies of applicable-looking files
    for _ in range(rng.choice([0, 1, 1, 2])):
        d, ents = rng.choice(datafiles)
        lvl = rng.randint(0, len(d))
        ex = rng.choice(EXCLUDED_NAMES + ["Derivatives", "code2", "stimuli"])
        tgt = get_dir(tree, d[:lvl] + [ex] + (d[lvl:] if rng.random() < 0.5 else []))
        count += 1
        tgt["files"][ent_name([e for e in ents if rng.random() < 0.5])] = jcontent(rng, f"x{count}")
        if rng.random() < 0.6:
            tgt["files"][ent_name(ents, ext=".tsv")] = tsv(rng)
    # unrelated files that must be ignored
    if rng.random() < 0.4:
        d, ents = rng.choice(datafiles)
        get_dir(tree, d)["files"][ent_name(ents, suffix="channels", ext=".tsv")] = {"text": "name\ttype\nCz\tEEG\n"}
        get_dir(tree, d[:rng.randint(0, len(d))])["files"][ent_name(ents[:1], suffix="eeg")] = {"json": {"TaskName": "x"}}
        tree["files"]["participants.tsv"] = {"text": "participant_id\nsub-01\n"}
    if malformed:
        d, ents = rng.choice(datafiles)
        lvl = rng.randint(0, len(d))
        tgt = get_dir(tree, d[:lvl])
        kind = rng.randrange(14)
        e1 = ents[0]
        nm = [
            "foo_events.json",                                    # BadKeyValue
            f"{e1[0]}-{e1[1]}_task-a-b_events.json",              # bad piece
            f"{e1[0]}-{e1[1]}__events.json",                      # empty piece
            f" {e1[0]}-{e1[1]}_events.json",                      # leading blank
            f"{e1[0]}-{e1[1]}_events.JSON",                       # upper-case extension
            f"{e1[0]}-{e1[1]}_EVENTS.json",                       # suffix differs in case
            f"{e1[0]}-{e1[1]}_myevents.json",                     # suffix only ends with events
            f"{e1[0]}-{e1[1]}_task-events.json",                  # no suffix piece
            f"{e1[0]}-{e1[1]}_events.json.bak",                   # not a candidate
            f"{e1[0]}- {e1[1]} _events.json",                     # blanks inside a piece
            f"{e1[0]}-zz_{e1[0]}-{e1[1]}_events.json",            # repeated entity key
            f"{e1[0]}-{e1[1]}_events .json",                      # blank before the extension
            f"{e1[0]}-{e1[1]}\u00a0_events.json",            # non-ASCII white space
            f"{e1[0]}-{e1[1]}_myevents.tsv",
        ][kind]
        count += 1
        tgt["files"][nm] = tsv(rng) if nm.endswith(".tsv") else jcontent(rng, f"m{count}")
        if rng.random() < 0.15:
            tgt["files"][ent_name(ents[:1])] = rng.choice([{"text": "{not json"}, {"json": [1, 2]}, {"json": "text"},
                                                           {"json": None}, {"json": 5}])
    return tree


def gen_exhaustive(with_ses):
    """Every placement of at most one sidecar per level (root, sub[, ses], datatype directory) with every
    entity subset of the data file's entities sub[, ses], task: (2^k+1)^levels trees, one data file each."""
    ents = [("sub", "01")] + ([("ses", "01")] if with_ses else []) + [("task", "rest")]
    d = ["sub-01"] + (["ses-01"] if with_ses else []) + ["eeg"]
    subsets = [None] + [list(c) for r in range(len(ents) + 1) for c in itertools.combinations(ents, r)]
    out = []
    for choice in itertools.product(subsets, repeat=len(d) + 1):
        tree = new_dir()
        tree["files"]["dataset_description.json"] = {"json": DESC}
        get_dir(tree, d)["files"][ent_name(ents, ext=".tsv")] = {"text": "onset\tduration\ta\tc0\n1\t0.5\tx\ty\n"}
        for lvl, sub_e in enumerate(choice):
            if sub_e is None:
                continue
            val = {"HED": {"x": f"Label/L{lvl}", "y": "Red" if lvl % 2 else f"Badtag{lvl}"}}
            get_dir(tree, d[:lvl])["files"][ent_name(sub_e)] = {"json": {"a": val, f"c{lvl}": {"HED": {"x": f"Label/C{lvl}"}}}}
        out.append(tree)
    return out


def corpus():
    """Fixed cases: the refuted witness (C16-F1) first, then regressions."""
    def t(files):
        tree = new_dir()
        tree["files"]["dataset_description.json"] = {"json": DESC}
        for rel, c in files:
            parts = rel.split("/")
            get_dir(tree, parts[:-1])["files"][parts[-1]] = c
        return tree
    ev = {"text": "onset\tduration\ta\tr\n1\t0.5\tx\tx\n"}
    w = t([("task-rest_events.json", {"json": {"a": {"HED": {"x": "Red"}}, "r": {"HED": {"x": "Blue"}}}}),
           ("sub-01/sub-01_events.json", {"json": {"a": {"HED": {"x": "Green"}}, "s": {"HED": {"x": "Blue"}}}}),
           ("sub-01/eeg/sub-01_task-rest_events.tsv", ev)])
    ok = t([("task-rest_events.json", {"json": {"a": {"HED": {"x": "Red"}}, "r": {"HED": {"x": "Blue"}}}}),
            ("sub-01/sub-01_task-rest_events.json", {"json": {"a": {"HED": {"x": "Green"}}}}),
            ("sub-01/eeg/sub-01_task-rest_events.tsv", ev),
            ("derivatives/sub-01/eeg/sub-01_task-rest_events.tsv", ev),
            ("sub-01/code/task-rest_events.json", {"json": {"a": {"HED": {"x": "Badtag"}}}})])
    bad = t([("events.json", {"json": {"a": {"HED": {"x": "Badtag, Red"}}}}),
             ("sub-01/sub-01_task-rest_events.tsv", ev)])
    none = t([("sub-01/eeg/sub-01_task-rest_events.tsv", ev)])
    return [w, ok, bad, none]


# ---------------------------------------------------------------- run

def histogram_of(trees):
    h = {"sidecars": {}, "depth": {}, "excluded_dirs": 0, "data_files": {}}
    for t in trees:
        fs = list(all_files(t))
        ns = sum(1 for d, n, c in fs if n.lower().endswith("events.json"))
        nd = sum(1 for d, n, c in fs if n.lower().endswith("events.tsv"))
        h["sidecars"][ns] = h["sidecars"].get(ns, 0) + 1
        h["data_files"][min(nd, 12)] = h["data_files"].get(min(nd, 12), 0) + 1
        md = max(len(d) for d, n, c in fs)
        h["depth"][md] = h["depth"].get(md, 0) + 1
        if any(x in EXCLUDED_NAMES for d, n, c in fs for x in d):
            h["excluded_dirs"] += 1
    return h


def check_isspace(res):
    src = open(os.path.join(C.COQ, "Base/Str.v")).read()
    nums = set(int(x) for x in re.findall(r"\d+", src[src.index("Definition isspace"):src.index("Fixpoint count")]))
    want = {9, 13, 28, 32, 133, 160, 5760, 8192, 8202, 8232, 8233, 8239, 8287, 12288}

    def m(c):
        return (9 <= c <= 13 or 28 <= c <= 32 or c in (133, 160, 5760, 8232, 8233, 8239, 8287, 12288) or 8192 <= c <= 8202)
    bad = [c for c in range(0x3100) if m(c) != chr(c).isspace()]
    if nums != want or bad:
        res.violation("isspace-table", {"codepoints": bad[:10]}, "Str.isspace differs from CPython", no_input=True)


ROOT_NAMES = ["ds", "rawdata", "Derivatives", "bids root", "sub-01", "task-rest_events"]


def gen_rootpath(rng, i):
    """Components from the scratch directory down to the dataset root: the root's own name (an excluded name in
    over a third of the cases; the first corpus trees get one each) and 0-2 components above it."""
    if i < len(EXCLUDED_NAMES):
        return [EXCLUDED_NAMES[i]]
    x = rng.random()
    name = rng.choice(EXCLUDED_NAMES) if x < 0.38 else rng.choice(ROOT_NAMES)
    above = [rng.choice(EXCLUDED_NAMES + ROOT_NAMES) for _ in range(rng.choice([0, 0, 0, 1, 2]))]
    return above + [name]


def evaluate(trees, res, model_ok, rng, n_sub=2):
    """One pass over the implementation per tree: observe, and compute the statement's right-hand side with the
    specification's chains (computed beforehand, independently) and with the reported chains."""
    base = C.scratch_dir("hedverif-c16-")
    stats = {"disagreements": 0, "finding_trees": 0, "in_scope": 0, "exn": 0, "roots": {}}
    try:
        excl = EXCLUDED_NAMES
        specs = [spec_dataset(t, excl) for t in trees]
        cases = []
        for i, (t, sp) in enumerate(zip(trees, specs)):
            sc = spec_chains(sp)
            cases.append({"base": base, "idx": i, "tree": t, "cfw": rng.random() < 0.6, "sub": i < n_sub, "fixed": FIXED,
                          "rootpath": gen_rootpath(rng, i), "trailing": rng.random() < 0.15,
                          "chains_spec": None if sc is None else (sc[1], sc[2])})
            stats["roots"][cases[-1]["rootpath"][-1]] = stats["roots"].get(cases[-1]["rootpath"][-1], 0) + 1
        with Pool(min(int(C.JOBS), 16)) as pool:
            first = pool.map(impl_one, cases, chunksize=4)
        for r in first:
            if "harness_exn" in r:
                res.violation("harness-error", None, r["harness_exn"], no_input=True)
                return stats, []
        if first[0]["excl"] != EXCLUDED_NAMES:
            res.violation("tie", None, f"BidsDataset default exclude_dirs changed: {first[0]['excl']} (Coq excl_default / "
                          f"harness EXCLUDED_NAMES = {EXCLUDED_NAMES})", no_input=True)
        if first[0]["types"] != ["events"]:
            res.violation("tie", None, f"BidsDataset default tabular_types changed: {first[0]['types']}", no_input=True)
        models = [None] * len(trees)
        if model_ok:
            exe = C.build_driver("c16")
            ins = [model_input(r, t, excl) for r, t in zip(first, trees)]
            outs = C.run_driver(exe, [x[0] for x in ins])
            models = [decode_model(o, x[1], x[2]) for o, x in zip(outs, ins)]
        results = []
        for c, t, r1, sp, mo in zip(cases, trees, first, specs, models):
            pub = {"tree": t, "cfw": c["cfw"], "rootpath": c["rootpath"], "trailing": c["trailing"]}
            if "exn" in r1:
                stats["exn"] += 1
            probe = C.Result(PROP)
            probe.known_ids = getattr(res, "known_ids", {})
            hasf = oracle(pub, r1, sp, probe)
            res.violations += probe.violations
            for fid, n in probe.known.items():
                res.known[fid] = res.known.get(fid, 0) + n
            stats["finding_trees"] += 1 if hasf else 0
            if sp is not None:
                stats["in_scope"] += 1
            # correspondence
            if mo is not None:
                diffs = []
                if "err" in mo:
                    diffs.append("driver: " + mo["err"])
                elif "exn" in mo or "exn" in r1:
                    if EXN_MAP.get(r1.get("exn"), r1.get("exn")) != mo.get("exn"):
                        diffs.append(f"exception impl={r1.get('exn')} model={mo.get('exn')}")
                else:
                    for kind in ("sidecars", "data"):
                        if len(r1[kind]) != len(mo[kind]):
                            diffs.append(f"{kind} count impl={[(x['dir'], x['name']) for x in r1[kind]]} "
                                         f"model={[(x['dir'], x['name']) for x in mo[kind]]}")
                            continue
                        for a, b in zip(r1[kind], mo[kind]):
                            for fld in ("dir", "name", "suffix", "ext", "ents", "chain", "merged"):
                                if a[fld] != b[fld]:
                                    diffs.append(f"{kind} {a['dir']}/{a['name']} {fld}: impl={a[fld]} model={b[fld]}")
                    if r1.get("isf") != mo.get("isf"):
                        diffs.append(f"is_sidecar_for matrix impl={r1.get('isf')} model={mo.get('isf')}")
                    em = r1["expect"].get("model")
                    if em is not None and "issues" in r1 and r1["issues"] != em:
                        diffs.append(f"issues impl={r1['issues'][:5]} model-structure={em[:5] if not isinstance(em, str) else em}")
                    if "issues" in r1 and isinstance(r1["cli"], int) and r1["cli"] != (1 if r1["issues"] else 0):
                        diffs.append(f"exit impl={r1['cli']} issues={len(r1['issues'])}")
                if diffs:
                    stats["disagreements"] += 1
                    if not probe.violations:
                        res.violation("correspondence", pub, "; ".join(diffs)[:1500], no_input=True)
            results.append((t, r1, sp, mo))
        return stats, results
    finally:
        shutil.rmtree(base, ignore_errors=True)


def nontrivial(t, excl=EXCLUDED_NAMES):
    """A tree is non-trivial when some events file has at least two sidecars on its root path."""
    sp = spec_dataset(t, excl)
    if sp is None:
        return False
    return any(f["chain"] and len(f["chain"]) >= 2 for f in sp["data"])


LEGACY_F1 = {"property": "C16", "id": "C16-F1",
             "what": "(repaired by fix commit be9bad3; VERIF_C16_FIXED=0 on a tree older than that commit) a data file gets the merged "
                     "contents of the deepest applicable sidecar's own chain instead of the merge of its own chain"}


def run(tier, seed, res, model_ok=True, proof_ok=True):
    rng = random.Random(seed)
    if not FIXED:      # checking the constructor before the fix: its one finding class is accepted, as recorded
        res.known_ids = dict(getattr(res, "known_ids", {}))
        res.known_ids.setdefault("C16-F1", LEGACY_F1)
    check_isspace(res)
    n = 160 if tier == "quick" else 1000
    if not proof_ok:
        n *= 3
    n = max(20, int(n * float(os.environ.get("VERIF_C16_SCALE", "1"))))   # self-test knob only
    trees = corpus()
    exh = gen_exhaustive(with_ses=(tier != "quick"))
    trees += exh
    fam = gen_shape_family(FAMILY_SHAPES_QUICK if tier == "quick" else FAMILY_SHAPES_ALL)
    trees += fam
    trees += [gen_tree(rng, malformed=False, finding_bias=rng.choice([0.0, 0.3, 0.6])) for _ in range(n)]
    trees += [gen_tree(rng, malformed=True, finding_bias=0.3) for _ in range(n // 4)]
    stats, results = evaluate(trees, res, model_ok, rng)
    keys = {json.dumps(t, sort_keys=True) for t in trees if nontrivial(t)}
    files_checked = sum(len(r.get("data", [])) + len(r.get("sidecars", [])) for _, r, _, _ in results)
    return {
        "evaluations": len(trees),
        "files_compared": files_checked,
        "distinct_nontrivial": len(keys),
        "rule": "distinct directory trees in which at least one events file has two or more applicable sidecars on "
                "its root path (so that order/override/entity tests matter); trees = 4 fixed + exhaustive family + generated "
                "(1-3 subjects, 0-2 sessions, 1-2 tasks, 0-2 runs, 0-5 sidecars at random levels with random entity "
                "subsets, 0-2 excluded or near-miss directories) + a quarter with malformed names/JSON",
        "samples": [sorted((("/".join(d + [n_])) for d, n_, c in all_files(t)))[:12] for t in (trees[0], trees[7], trees[-1])],
        "histogram": histogram_of(trees),
        "in_scope_of_oracle": stats["in_scope"],
        "trees_with_known_finding": stats["finding_trees"],
        "constructor_exceptions": stats["exn"],
        "disagreements_checked": stats["disagreements"],
        "correspondence_cases": len(trees) if model_ok else 0,
        "exhaustive_family": f"{len(exh)} trees: one events file below root/sub-01{'/ses-01' if tier != 'quick' else ''}/eeg and, at each "
                             "level independently, no sidecar or one sidecar with any subset of the file's entities "
                             "(all placements enumerated)",
        "shape_family": f"{len(fam)} trees: every pair of entry shapes (well placed HED, misplaced HED inside Levels, "
                        "metadata only, empty/non-object entries, odd HED values, empty sidecar) for a root sidecar and a "
                        "subject-level sidecar overriding both of its columns",
        "root_directory_names": stats["roots"],
        "fixed_semantics": bool(FIXED),
        "exhaustive": False,
    }


def replay(payload):
    case = payload.get("case")
    if not case or "tree" not in case:
        print("no concrete input in replay:", str(payload.get("detail", ""))[:800])
        return 1
    res = C.Result(PROP)
    res.known_ids = {}
    rng = random.Random(0)
    base = C.scratch_dir("hedverif-c16-")
    try:
        sp = spec_dataset(case["tree"], EXCLUDED_NAMES)
        sc = spec_chains(sp)
        c = {"base": base, "idx": 0, "tree": case["tree"], "cfw": case.get("cfw", True), "sub": True, "fixed": FIXED,
             "rootpath": case.get("rootpath", ["ds"]), "trailing": case.get("trailing", False),
             "chains_spec": None if sc is None else (sc[1], sc[2])}
        r = impl_one(c)
        oracle(case, r, sp, res)
    finally:
        shutil.rmtree(base, ignore_errors=True)
    print("root:", "/".join(case.get("rootpath", ["ds"])) + ("/" if case.get("trailing") else ""))
    print("files:", sorted("/".join(d + [n]) for d, n, c in all_files(case["tree"])))
    print("impl:", json.dumps({k: r.get(k) for k in ("exn", "data", "issues", "cli")}, default=str)[:3000])
    for v in res.violations:
        print("FAILS:", v["clause"], v["detail"][:600])
    return 1 if res.violations else 0
