"""C01 -- String validation verdict agrees with the HED rules."""
import collections
import os
import random
import time
import traceback
from multiprocessing import Pool

from harness import common as C
from harness import c01_translate as T
from harness import c01_gen as G
from harness import schema_xml as X

PROP = "C01"
COQ_TARGETS = ["Props/C01.vo", "Extract/ExtractC01.vo"]
TRUSTED = [
    "Model/Validate.v is a hand transcription of HedValidator.validate/run_basic_checks/run_full_string_checks, "
    "CharValidator, StringValidator, TagValidator, GroupValidator and the dispatch part of DefValidator; tied by the "
    "correspondence run on (code, severity) multisets and exception kinds",
    "per-tag facts (resolution result and issue, short base tag, extension length, schema attributes, unit/value class "
    "verdicts of UnitValueValidator, Def lookups and _validate_def_contents / validate_def_value_units verdicts) are "
    "INPUTS of the model, read from the implementation's own HedTag objects and sub-validators (leaf mechanisms are "
    "modelled by C02/C03/C09/C11); class_regex.json is used only inside those leaf verdicts",
    "kind -> (published code, severity) and the character/DefTagNames constants are regenerated from "
    "hed/errors/error_messages.py, error_types.py, char_util.py, model_constants.py by harness/c01_translate.py (ast, "
    "fail closed); the two regex literals ([ \\t/]{2,}|^/|/$ and the camel-case expression) are compared textually "
    "with the ones the hand-written scanners transcribe",
    "str.isprintable/isalnum/isalpha: range tables generated from CPython for all 0x110000 code points on every run; "
    "str.isspace: Base/Str.v table (checked by C02); casefold/capitalize modelled on ASCII only (schema short names "
    "and generated base tags are ASCII; checked per case by the harness)",
    "issue kinds are observed by wrapping ErrorHandler.format_error inside the harness process (adds a '_kind' key)",
]
ASSUMPTIONS = [
    "theorems are about validate(print f, f) for fact-annotated forests f; that HedString(text) yields this forest "
    "with these facts is the correspondence run (and C02/C03 for the parser/resolver)",
    "valid_no_error is proved in full for ConformingFull = per-tag conformity + placement (at most one "
    "top-level-group tag per top-level group: the Delay + second temporal tag combination the validator also accepts is "
    "outside the proved grammar, it is covered by the correspondence run) + required/unique + no two siblings with "
    "the same canonical (case-folded, order-free) text + well-shaped Duration/Delay and Onset/Offset/Inset groups",
    "the theorems for unknown tag / extension-is-term / bad unit / bad value / undeclared Def / altered Def-expand are "
    "PROPAGATION of fact inputs (leaf verdict contains kind k => code(k) reported); Conforming's per-tag part is partly "
    "'the leaf validator is silent' (units_dispatch, tf_def_contents; tag characters also given declaratively); the "
    "history theorem is immediate on the stateless model -- the implementation side of all three is TESTED by the oracle",
    "empty group '()' -> TAG_EMPTY is proved (C01_mutation_empty_group, and from per-tag conformity with empty groups "
    "allowed: C01_mutation_empty_group_from_tags); the full phase never raises for ANY annotation",
    "per-rule theorems are stated on the mutated annotation (its other tags individually conforming: "
    "C01_reach_phase1/3, C01_reach_full_phase); the relational Mut formulation is proved for the string-level rules "
    "(C01_mutation_reports_code_string_level)",
    "value-class acceptance (_check_value_class) is modelled on the implementation's per-class verdicts "
    "(Model/ValValue.v, correspondence on every value tag met); the expected verdict of the ORACLE is computed from the "
    "XML reading + class_regex.json with python re, independently of hed-python",
    "every mutation rule requires its code AT ERROR SEVERITY (codes are looked up among severity-1 issues only); "
    "definitions whose placeholder sits in a unit-class tag, with numeric / non-numeric values written with a valid "
    "unit / a bad unit / no unit, are an input dimension of the wrongly-valued-Def rule (tested only: the verdict of "
    "validate_def_value_units is a fact input)",
    "the conforming stream contains annotations with SEVERAL top-level temporal groups (Onset / Offset / Inset, each "
    "with its own Def, inner group where allowed) in every order; the order of independent top-level groups is "
    "irrelevant to the rules (the model judges each group on its own: validate_onset_offset is a flat_map)",
    "definition SHAPES (no contents, one tag, one group, nested groups, with/without placeholder) and definition NAMES "
    "are input dimensions of the generator (ASCII, plain non-ASCII, letters whose lower() differs "
    "from casefold(); modern-character schemas only) and the definitions reach the validator through two entry points "
    "(DefinitionDict via HedString.validate, strings via HedValidator) whose verdicts must coincide; the lookup itself "
    "is a fact of the definition layer (tf_def_known / tf_def_contents), so this is tested, not proved, at C01 level",
    "history independence of a validator object is a theorem of the (stateless) model and a TESTED clause on the "
    "implementation: sequences of 2-6 annotations on one HedValidator must give the verdicts of fresh validators and "
    "of the model's vrun",
    "the model follows the CURRENT /repo incl. fix commits 5df7886 (parenthesis nesting), 7597eca + 2492808 (canonical "
    "duplicate detection, case-folded tag equality), cbb8087 (Def-expand compared up to sibling order, seen through "
    "the _validate_def_contents fact) and 3e47c8c (repeated empty groups reported instead of IndexError; the pre-fix "
    "variant dup_n_before_3e47c8c is kept only as the record of the repaired defect); the duplicate-check theorems reuse C04's string order, stable-sort facts and "
    "unique decoding of canonical keys (Proofs/DupsProofs.v)",
]

QUICK_SCHEMAS = ["8_3_0", "score_1_1_0", "8_1_0"]

# ------------------------------------------------------------------------------------------------ tables
_ROWS = None


def tables():
    global _ROWS
    if _ROWS is None:
        rows, orows = T.kind_rows()
        _ROWS = {"by_internal": {r[1]: r for r in rows}, "ocode": {v: o for o, v in orows}}
    return _ROWS


# ------------------------------------------------------------------------------------------------ implementation side
_W = {}


def _patch():
    from hed.errors.error_reporter import ErrorHandler
    if getattr(ErrorHandler, "_c01_patched", False):
        return
    orig = ErrorHandler.format_error

    def format_error(error_type, *args, actual_error=None, **kwargs):
        r = orig(error_type, *args, actual_error=actual_error, **kwargs)
        r[0]["_kind"] = error_type
        return r
    ErrorHandler.format_error = staticmethod(format_error)
    ErrorHandler._c01_patched = True


def ctx(key, defs_extra=False):
    """Per-process cache: schema object, definition dictionary."""
    k = (key, defs_extra)
    if k not in _W:
        _patch()
        from hed.schema import load_schema
        from hed.models.definition_dict import DefinitionDict
        from hed.schema.hed_schema_constants import HedKey
        allsch = _W.setdefault("xml", X.load_all())
        path = os.path.join(C.REPO, X.SCHEMA_DIR, allsch[key]["file"])
        sch = _W.get(("schema", key)) or load_schema(path)
        _W[("schema", key)] = sch
        V = G.Vocab(X.schema_for_use(key, allsch))
        dd = None
        if V.has_defs:
            def_strings = G.DEFS + G.SHAPE_DEFS + (G.NAME_DEFS if V.modern else []) + (G.DEFS_F1 if defs_extra else [])
            dd = DefinitionDict(def_strings, sch)
            if dd.issues:
                raise RuntimeError(f"definitions rejected for {key}: {dd.issues[:2]}")
        _W[k] = {"schema": sch, "defs": dd, "def_strings": def_strings if V.has_defs else None,
                 "required": sorted(x.casefold() for x in sch.get_tags_with_attribute(HedKey.Required)),
                 "unique": sorted(x.casefold() for x in sch.get_tags_with_attribute(HedKey.Unique)),
                 "modern": bool(sch.schema_83_props), "modern_xml": V.modern}
    return _W[k]


def issue_sx(i):
    """implementation issue dict -> model issue s-expression (kind [override]) or None when unmodelled."""
    tb = tables()
    row = tb["by_internal"].get(i.get("_kind"))
    if row is None:
        return None
    if i["code"] == row[2]:
        return ["K_" + row[0]]
    o = tb["ocode"].get(i["code"])
    if o is None:
        return None
    return ["K_" + row[0], "O_" + o]


def leaf(fn, bad):
    try:
        out = []
        for i in fn():
            sx = issue_sx(i)
            if sx is None:
                bad.append(f"unmodelled issue kind {i.get('_kind')!r}/{i.get('code')!r}")
                return ["ok", []]
            out.append(sx)
        return ["ok", out]
    except Exception as e:  # noqa
        return ["exn", type(e).__name__ if type(e).__name__ in (
            "TypeError", "KeyError", "AttributeError", "ValueError", "IndexError", "RecursionError") else "Unmodelled"]


def value_line(tag, validator, bad, vlines, values_sx):
    """(V takes_value ((word_ok (curly...))...)) + what _check_value_class returned, for Model/ValValue.v."""
    try:
        if not tag.is_takes_value_tag():
            return
        classes = list(tag.value_classes.keys())
        if not classes:
            return
        cr = validator._unit_validator._char_validator
        ext = tag.extension
        cls = [[bool(cr.is_valid_value(ext, cn)), [ch in "{}" for _, ch in cr.get_problem_chars(ext, cn)]]
               for cn in classes]
        vlines.append((C.to_sx(["V", True, cls]), values_sx, tag.org_tag))
    except Exception as e:  # noqa
        bad.append("per-class value verdict raised " + type(e).__name__)


def tag_facts(tag, parent, hs, validator, c, ph, bad, vlines=None):
    from hed.schema.hed_schema_constants import HedKey
    from hed.models.model_constants import DefTagNames
    schema = c["schema"]
    org = tag.org_tag
    res_issues = leaf(lambda: tag._calculate_to_canonical_forms(schema), bad)
    resolved = bool(tag._schema_entry)
    sbase = tag._schema_entry.short_tag_name if resolved else ""
    ext = tag.extension
    uv = validator._unit_validator
    dv = validator._def_validator
    is_def = resolved and sbase in (DefTagNames.DEF_KEY, DefTagNames.DEF_EXPAND_KEY)
    def_units = leaf(lambda: dv.validate_def_value_units(tag, validator, allow_placeholders=ph), bad) if is_def \
        else ["ok", []]
    if resolved and sbase == DefTagNames.DEF_KEY:
        def_contents = leaf(lambda: dv._validate_def_contents(tag, tag, validator), bad)
    elif resolved and sbase == DefTagNames.DEF_EXPAND_KEY and parent is not hs:
        def_contents = leaf(lambda: dv._validate_def_contents(tag, parent, validator), bad)
    else:
        def_contents = ["ok", []]
    entry = dv.defs.get(ext.partition("/")[0].casefold()) if is_def else None
    if resolved and not sbase.isascii():
        bad.append("non-ASCII schema short name")
    if resolved and not tag.org_base_tag.isascii():
        bad.append("non-ASCII base tag")
    if res_issues[0] != "ok":
        bad.append("resolution raised " + res_issues[1])
        res_issues = ["ok", []]
    values_sx = leaf(lambda: uv.check_tag_value_class_valid(tag, ext), bad)
    if vlines is not None:
        value_line(tag, validator, bad, vlines, values_sx)
    return ["T", C.cps(org), C.cps(tag.short_tag.casefold()), resolved, res_issues[1], len(tag._extension_value),
            C.cps(sbase), C.cps(tag.long_tag.casefold()), tag.is_takes_value_tag(),
            tag.has_attribute(HedKey.ExtensionAllowed), tag.has_attribute(HedKey.RequireChild),
            tag.has_attribute(HedKey.DeprecatedFrom), tag.base_tag_has_attribute(HedKey.TagGroup),
            tag.base_tag_has_attribute(HedKey.TopLevelTagGroup), tag.is_unit_class_tag(), tag.is_value_class_tag(),
            leaf(lambda: uv.check_tag_unit_class_units_are_valid(tag, ext), bad),
            values_sx,
            leaf(lambda: uv.check_tag_unit_class_units_are_valid(tag, ext[:-2]), bad),
            leaf(lambda: uv.check_tag_value_class_valid(tag, ext[:-2]), bad),
            def_units, def_contents, entry is not None, bool(entry.takes_value) if entry is not None else False]


def forest_sx(group, hs, validator, c, ph, bad, vlines=None):
    from hed.models.hed_tag import HedTag
    out = []
    for ch in group.children:
        if isinstance(ch, HedTag):
            out.append(tag_facts(ch, group, hs, validator, c, ph, bad, vlines))
        else:
            out.append(["G", forest_sx(ch, hs, validator, c, ph, bad, vlines)])
    return out


def impl_text(c, text, ph, shared=None):
    """One annotation: verdict of a FRESH validator, the model input, and (if given) the verdict of the SHARED
    validator object that has already validated the earlier annotations of the sequence."""
    from hed.models.hed_string import HedString
    from hed.validator import HedValidator
    r = {}
    hs = HedString(text, c["schema"], c["defs"])
    try:
        iss = hs.validate(allow_placeholders=ph)
        r["issues"] = sorted((i["code"], int(i["severity"])) for i in iss)
        r["kinds"] = sorted(str(i.get("_kind")) for i in iss)
    except Exception as e:  # noqa
        r["exn"] = type(e).__name__
    if c.get("def_strings") and "def" in text.casefold():
        # second entry point: the definitions handed to HedValidator as strings, the annotation parsed without them
        try:
            v2 = HedValidator(c["schema"], def_dicts=list(c["def_strings"]))
            iss = v2.validate(HedString(text, c["schema"]), allow_placeholders=ph)
            r["alt"] = sorted((i["code"], int(i["severity"])) for i in iss)
        except Exception as e:  # noqa
            r["alt"] = "raises " + type(e).__name__
    if shared is not None:
        try:
            iss = shared.validate(HedString(text, c["schema"], c["defs"]), allow_placeholders=ph)
            r["shared"] = sorted((i["code"], int(i["severity"])) for i in iss)
        except Exception as e:  # noqa
            r["shared"] = "raises " + type(e).__name__
    bad = []
    vlines = []
    hs2 = HedString(text, c["schema"], c["defs"])
    validator = HedValidator(c["schema"], def_dicts=c["defs"])
    try:   # the anchored two-phase mechanism, observed on the implementation alone
        bs = validator.run_basic_checks(hs2, allow_placeholders=ph)
        r["basic"] = sorted((i["code"], int(i["severity"])) for i in bs)
    except Exception as e:  # noqa
        r["basic"] = None
    validator = HedValidator(c["schema"], def_dicts=c["defs"])
    f = forest_sx(hs2, hs2, validator, c, ph, bad, vlines)
    cfg = [ph, c["modern"], False, [C.cps(x) for x in c["required"]], [C.cps(x) for x in c["unique"]]]
    r["line"] = C.to_sx([cfg, C.cps(text), f])
    r["vlines"] = vlines
    r["bad"] = bad
    if c["modern"] != c["modern_xml"]:
        r["bad"] = bad + ["schema_83_props differs from the XML header reading"]
    return r


def impl_one(case):
    """Validate on the implementation and extract the model input from a second, fresh HedString.
    A case with "seq" is a SEQUENCE of annotations validated by ONE HedValidator object."""
    key, ph = case["schema"], case["ph"]
    r = {"i": case["i"]}
    try:
        c = ctx(key, case.get("defs_extra", False))
        if "seq" in case:
            from hed.validator import HedValidator
            shared = HedValidator(c["schema"], def_dicts=c["defs"])
            r["steps"] = [impl_text(c, st["text"], ph, shared) for st in case["seq"]]
        else:
            r.update(impl_text(c, case["text"], ph))
    except Exception as e:  # noqa
        r["harness_exn"] = traceback.format_exc()[-1500:]
    return r


# ------------------------------------------------------------------------------------------------ cases
def corpus_cases():
    cs = []

    def add(schema, text, ph, expect, rule, **kw):
        cs.append(dict(schema=schema, text=text, ph=ph, expect=expect, rule=rule, **kw))
    for ph in (False, True):
        for t in ["", "Red", "Red, Blue", "(Red, Blue), Green", "n/a", " n/a ", "(Duration/3 s,(Red))",
                  "Label/abc", "Red-color/Myext", "Def/MyDef", "(Def-expand/MyDef,(Blue,Red))", "(Def/OnDef, Onset)",
                  "Clock-face/3", "red", "(Duration/3,(Green))", "Event/Sensory-event, (Item/Object, (Red, (Blue)))"]:
            add("8_3_0", t, ph, None, "corpus-valid")
    for t, e in [("Red, Blu[e", "CHARACTER_INVALID"), ("Red ~ Blue", "TILDES_UNSUPPORTED"), ("(Red, Blue", "PARENTHESES_MISMATCH"),
                 (")(", "PARENTHESES_MISMATCH"), ("(a))((b)", "PARENTHESES_MISMATCH"), ("Red,, Blue", "TAG_EMPTY"),
                 ("Red,", "TAG_EMPTY"), ("Red (Blue)", "COMMA_MISSING"), ("Red//Blue", "TAG_INVALID"), ("/Red", "TAG_INVALID"),
                 ("a1:Red", "TAG_NAMESPACE_PREFIX_INVALID"), ("xx:Red", "TAG_NAMESPACE_PREFIX_INVALID"),
                 ("Re$d", "CHARACTER_INVALID"), ("Notatag", "TAG_INVALID"), ("Red-color/Blue", "TAG_EXTENSION_INVALID"),
                 ("Event/Myext", "TAG_EXTENSION_INVALID"), ("Duration", "TAG_REQUIRES_CHILD"), ("Def", "TAG_REQUIRES_CHILD"),
                 ("(Duration/3 cm,(Green))", "UNITS_INVALID"), ("(Duration/abc ms,(Green))", "VALUE_INVALID"),
                 ("Label/a$b", "CHARACTER_INVALID"), ("(Definition/X,(Blue))", "DEFINITION_INVALID"),
                 ("Def/Nope", "DEF_INVALID"), ("Def/ValDef", "DEF_INVALID"), ("Def/MyDef/3", "DEF_INVALID"),
                 ("(Def-expand/MyDef,(Red,Green))", "DEF_EXPAND_INVALID"), ("Def-expand/MyDef, Red", "TAG_GROUP_ERROR"),
                 ("(Red,(Def/MyDef,Onset))", "TAG_GROUP_ERROR"), ("(Def/MyDef,Onset,Offset)", "TAG_GROUP_ERROR"),
                 ("Red,Blue,Red", "TAG_EXPRESSION_REPEATED"), ("(Red,Blue),(Red,Blue)", "TAG_EXPRESSION_REPEATED"),
                 ("(Event-context,(Red)),(Event-context,(Blue))", "TAG_NOT_UNIQUE"), ("Red, ()", "TAG_EMPTY"),
                 ("(Duration/3 s)", "TEMPORAL_TAG_ERROR"), ("(Onset,Red)", "TEMPORAL_TAG_ERROR"),
                 ("(Def/MyDef,Offset,(Red))", "TEMPORAL_TAG_ERROR")]:
        add("8_3_0", t, False, e, "corpus-mutant")
    add("8_3_0", "(Duration/3 s, (Red)), (Blue, (Duration/3 s, (Red)))", False, "TAG_GROUP_ERROR", "top_level_copy")
    add("8_3_0", "(Def/MyDef, Onset), (Blue, (Green, (Def/MyDef, Onset)))", False, "TAG_GROUP_ERROR", "top_level_copy")
    add("8_3_0", "Sensory-event, ((Red, Red))", False, "TAG_EXPRESSION_REPEATED", "repeat_nested")
    add("8_3_0", "Sensory-event, (((Red, Blue), (Blue, Red)))", False, "TAG_EXPRESSION_REPEATED", "repeat_nested")
    add("8_3_0", "(Def-expand/CueDef/Target, (Label/Target, Label/Fixation))", False, None, "v_defexpand_placeholder_sibling")
    add("8_3_0", "(Def/OnDef, Offset), (Def/OnVal/3, Onset, (Red, Blue))", False, None, "v_multi_temporal")
    add("8_3_0", "(Def/OnVal/3, Onset, (Red, Blue)), (Def/OnDef, Offset), (Def/MyDef, Inset, (Green))", False, None, "v_multi_temporal")
    add("8_3_0", "Label/#", False, "PLACEHOLDER_INVALID", "corpus-mutant")
    add("8_3_0", "Label/#", True, None, "corpus-valid")
    add("8_3_0", "Red, {col}", False, "CHARACTER_INVALID", "corpus-mutant")
    # repeated groups that hold nothing but empty groups: raised IndexError before fix commit 3e47c8c; an exception
    # inside validation is a VIOLATION (validation-raises), never an "equal outcome"
    for t in ["(),()", "Red,(),()", "((),())", "(()),(())", "((),(Red)),((Red),())"]:
        add("8_3_0", t, False, "TAG_EMPTY", "empty_groups_repeated")
    # known findings (witnesses)
    # former findings C01-F1 (fix commit cbb8087) / C01-F2 (fix commits 7597eca + 2492808): ordinary cases now
    add("8_3_0", "(Def-expand/OrdDef,(Red,Blue))", False, None, "v_defexpand_declared_order", defs_extra=True)
    add("8_3_0", "((Blue,Red),Def-expand/MyDef)", False, None, "v_defexpand_reordered")
    add("8_3_0", "(Red,Blue),(Green),(Blue,Red)", False, "TAG_EXPRESSION_REPEATED", "repeat_group_permuted")
    add("8_3_0", "Label/abc, Property/Informational-property/Label/ABC", False, "TAG_EXPRESSION_REPEATED", "repeat_tag")
    add("8_1_0", "Temperature/3 degree Celsius", False, None, "v_unit_with_blank")   # former C01-F3 (fixed 0669633)
    return cs


def gen_cases(tier, seed, keys, n_random):
    """Random structured cases: per schema, valid trees and one mutation per rule."""
    allsch = X.load_all()
    cases = []
    rules = G.STRUCT_RULES + G.TEXT_RULES
    for key in keys:
        V = G.Vocab(X.schema_for_use(key, allsch))
        rng = random.Random(f"{seed}-{key}")
        for j in range(n_random):
            ph = rng.random() < 0.5
            b = G.Builder(rng, V, ph)
            tree = b.tree(rng.randint(0, 4))
            cases.append(dict(schema=key, text=rng.choice(["", " "]) * (rng.random() < 0.1) + G.render(tree, rng),
                              ph=ph, expect=None, rule="valid"))
            for rule in rng.sample(rules, 3 if tier == "quick" else 6):
                m = G.mutate(rng, V, tree, rule, ph, V.modern)
                if m is not None:
                    cases.append(dict(schema=key, text=m, ph=ph, expect=G.SPEC[rule], rule=rule))
            bl = [(n, u) for n in V.valued for uc in n["value"]["unit"] for u in V.blank_units.get(uc, [])]
            if bl and rng.random() < 0.05:
                n, u = rng.choice(bl)
                t2 = G.deep(tree)
                t2.insert(rng.randint(0, len(t2)), G.form_of(rng, n) + "/3 " + u)
                cases.append(dict(schema=key, text=G.render(t2, rng), ph=ph, expect=None, rule="v_unit_with_blank"))
            if V.has_defs and rng.random() < 0.2:
                # Def-expand of a definition whose placeholder tag has a similarly spelled sibling, members as
                # declared or reordered: content equals the expansion up to sibling order => conforming
                g = G.deep(rng.choice(G.PLACEHOLDER_SIBLING_EXPANSIONS))
                if rng.random() < 0.5:
                    g[1] = g[1][::-1]
                if rng.random() < 0.3:
                    g = g[::-1]
                t2 = G.deep(tree)
                tgt = t2
                if rng.random() < 0.3:
                    tgt = [V.filler]
                    t2.insert(rng.randint(0, len(t2)), tgt)
                tgt.insert(rng.randint(0, len(tgt)), g)
                cases.append(dict(schema=key, text=G.render(t2, rng), ph=ph, expect=None,
                                  rule="v_defexpand_placeholder_sibling"))
            if V.has_defs and len(V.temporal) >= 2 and rng.random() < 0.25:
                # SEVERAL top-level temporal groups in one annotation, in every order (each with its own Def; an
                # Onset/Inset group may carry one inner group, an Offset group none): conforming => no error
                defs_pool = ["Def/OnDef", "Def/OnDef2", "Def/MyDef", "Def/AltDef", "Def/ExtraDef", "Def/OnVal/3",
                             "Def/ValDef/abc", "Def/LenDef/3 m"]
                rng.shuffle(defs_pool)
                fill = [n["short"] for n in rng.sample(V.plain, min(6, len(V.plain)))]
                grps = []
                kinds = [rng.choice(V.temporal) for _ in range(rng.randint(2, 3))]
                if "Offset" in V.temporal and "Offset" not in kinds:
                    kinds[rng.randrange(len(kinds))] = "Offset"
                if all(k == "Offset" for k in kinds):
                    kinds[0] = rng.choice([x for x in V.temporal if x != "Offset"])
                for j, k in enumerate(kinds):
                    g = [defs_pool[j], k]
                    if k != "Offset" and rng.random() < 0.8:
                        g.append([fill[2 * j % len(fill)]] + ([fill[(2 * j + 1) % len(fill)]] if rng.random() < 0.5 else []))
                    if "Delay" in V.duration_top and rng.random() < 0.15:
                        g.append("Delay/2 s")
                    rng.shuffle(g)
                    grps.append(g)
                rng.shuffle(grps)
                t2 = [x for x in G.deep(tree)
                      if not (isinstance(x, list) and any(isinstance(y, str) and y.split("/")[0] in V.temporal + ["Def"]
                                                          or (isinstance(y, str) and y.startswith("Def/")) for y in x))
                      and not (isinstance(x, str) and x.casefold().startswith("def/"))]
                for g in grps:
                    t2.insert(rng.randint(0, len(t2)), g)
                cases.append(dict(schema=key, text=G.render(t2, rng), ph=ph, expect=None,
                                  rule="v_multi_temporal"))
            if V.has_defs and rng.random() < 0.05:
                t2 = G.deep(tree)
                t2.insert(rng.randint(0, len(t2)), rng.choice([[["Blue", "Red"], "Def-expand/AltDef"],
                                                               ["Def-expand/AltDef", ["Red", "Blue"]]]))
                cases.append(dict(schema=key, text=G.render(t2, rng), ph=ph, expect=None, rule="v_defexpand_reordered"))
    return cases


def gen_exhaustive(seed, keys):
    """Every tag x every form (+ the per-tag mutation classes that apply) of the given schemas."""
    allsch = X.load_all()
    cases = []
    for key in keys:
        V = G.Vocab(X.schema_for_use(key, allsch))
        rng = random.Random(f"ex-{seed}-{key}")
        for n in V.nodes:
            for form in ("short", "long", "mid"):
                if form == "mid" and len(n["parts"]) < 3:
                    continue
                ph = rng.random() < 0.5
                b = G.Builder(rng, V, ph)
                b.used.add(n["long"])
                ctxt = b.tree(rng.randint(0, 2))
                muts = []
                if n["special"]:
                    continue
                if n["value"] is not None:
                    if "deprecatedFrom" in n["value"]["attrs"]:
                        continue
                    lf = G.leaf_value(rng, V, n, form)
                    base = G.form_of(rng, n, form)
                    if not ph:
                        muts.append(("placeholder", base + "/#"))
                    if any(V.units.get(u) for u in n["value"]["unit"]):
                        muts.append(("bad_unit", base + "/3 zorkmids"))
                    if n["value"]["vclass"] in (["numericClass"], ["dateTimeClass"]):
                        muts.append(("bad_value", base + "/abc"))
                    if n["require_child"]:
                        muts.append(("require_child", base))
                elif n["require_child"]:
                    lf = None
                    muts.append(("require_child", G.form_of(rng, n, form)))
                else:
                    lf = G.leaf_plain(rng, n, form)
                    base = G.form_of(rng, n, form)
                    if n["ext_ok"]:
                        ctxt2 = G.deep(ctxt)
                        ctxt2.insert(rng.randint(0, len(ctxt2)), base + "/Myext9")
                        cases.append(dict(schema=key, text=G.render(ctxt2, rng), ph=ph, expect=None, rule="valid-ext"))
                    else:
                        muts.append(("ext_forbidden", base + "/Myext9"))
                    k = rng.randrange(1, len(base) + 1)
                    muts.append(("tagchar", base[:k] + "$" + base[k:]))
                    muts.append(("slash", rng.choice(["/" + base, base + "/", base.replace("/", "//", 1) if "/" in base
                                                      else base + "/"])))
                where = rng.randint(0, len(ctxt))
                if lf is not None:
                    t1 = G.deep(ctxt)
                    t1.insert(where, lf)
                    cases.append(dict(schema=key, text=G.render(t1, rng), ph=ph, expect=None, rule="valid"))
                    t1 = G.deep(ctxt)
                    t1.insert(where, lf)
                    t1.insert(rng.randint(0, len(t1)), lf)
                    cases.append(dict(schema=key, text=G.render(t1, rng), ph=ph, expect=G.SPEC["repeat_tag"],
                                      rule="repeat_tag"))
                for rule, txt in muts:
                    t1 = G.deep(ctxt)
                    t1.insert(where, txt)
                    cases.append(dict(schema=key, text=G.render(t1, rng), ph=ph, expect=G.SPEC[rule], rule=rule))
    return cases


# ------------------------------------------------------------------------------------------------ oracle
def _cc(case):
    return {"schema": case["schema"], "text": case["text"], "allow_placeholders": case["ph"], "rule": case["rule"],
            "expect": case.get("expect"), "expect_all": case.get("expect_all"),
            "defs_extra": case.get("defs_extra", False)}


def oracle(case, r, res, cc=None):
    """The clauses of the property statement, checked on the implementation alone."""
    cc = cc or _cc(case)
    if case.get("expect") == "*":
        return True
    if "exn" in r:
        res.report("validation-raises", cc, r["exn"])
        return False
    errs = [c for c, s in r["issues"] if s < 10]
    if r.get("basic") and any(s < 10 for _, s in r["basic"]) and r["basic"] != r["issues"]:
        res.report("two-phase", cc, f"basic phase has an error but validate returned {r['issues']} instead of "
                                    f"{r['basic']}")
        return False
    if "alt" in r and r["alt"] != r["issues"]:
        res.report("entry-point-independent", cc, f"definitions given as strings to HedValidator: {r['alt']}; as a "
                                                  f"DefinitionDict via HedString.validate: {r['issues']}")
        return False
    want = list(case.get("expect_all") or ([case["expect"]] if case.get("expect") else []))
    if not want:
        if errs:
            res.report("conforming-no-error", cc, f"errors={sorted(set(errs))}")
            return False
    else:
        missing = [w for w in want if w not in errs]
        if missing:
            res.report("mutation-reports-code", cc, f"expected {want} among errors={sorted(set(errs))}")
            return False
    return True


def oracle_seq(case, r, res):
    """A sequence of annotations on ONE validator object: every annotation must get the verdict a fresh validator
    gives it (the property quantifies over annotations, not over histories), and that verdict must satisfy the
    statement's clauses."""
    ok = True
    texts = [st["text"] for st in case["seq"]]
    for k, (st, rs) in enumerate(zip(case["seq"], r["steps"])):
        sub = dict(st, schema=case["schema"], ph=case["ph"])
        cc = _cc(sub)
        cc.update({"seq": texts, "step": k})
        if not oracle(sub, rs, res, cc):
            ok = False
        fresh = ("raises " + rs["exn"]) if "exn" in rs else rs["issues"]
        if rs.get("shared") != fresh:
            res.report("history-independent", cc,
                       f"step {k} ({st['text']!r}) on a validator that validated {texts[:k]} before: "
                       f"{rs.get('shared')} but a fresh validator gives {fresh}")
            ok = False
    return ok


def value_and_sequence_cases(tier, seed, keys, plain_cases):
    """(1) every value-class SET of each schema x candidate values, expectation from the XML + class_regex.json;
       (2) sequences of annotations for one validator object."""
    allsch = X.load_all()
    CR = G.ClassRegex(os.path.join(C.REPO, "hed/validator/util/class_regex.json"))
    out = []
    for key in keys:
        V = G.Vocab(X.schema_for_use(key, allsch))
        rng = random.Random(f"vs-{seed}-{key}")
        by_long = {n["long"]: n for n in V.valued}
        for text, kind, codes, meta in G.value_cases(rng, V, CR, 2 if tier == "quick" else None):
            ph = rng.random() < 0.5
            b = G.Builder(rng, V, ph)
            tree = b.tree(rng.randint(0, 2)) if rng.random() < 0.6 else []
            # keep the context free of the tag under test (no accidental repeat)
            base = text.split("/")[-2] if "/" in text else text
            if any(base.casefold() in str(x).casefold() for x in tree):
                tree = []
            tree.insert(rng.randint(0, len(tree)), text)
            out.append(dict(schema=key, text=G.render(tree, rng), ph=ph, expect=None,
                            expect_all=sorted(codes) if kind == "bad" else None,
                            rule="value:" + "+".join(meta["classes"] or ["none"]) + (":unit" if meta["unit"] else "")
                                 + ":accepted_by_%d" % meta["accepted_by"]))
        if not V.has_defs:
            continue
        shape_and_unit = ([(i, ([e] if e else None), r) for i, e, r in G.def_shape_cases(rng, V, 50 if tier == "quick" else 300)]
                          + G.def_unit_value_cases(rng, V, 50 if tier == "quick" else 300))
        for item, exp, rule in shape_and_unit:
            ph = rng.random() < 0.5
            tree = G.Builder(rng, V, ph).tree(rng.randint(0, 2)) if rng.random() < 0.6 else []
            tgt = tree
            if tree and rng.random() < 0.35:
                grp = [x for x in tree if isinstance(x, list) and not any(
                    isinstance(y, str) and y.split("/")[0].casefold() in G.SPECIAL_NAMES for y in x)]
                tgt = rng.choice(grp) if grp else tree
            tgt.insert(rng.randint(0, len(tgt)), item)
            out.append(dict(schema=key, text=G.render(tree, rng), ph=ph, expect=None, expect_all=exp, rule=rule))
        if V.modern:
            for item, exp, rule in G.name_cases(rng, V, 60 if tier == "quick" else 300):
                ph = rng.random() < 0.5
                tree = G.Builder(rng, V, ph).tree(rng.randint(0, 2)) if rng.random() < 0.6 else []
                tgt = tree
                if isinstance(item, str) and tree and rng.random() < 0.3:
                    grp = [x for x in tree if isinstance(x, list) and not any(
                        isinstance(y, str) and y.split("/")[0].casefold() in G.SPECIAL_NAMES for y in x)]
                    tgt = rng.choice(grp) if grp else tree
                tgt.insert(rng.randint(0, len(tgt)), item)
                undeclared = rule == "def_name_undeclared"
                out.append(dict(schema=key, text=G.render(tree, rng), ph=ph,
                                expect=("DEF_EXPAND_INVALID" if isinstance(item, list) else "DEF_INVALID")
                                if undeclared else None, rule=rule))
        pairs = G.def_case_pairs(rng, V)
        mine = [c for c in plain_cases if c["schema"] == key and "seq" not in c and c.get("expect") != "*"
                and not c.get("defs_extra")]
        nseq = 40 if tier == "quick" else 150
        for j in range(nseq):
            ph = rng.random() < 0.5
            steps = []
            if pairs and j % 2 == 0:
                good, bad = rng.choice(pairs)
                num = rng.choice(["3", "25", "7", "1.5"])
                tmpl = rng.choice(["Def/LenDef/{}", "(" + V.filler + ", Def/LenDef/{})", "{}".join(["Def/LenDef/", ", " + V.filler])]
                                  + (["(Def/LenDef/{}, Onset)"] if "Onset" in V.temporal else []))
                g = dict(text=tmpl.format(num + " " + good), expect=None, rule="def_value_case_valid")
                bd = dict(text=tmpl.format(num + " " + bad), expect="DEF_INVALID", rule="def_value_case_bad_unit")
                steps = rng.choice([[g, bd], [bd, g], [g, bd, g], [bd, g, bd]])
                same = [c for c in mine if c["ph"] == ph]
                if same and rng.random() < 0.5:
                    o = rng.choice(same)
                    steps.insert(rng.randint(0, len(steps)), dict(text=o["text"], expect=o.get("expect"),
                                                                  expect_all=o.get("expect_all"), rule=o["rule"]))
            else:
                same = [c for c in mine if c["ph"] == ph]
                for o in rng.sample(same, min(len(same), rng.randint(2, 5))):
                    steps.append(dict(text=o["text"], expect=o.get("expect"), expect_all=o.get("expect_all"),
                                      rule=o["rule"]))
            if steps:
                out.append(dict(schema=key, ph=bool(ph), seq=steps, rule="sequence",
                                text=" ;; ".join(st["text"] for st in steps)))
    return out


def _model_issues(m):
    return sorted((C.uncps(x[2]), 1 if x[3] == "E" else 10) for x in m[1])


def run(tier, seed, res, model_ok=True, proof_ok=True):
    t0 = time.time()
    T.translate()      # makes sure the Gen files are the ones of this tree even when called outside main
    keys_all = sorted(X.load_all())
    if tier == "quick":
        keys = [k for k in QUICK_SCHEMAS if k in keys_all]
        n_random = 260 if proof_ok else 900
        cases = corpus_cases() + gen_cases(tier, seed, keys, n_random)
    else:
        keys = keys_all
        cases = corpus_cases() + gen_cases(tier, seed, keys, 700 if proof_ok else 1500) + gen_exhaustive(seed, keys)
    cases += value_and_sequence_cases(tier, seed, keys, cases)
    for i, c in enumerate(cases):
        c["i"] = i
    with Pool(int(C.JOBS)) as pool:
        impl = pool.map(impl_one, cases, chunksize=32)

    n_fail = 0
    for c, r in zip(cases, impl):
        if "harness_exn" in r:
            res.violation("harness-error", {"text": c["text"], "schema": c["schema"]}, r["harness_exn"], no_input=True)
            continue
        if not (oracle_seq(c, r, res) if "seq" in c else oracle(c, r, res)):
            n_fail += 1

    disagreements = 0
    compared = 0
    if model_ok:
        exe = C.build_driver("c01")
        # flatten: one (case, step, result) per annotation
        flat = []
        for c, r in zip(cases, impl):
            if "steps" in r:
                flat += [(c, k, rs) for k, rs in enumerate(r["steps"]) if "line" in rs]
            elif "line" in r:
                flat.append((c, None, r))
        outs = C.run_driver(exe, [x[2]["line"] for x in flat])
        for (c, k, r), m in zip(flat, outs):
            compared += 1
            diffs = list(r.get("bad", []))
            if m[0] == "exn":
                if r.get("exn") != m[1]:
                    diffs.append(f"model raises {m[1]}, impl {r.get('exn') or r.get('issues')}")
            elif m[0] == "ok":
                mi = _model_issues(m)
                if "exn" in r:
                    diffs.append(f"impl raises {r['exn']}, model {mi}")
                elif mi != r["issues"]:
                    diffs.append(f"impl={r['issues']} model={mi} model_kinds={sorted(x[0] for x in m[1])} "
                                 f"impl_kinds={r.get('kinds')}")
                if m[3] != "1":
                    diffs.append("C02 parser model and HedString disagree on the tree shape")
            else:
                diffs.append(f"driver: {m}")
            if diffs:
                disagreements += 1
                text = c["text"] if k is None else c["seq"][k]["text"]
                res.violation("correspondence", {"schema": c["schema"], "text": text,
                                                 "allow_placeholders": c["ph"], "rule": c["rule"]},
                              "; ".join(diffs)[:1500], no_input=True)
        # sequences: the model's operation-sequence semantics (vrun on one state) vs the shared validator object
        seqs = [(c, r) for c, r in zip(cases, impl) if "steps" in r and all("line" in rs for rs in r["steps"])]
        souts = C.run_driver(exe, ["(S " + " ".join(rs["line"] for rs in r["steps"]) + ")" for c, r in seqs])
        for (c, r), ms in zip(seqs, souts):
            compared += 1
            for k, (rs, m) in enumerate(zip(r["steps"], ms)):
                mm = ("raises " + m[1]) if m[0] == "exn" else _model_issues(m)
                if mm != rs.get("shared"):
                    disagreements += 1
                    res.violation("correspondence-sequence",
                                  {"schema": c["schema"], "seq": [st["text"] for st in c["seq"]], "step": k,
                                   "allow_placeholders": c["ph"]},
                                  f"step {k}: validator object gives {rs.get('shared')}, model sequence gives {mm}",
                                  no_input=True)
                    break
        # value-class acceptance: Model/ValValue.v on the implementation's per-class verdicts vs _check_value_class
        vl = {}
        for c, k, r in flat:
            for line, want, org in r.get("vlines", []):
                vl.setdefault((line, C.to_sx(want)), (c["schema"], org, want))
        vkeys = list(vl)
        vouts = C.run_driver(exe, [k[0] for k in vkeys])
        for key, m in zip(vkeys, vouts):
            compared += 1
            schema, org, want = vl[key]
            got = sorted(" ".join(y for y in x[:2] if y != "-") for x in m[1]) if m[0] == "ok" else m
            exp = sorted(" ".join(x) for x in want[1]) if want[0] == "ok" else want
            if got != exp:
                disagreements += 1
                res.violation("correspondence-value-class", {"schema": schema, "tag": org, "per_class": key[0]},
                              f"_check_value_class gives {exp}, model value_class_issues gives {got}", no_input=True)

    hist = collections.Counter(c["rule"] for c in cases)
    per_schema = collections.Counter(c["schema"] for c in cases)
    n_annot = sum(len(c["seq"]) if "seq" in c else 1 for c in cases)
    distinct = len({(c["schema"], c["text"], c["ph"]) for c in cases if any(ch in c["text"] for ch in ",(/")})
    return {
        "evaluations": n_annot,
        "distinct_nontrivial": distinct,
        "rule": "corpus (Appendix A examples, former-finding witnesses) + per schema random conforming trees (nesting <= 4, "
                "definitions, temporal/duration/event-context templates, with/without placeholders) each with "
                "single-rule mutations + every value-class SET of the schema x 18 candidate values (expectation from the "
                "XML reading + class_regex.json) + sequences of 2-6 annotations on ONE validator object (Def values "
                "differing only in letter case in both orders, and random mixes)"
                + ("" if tier == "quick" else " + every tag x {short,long,partial} form with its applicable mutation "
                   "classes + every valued tag x candidate values")
                + "; non-trivial = distinct (schema, text, placeholders) containing a delimiter or a slash",
        "samples": [cases[0]["text"], cases[len(cases) // 3]["text"], cases[len(cases) // 2]["text"], cases[-1]["text"]],
        "histogram": {"by_rule": dict(hist), "by_schema": dict(per_schema),
                      "placeholders_allowed": sum(1 for c in cases if c["ph"]),
                      "sequences": sum(1 for c in cases if "seq" in c),
                      "max_len": max(len(c["text"]) for c in cases)},
        "schemas": keys,
        "oracle_failures": n_fail,
        "disagreements_checked": disagreements,
        "correspondence_cases": compared,
        "exhaustive": tier != "quick",
        "run_wall_s": round(time.time() - t0, 1),
    }


def translate():
    T.translate()


def replay(payload):
    case = payload.get("case") or {}
    if "schema" not in case or ("text" not in case and "seq" not in case):
        print("no concrete input in replay:", str(payload.get("detail", ""))[:800])
        return 1
    ph = case.get("allow_placeholders", False)
    res = C.Result(PROP)
    res.known_ids = {}
    rc = 0
    if "seq" in case:
        steps = [dict(text=t, expect=None, rule="replay") for t in case["seq"]]
        if "step" in case and 0 <= case["step"] < len(steps) and "text" in case:
            steps[case["step"]].update(expect=case.get("expect"), expect_all=case.get("expect_all"))
        c = dict(schema=case["schema"], ph=ph, seq=steps, rule="sequence", text=" ;; ".join(case["seq"]), i=0)
        r = impl_one(c)
        if "harness_exn" in r:
            print(r["harness_exn"])
            return 1
        print("sequence on ONE validator, schema", c["schema"], "allow_placeholders", ph)
        for st, rs in zip(steps, r["steps"]):
            print("  ", repr(st["text"]), "-> validator object:", rs.get("shared"), "| fresh validator:",
                  rs.get("exn") or rs.get("issues"))
        for st in steps:       # only the history clause and the recorded step expectation are re-judged
            if st["rule"] == "replay" and not st.get("expect") and not st.get("expect_all"):
                st["expect"] = "*"
        for k, (st, rs) in enumerate(zip(steps, r["steps"])):
            fresh = ("raises " + rs["exn"]) if "exn" in rs else rs["issues"]
            if rs.get("shared") != fresh:
                print(f"FAILS: history-independent at step {k}")
                rc = 1
            sub = dict(st, schema=c["schema"], ph=ph)
            if st.get("expect") != "*" and not oracle(sub, rs, res):
                rc = 1
        for v in res.violations:
            print("FAILS:", v["clause"], v["detail"])
        return rc
    c = dict(schema=case["schema"], text=case["text"], ph=ph, expect=case.get("expect"),
             expect_all=case.get("expect_all"), rule=case.get("rule", "replay"),
             defs_extra=case.get("defs_extra", False), i=0)
    r = impl_one(c)
    print("input:", repr(c["text"]), "schema", c["schema"], "allow_placeholders", c["ph"])
    print("impl :", r.get("exn") or r.get("issues"))
    if payload.get("clause") in ("conforming-no-error", "mutation-reports-code", "validation-raises", "two-phase"):
        if not oracle(c, r, res):
            for v in res.violations:
                print("FAILS:", v["clause"], v["detail"])
            rc = 1
    else:
        try:
            exe = C.build_driver("c01")
            m = C.run_driver(exe, [r["line"]])[0]
            mi = m if m[0] != "ok" else _model_issues(m)
            print("model:", mi)
            if (m[0] == "ok" and mi != r.get("issues")) or (m[0] == "exn" and r.get("exn") != m[1]):
                print("FAILS: correspondence")
                rc = 1
        except Exception as e:  # noqa
            print("model unavailable:", e)
            rc = 1
    return rc
