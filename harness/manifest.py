import json
import os
from harness.registry import CLAIMED, NOT_APPLICABLE
from harness import common as C

ALL = [f"C{i:02d}" for i in range(1, 21)]


def build():
    checks = []
    for pid in sorted(CLAIMED):
        m = CLAIMED[pid]
        checks.append({
            "property_id": pid,
            "quick_cmd": f"./check {pid} --tier quick",
            "thorough_cmd": f"./check {pid} --tier thorough",
            "evidence_file": f"/verif/evidence/{pid}.json",
            "replay_cmd_template": f"./check {pid} --replay {{path}}",
            "engine": "coq-proof+correspondence",
            "level_claimed": {"category": m.get("category", "proof"), "text": m["text"],
                              "design_ref": m.get("design_ref", "DESIGN.md section 7")},
            "level_note": m["note"],
            "technique": m["technique"],
        })
    na = []
    for pid in ALL:
        if pid not in CLAIMED:
            na.append({"property_id": pid,
                       "reason": NOT_APPLICABLE.get(pid, "not yet covered by the Coq development in this commit "
                                                    "(model/proofs under construction; see DESIGN.md section 7)")})
    man = {
        "version": 1,
        "setup_cmd": "./setup.sh",
        "hooks": {"guard": "HED_PYTHON_VERIF", "enable": "no source hooks are needed: checks import /repo's working "
                  "tree directly (PYTHONPATH=/repo) and intercept I/O by monkeypatching inside the harness process",
                  "baseline_off_cmd": "cd /repo && /venv/bin/python -m pytest -ra -q -p no:cacheprovider --timeout=900 "
                                      "--continue-on-collection-errors",
                  "source_commits": [], "add_only": True},
        "engines": [{"name": "coq-proof+correspondence", "path": "/verif/coq",
                     "serves_properties": sorted(CLAIMED),
                     "kind_free_text": "Coq 8.16.1 theorems over executable Gallina models; models extracted to OCaml "
                                       "(ExtrOcamlBasic) and run differentially against the implementation"}],
        "checks": checks,
        "notes": "fix: commits in /repo and known findings are listed in /verif/known_findings.json",
        "not_applicable": na,
    }
    with open(os.path.join(C.VERIF, "MANIFEST.json"), "w") as f:
        json.dump(man, f, indent=1)
    return man


if __name__ == "__main__":
    m = build()
    print("claimed:", [c["property_id"] for c in m["checks"]])
