"""C14 -- Schema compliance checking accepts released schemas and flags seeded faults."""
import collections
import copy
import glob
import json
import os
import random
import re
import shutil
import threading
import time
import xml.etree.ElementTree as ET
from multiprocessing import Pool

from harness import common as C
from harness import c14_gen as G
from harness import schema_xml as X

PROP = "C14"
# 1 = the code as it is in /repo, i.e. after the fix: commits 55e2b09 (C14-F1: validators only run on attributes declared
# for the section), 5844fee (C14-F2: verify_tag_id / tag_is_deprecated_check use the entry's own inLibrary value) and
# 4796114 (C14-F3: value-less allowedCharacter in the name check): the model runs with
# fixed_all and the oracle demands the full statement; 0 = the code before them (model fixed_none, the two classes
# are accepted as the recorded, repaired defects)
FIXED = int(os.environ.get("VERIF_C14_FIXED", "1"))
LEGACY = {
    "C14-F1": {"property": "C14", "id": "C14-F1", "what": "(repaired by 55e2b09 / 4796114; VERIF_C14_FIXED=0) the validators of an attribute "
               "that is undeclared for the section were still run; one written for another entry class or for string "
               "values raised AttributeError instead of SCHEMA_ATTRIBUTE_INVALID being reported"},
    "C14-F2": {"property": "C14", "id": "C14-F2", "what": "(repaired by 5844fee; VERIF_C14_FIXED=0) for a library tag nested under "
               "a library tag of a partnered 8.3-style schema the inherited inLibrary value 'score,score' named no "
               "library: no id range, an out-of-range hedId was not reported"},
}
COQ_TARGETS = ["Props/C14.vo", "Extract/ExtractC14.vo"]
DRIVERS = ["c14"]
TRUSTED = [
    "Model/Compliance.v is a hand transcription of check_compliance, SchemaValidator.check_attributes/"
    "_check_unknown_attributes/_get_validators/_get_range_validators/_run_validators/check_duplicate_names/"
    "check_if_prerelease_version, every rule of schema_attribute_validators.py, HedIDValidator.__init__/verify_tag_id, "
    "and of the load-time bookkeeping (HedSchemaEntry._set_attribute_value/finalize_entry, HedSchemaSection/"
    "UnitSection/UnitClassSection/TagSection._check_if_duplicate, HedTagEntry.finalize_entry inherited attributes, "
    "UnitEntry/UnitClassEntry derivative units, HedSchema._get_attributes_for_section); tied by the correspondence "
    "run on (code, severity, section, entry, attribute) multisets with warnings on and off",
    "Gen/ComplianceTables.v (kind -> code/severity, attribute -> validator lists old/8.3, range validators, HedKey "
    "names, character_types keys) is regenerated from the current Python sources with ast on every run (fail closed)",
    "NOT modelled: check_invalid_chars / check_prologue_epilogue (their codes SCHEMA_CHARACTER_INVALID / invalidCaps "
    "are dropped from the correspondence; the oracle still checks their severity), sort_issues (a permutation), "
    "message texts, re-ordering of tag all_entries before finalisation, str.casefold()/lower() outside ASCII "
    "(inputs are checked to be in the ASCII-exact domain), Python float()/int() on non-ASCII digits, semantic "
    "versions with prerelease/build parts, unmerged partnered files",
    "inputs of the model obtained at run time: known versions and id ranges (read from the hed cache directory), "
    "inflect plurals of unit names, the previous-version schemas (read from the cache with xml.etree)",
]
ASSUMPTIONS = [
    "the list of known versions / library id ranges is an input (hed cache directory listing, library_data.json)",
    "per-rule and seeded-fault theorems are stated over ANY loaded schema record (lschema); for the code in /repo (fix "
    "commits 55e2b09, 5844fee) they need no 'does not raise' hypothesis but 'checkable E L' (environment readable, every "
    "declared attribute meets rules written for its entry class and value type). 'checkable' is decidable (boolean pass "
    "'evaluate', sound), kernel-evaluated to hold for the nine bundled schemas as loaded by the model, proved to be "
    "preserved by a one-attribute seed at the level of loaded records (relation decided by evaluation; one instance exhibited through the lemma), and three seeded bundled schemas are taken through "
    "the theorems with all premises evaluated. NOT proved: that load() of the seeded XML stands in the one-attribute-seed "
    "relation to load() of the original (a statement about the loader), and that load() produces the record the "
    "implementation builds -- both are covered by the correspondence run (testing) only",
    "C14_rule_in_library_header_only holds by construction of the model (the rule receives neither environment nor "
    "repairs); the implementation's agreement is tested with seeds naming other released libraries",
    "VERIF_C14_FIXED=1 (default): model with both repairs, oracle demands the full statement; an attribute that the "
    "schema generation does not declare for the section (deprecatedFrom / inLibrary before 8.2.0) is expected as "
    "SCHEMA_ATTRIBUTE_INVALID, counted separately",
    "C14_bundled_schemas_compliant and the seeded witnesses are kernel evaluations (VM) of the model on the translated "
    "bundled XML data with the environment of the bundled package (one evaluation per schema, in parallel files)",
    "a changed hedId is not seedable on any bundled schema (no previous version records ids); it is exercised on a "
    "version-bumped copy of 8.3.0 for correspondence only and counted separately",
]

EXCLUDED = {"score_1_0_0", "testlib_1_0_2"}          # stand-alone legacy libraries (statement's quantifier)
UNMODELLED_CODES = {"SCHEMA_CHARACTER_INVALID", "invalidCaps"}
SEC_OF_ENUM = {"Tags": "tags", "UnitClasses": "unitClasses", "Units": "units", "UnitModifiers": "unitModifiers",
               "ValueClasses": "valueClasses", "Attributes": "attributes", "Properties": "properties"}

# the statement's ten fault kinds -> the code the specification names for it (as published by error_types.py today)
SPEC_CODE = {
    "dup_node": "SCHEMA_DUPLICATE_NODE",
    "undeclared_attr": "SCHEMA_ATTRIBUTE_INVALID",
    "unknown_unit_class": "SCHEMA_ATTRIBUTE_VALUE_INVALID",
    "unknown_value_class": "SCHEMA_ATTRIBUTE_VALUE_INVALID",
    "unknown_tag": "SCHEMA_ATTRIBUTE_VALUE_INVALID",
    "class_on_non_placeholder": "SCHEMA_ATTRIBUTE_VALUE_INVALID",
    "deprecated_from": "SCHEMA_DEPRECATION_ERROR",
    "conversion_factor": "SCHEMA_ATTRIBUTE_VALUE_INVALID",
    "default_units": "SCHEMA_ATTRIBUTE_VALUE_INVALID",
    "allowed_character": "SCHEMA_ATTRIBUTE_VALUE_INVALID",
    "in_library": "SCHEMA_ATTRIBUTE_VALUE_INVALID",
    "hed_id_range": "SCHEMA_ATTRIBUTE_VALUE_INVALID",
    "hed_id_changed": "SCHEMA_ATTRIBUTE_VALUE_INVALID",
}
ERROR_KINDS = {"dup_node", "undeclared_attr"}       # reported at ERROR severity (survive warnings off)


# ------------------------------------------------------------------------------------------------ translators

def _all_raw():
    allsch = X.load_all()
    return {k: G.raw_of(X.schema_for_use(k, allsch)) for k in sorted(allsch)}, allsch


def full_name(raw):
    return (raw["library"] + "_" if raw["library"] else "") + raw["version"]


def translate():
    C.write_if_changed(os.path.join(C.COQ, "Gen", "ComplianceTables.v"), G.tables_text())
    raws, allsch = _all_raw()
    for k, raw in raws.items():
        mod = f"Schema_{k}_c14"
        C.write_if_changed(os.path.join(C.COQ, "Gen", mod + ".v"),
                           G.schema_text(raw, "schema", "hed/schema/schema_data/" + allsch[k]["file"]))
    data_dir = os.path.join(C.REPO, X.SCHEMA_DIR)
    C.write_if_changed(os.path.join(C.COQ, "Gen", "C14_Env.v"),
                       G.env_text(G.known_versions(data_dir), G.library_ranges(data_dir),
                                  G.plural_table(raws.values())))
    return raws


# ------------------------------------------------------------------------------------------------ XML reader
# independent of hed-python and of schema_xml (document order of attributes is kept, nothing is merged)

class Unsupported(Exception):
    pass


def _name(el):
    n = el.find("name")
    if n is None:
        return ""
    if n.text is None:
        raise Unsupported("empty <name>")
    return n.text


def _attrs(el, tag):
    out = []
    for ch in el:
        if ch.tag != tag:
            continue
        vals = []
        for v in ch.findall(".//value"):
            if v.text is None:
                raise Unsupported("empty <value>")
            vals.append(v.text)
        joined = ",".join(vals)
        out.append([_name(ch), joined if joined else None])
    return out


def read_raw(text):
    root = ET.fromstring(text)
    hdr = root.attrib

    def sect(sec, de, at):
        secs = root.findall(".//" + sec)
        if not secs:
            raise Unsupported("missing section " + sec)
        return [[_name(d), _attrs(d, at)] for d in secs[0].findall(".//" + de)]
    raw = {"version": hdr.get("version", ""), "library": hdr.get("library", ""),
           "with_standard": hdr.get("withStandard", ""), "unmerged": bool(hdr.get("unmerged", "")),
           "props": sect("propertyDefinitions", "propertyDefinition", "property"),
           "attrs": sect("schemaAttributeDefinitions", "schemaAttributeDefinition", "property"),
           "mods": sect("unitModifierDefinitions", "unitModifierDefinition", "attribute"),
           "vclasses": sect("valueClassDefinitions", "valueClassDefinition", "attribute")}
    ucs = root.findall(".//unitClassDefinitions")
    if not ucs:
        raise Unsupported("missing unit classes")
    raw["uclasses"] = [[[_name(d), _attrs(d, "attribute")],
                        [[_name(u), _attrs(u, "attribute")] for u in d.findall(".//unit")]]
                       for d in ucs[0].findall(".//unitClassDefinition")]
    sch = root.findall(".//schema")
    if not sch:
        raise Unsupported("missing schema")
    tags = []

    def walk(el, parents):
        for node in el.findall("node"):
            nm = _name(node)
            full = "/".join(parents + [nm])
            tags.append([full, _attrs(node, "attribute")])
            walk(node, parents + [nm])
    walk(sch[0], [])
    raw["tags"] = tags
    return raw


def in_model_domain(raw):
    """casefold()/lower() are modelled exactly on ASCII only."""
    def ok(s):
        return s.casefold() == G.ascii_lower(s) and s.lower() == G.ascii_lower(s)
    for sec in ("props", "attrs", "mods", "vclasses", "tags"):
        for n, at in raw[sec]:
            if not ok(n) or any(v is not None and not ok(v) for _, v in at):
                return False
    for (n, at), us in raw["uclasses"]:
        if not ok(n) or any(v is not None and not ok(v) for _, v in at):
            return False
        for un, uat in us:
            if not ok(un) or any(v is not None and not ok(v) for _, v in uat):
                return False
    return True


# ------------------------------------------------------------------------------------------------ s-expressions

def sx_str(s):
    return "(" + " ".join(str(ord(c)) for c in s) + ")"


def sx_entry(e):
    n, at = e
    return "(" + sx_str(n) + "".join(" (" + sx_str(k) + ("" if v is None else " " + sx_str(v)) + ")" for k, v in at) + ")"


def sx_uclass(uc):
    e, us = uc
    return "(" + sx_entry(e) + "".join(" " + sx_entry(u) for u in us) + ")"


def sx_schema(raw):
    def lst(xs, f):
        return "(" + " ".join(f(x) for x in xs) + ")"
    return "(" + " ".join([sx_str(raw["version"]), sx_str(raw["library"]), sx_str(raw["with_standard"]),
                           "1" if raw["unmerged"] else "0",
                           lst(raw["props"], sx_entry), lst(raw["attrs"], sx_entry), lst(raw["mods"], sx_entry),
                           lst(raw["uclasses"], sx_uclass), lst(raw["vclasses"], sx_entry),
                           lst(raw["tags"], sx_entry)]) + ")"


def sx_env(known, ranges, plurals, loadable):
    return ("(env (" + " ".join("(" + sx_str(k) + " (" + " ".join(sx_str(v) for v in vs) + "))"
                                for k, vs in sorted(known.items())) + ") ("
            + " ".join(f"({sx_str(k)} {a} {b})" for k, (a, b) in sorted(ranges.items())) + ") ("
            + " ".join(f"({sx_str(a)} {sx_str(b)})" for a, b in sorted(plurals.items())) + ") ("
            + " ".join(f"({sx_str(n)} {sx_schema(r)})" for n, r in loadable) + "))")


def diff_edits(base, new):
    """edits turning raw `base` into raw `new`, or None when a full schema must be sent."""
    edits = []
    if any(base[k] != new[k] for k in ("version", "library", "with_standard", "unmerged")):
        edits.append("(hdr %s %s %s %s)" % (sx_str(new["version"]), sx_str(new["library"]),
                                            sx_str(new["with_standard"]), "1" if new["unmerged"] else "0"))
    for sec in ("props", "attrs", "mods", "uclasses", "vclasses", "tags"):
        a, b = base[sec], new[sec]
        f = sx_uclass if sec == "uclasses" else sx_entry
        if a == b:
            continue
        if len(a) == len(b):
            for i, (x, y) in enumerate(zip(a, b)):
                if x != y:
                    edits.append(f"(set {sec} {i} {f(y)})")
        elif len(b) == len(a) + 1:
            i = 0
            while i < len(a) and a[i] == b[i]:
                i += 1
            if a[i:] != b[i + 1:]:
                return None
            edits.append(f"(ins {sec} {i} {f(b[i])})")
        else:
            return None
    return edits


# ------------------------------------------------------------------------------------------------ implementation side

EXN_NAMES = {"TypeError", "KeyError", "AttributeError", "ValueError", "IndexError", "RecursionError", "HedFileError"}


def exn_name(e):
    n = type(e).__name__
    return n if n in EXN_NAMES else "Other:" + n


def canon_issue(i):
    sec = i.get("ec_section")
    if sec is not None:
        sec = SEC_OF_ENUM.get(str(sec).split(".")[-1], str(sec))
    sev = {1: "E", 10: "W"}.get(i.get("severity"), str(i.get("severity")))
    return (str(i.get("code")), sev, sec or "-", str(i["ec_schema_tag"]) if "ec_schema_tag" in i else "-",
            str(i["ec_attribute"]) if "ec_attribute" in i else "-")


def impl_check(xml_text):
    from hed.schema import from_string
    out = {}
    try:
        s = from_string(xml_text, schema_format=".xml")
    except Exception as e:  # noqa
        out["load_exn"] = exn_name(e)
        out["load_msg"] = str(getattr(e, "message", e))[:200]
        return out
    for mode in (True, False):
        try:
            issues = s.check_compliance(check_for_warnings=mode)
            out["on" if mode else "off"] = sorted(canon_issue(i) for i in issues)
        except Exception as e:  # noqa
            out["on" if mode else "off"] = {"exn": exn_name(e), "msg": str(e)[:200]}
    return out


# ------------------------------------------------------------------------------------------------ seeding (on the XML tree)

_base_cache = {}


def base_text(key):
    """XML text of a base: a bundled file, or 'bump:<file>' = bundled standard file with its version raised by a minor."""
    if key not in _base_cache:
        if key.startswith("bump:"):
            txt = open(os.path.join(C.REPO, X.SCHEMA_DIR, key[5:]), encoding="utf8").read()
            m = re.search(r'version="(\d+)\.(\d+)\.(\d+)"', txt)
            txt = txt[:m.start()] + f'version="{m.group(1)}.{int(m.group(2)) + 1}.{m.group(3)}"' + txt[m.end():]
        else:
            txt = open(os.path.join(C.REPO, X.SCHEMA_DIR, key), encoding="utf8").read()
        _base_cache[key] = txt
    return _base_cache[key]


class Doc:
    """Positions of a schema XML tree: definition elements per section in document order."""

    def __init__(self, text):
        self.root = ET.fromstring(text)
        r = self.root
        self.library = r.attrib.get("library", "")
        self.version = r.attrib.get("version", "")
        self.with_standard = r.attrib.get("withStandard", "")
        self.nodes = []          # (element, long name, parent element)
        sch = r.find("schema")

        def walk(el, parents):
            for node in el.findall("node"):
                nm = node.find("name").text
                self.nodes.append((node, "/".join(parents + [nm]), el))
                walk(node, parents + [nm])
        walk(sch, [])
        self.uclasses = list(r.find("unitClassDefinitions").findall("unitClassDefinition"))
        self.units = [(u, c) for c in self.uclasses for u in c.findall("unit")]
        self.mods = list(r.find("unitModifierDefinitions").findall("unitModifierDefinition"))
        self.vclasses = list(r.find("valueClassDefinitions").findall("valueClassDefinition"))
        self.attr_defs = list(r.find("schemaAttributeDefinitions").findall("schemaAttributeDefinition"))
        self.prop_defs = list(r.find("propertyDefinitions").findall("propertyDefinition"))

    def elems(self, sec):
        return {"tags": [n[0] for n in self.nodes], "unitClasses": self.uclasses, "units": [u[0] for u in self.units],
                "unitModifiers": self.mods, "valueClasses": self.vclasses, "attributes": self.attr_defs,
                "properties": self.prop_defs}[sec]

    @staticmethod
    def attr_tag(sec):
        """the child element that carries an entry's attributes: <property> in the two definition sections"""
        return "property" if sec in ("attributes", "properties") else "attribute"

    def own_attrs(self, sec, el):
        return {a.find("name").text for a in el.findall(self.attr_tag(sec))}

    def stratum(self, sec, idx):
        """Entry kind by the attributes it already carries: seed positions are stratified by it."""
        el = self.elems(sec)[idx]
        have = self.own_attrs(sec, el)
        if "deprecatedFrom" in have:
            return "deprecated"
        if sec == "tags":
            if "rooted" in have:
                return "rooted"
            if self.nodes[idx][1].endswith("/#"):
                return "placeholder"
            if "inLibrary" in have:
                return "library"
            if any(k.find("name").text == "#" for k in el.findall("node")):
                return "takes-value-parent"
            return "plain"
        return "library" if "inLibrary" in have else "plain"

    def entry_name(self, sec, idx):
        if sec == "tags":
            return self.nodes[idx][1]
        return self.elems(sec)[idx].find("name").text

    def attr_el(self, el, name):
        for a in el.findall("attribute"):
            if a.find("name").text == name:
                return a
        return None

    def declared_attributes(self):
        return [d.find("name").text for d in self.attr_defs]

    def style83(self):
        v = self.with_standard or (self.version if not self.library else "")
        return bool(v) and G.vkey(v) >= (8, 3, 0)

    def declared_for(self, sec):
        """Attributes the schema itself declares for a section (its domain properties) -- the specification's
        notion, computed from the XML alone."""
        out = set()
        new = self.style83()
        elem = "elementDomain" if new else "elementProperty"
        if sec in ("attributes", "properties"):
            # definitions: an attribute definition may carry every declared property, and (like a property
            # definition) the attributes declared for all elements
            out = {d.find("name").text for d in self.attr_defs
                   if elem in {p.find("name").text for p in d.findall("property")}}
            if sec == "attributes":
                out |= {d.find("name").text for d in self.prop_defs}
            return out
        dom = {"tags": "tagDomain", "unitClasses": "unitClassDomain", "units": "unitDomain",
               "unitModifiers": "unitModifierDomain", "valueClasses": "valueClassDomain"}[sec] if new else \
              {"tags": None, "unitClasses": "unitClassProperty", "units": "unitProperty",
               "unitModifiers": "unitModifierProperty", "valueClasses": "valueClassProperty"}[sec]
        for d in self.attr_defs:
            props = {p.find("name").text for p in d.findall("property")}
            nm = d.find("name").text
            if new:
                ok = dom in props or "elementDomain" in props
            elif sec == "tags":
                ok = not (props & {"unitClassProperty", "unitProperty", "unitModifierProperty", "valueClassProperty"})
            else:
                ok = dom in props or "elementProperty" in props
            if ok:
                out.add(nm)
        return out


def add_attr(el, name, value=None, tag="attribute"):
    a = ET.SubElement(el, tag)
    n = ET.SubElement(a, "name")
    n.text = name
    if value is not None:
        v = ET.SubElement(a, "value")
        v.text = value
    return a


def set_attr(doc, el, name, value):
    a = doc.attr_el(el, name)
    if a is None:
        add_attr(el, name, value)
        return
    for v in a.findall("value"):
        a.remove(v)
    if value is not None:
        v = ET.SubElement(a, "value")
        v.text = value


def has_own(doc, el, name):
    return doc.attr_el(el, name) is not None


def positions(doc, kind):
    """All positions (JSON-able seed specs without the base) at which `kind` can be seeded in this document."""
    out = []
    SECS = ["tags", "unitClasses", "units", "unitModifiers", "valueClasses"]
    if kind == "dup_node":
        real = [i for i, (el, long, par) in enumerate(doc.nodes) if not long.endswith("#")]
        for i in real:
            # same-origin targets only: a standard/library clash is a different fault (SCHEMA_LIBRARY_INVALID)
            out.append({"kind": kind, "sec": "tags", "idx": i, "target": "sibling"})
            out.append({"kind": kind, "sec": "tags", "idx": i, "target": "other"})
            out.append({"kind": kind, "sec": "tags", "idx": i, "target": "sibling-other-case"})
    elif kind == "undeclared_attr":
        # every entry of EVERY section (the two definition sections included), with a name the schema declares
        # for another section ("elsewhere") and with a name it declares nowhere
        for sec in SECS + ["attributes", "properties"]:
            for i in range(len(doc.elems(sec))):
                for where in ("elsewhere", "nowhere"):
                    out.append({"kind": kind, "sec": sec, "idx": i, "attr": "*", "where": where})
    elif kind in ("unknown_unit_class", "unknown_value_class", "unknown_tag"):
        # every node: the value is added to the attribute when the node has it, else the attribute is added
        # (unit / value classes on '#' placeholders only: elsewhere that is the class-on-non-placeholder fault)
        names = {"unknown_unit_class": ["unitClass"], "unknown_value_class": ["valueClass"],
                 "unknown_tag": ["suggestedTag", "relatedTag"]}[kind]
        for i, (el, long, par) in enumerate(doc.nodes):
            if kind != "unknown_tag" and not long.endswith("/#"):
                continue
            for nm in names:
                for val in ITEM_VALUES:
                    out.append({"kind": kind, "sec": "tags", "idx": i, "attr": nm, "val": val})
    elif kind == "class_on_non_placeholder":
        for i, (el, long, par) in enumerate(doc.nodes):
            if not long.endswith("/#"):
                for nm in ("unitClass", "valueClass", "takesValue"):
                    if not has_own(doc, el, nm):
                        out.append({"kind": kind, "sec": "tags", "idx": i, "attr": nm})
    elif kind == "deprecated_from":
        for sec in SECS:
            for i in range(len(doc.elems(sec))):
                for how in DEPRECATED_VALUES:
                    out.append({"kind": kind, "sec": sec, "idx": i, "how": how})
    elif kind == "conversion_factor":
        for sec in ("units", "unitModifiers"):
            for i, el in enumerate(doc.elems(sec)):
                if has_own(doc, el, "conversionFactor"):
                    for val in FACTOR_VALUES:
                        out.append({"kind": kind, "sec": sec, "idx": i, "value": val})
    elif kind == "default_units":
        for i, el in enumerate(doc.uclasses):
            if has_own(doc, el, "defaultUnits"):
                for how in ("foreign", "garbage", "plural", "other-case"):
                    out.append({"kind": kind, "sec": "unitClasses", "idx": i, "how": how})
    elif kind == "allowed_character":
        for sec in ("units", "unitModifiers", "valueClasses"):
            for i, el in enumerate(doc.elems(sec)):
                if has_own(doc, el, "allowedCharacter"):
                    for how in ("append", "replace", "other-case", "other-kind", "single-char", "valid"):
                        out.append({"kind": kind, "sec": sec, "idx": i, "how": how})
    elif kind == "in_library":
        for sec in SECS:
            for i in range(len(doc.elems(sec))):
                for val in LIBRARY_VALUES:
                    out.append({"kind": kind, "sec": sec, "idx": i, "val": val})
    elif kind == "hed_id_range":
        for sec in SECS:
            for i, el in enumerate(doc.elems(sec)):
                if has_own(doc, el, "hedId"):
                    for bound in HED_ID_BOUNDS:
                        out.append({"kind": kind, "sec": sec, "idx": i, "bound": bound})
    elif kind == "hed_id_changed":
        for sec in SECS:
            for i, el in enumerate(doc.elems(sec)):
                if has_own(doc, el, "hedId"):
                    out.append({"kind": kind, "sec": sec, "idx": i})
    return out


HED_ID_BOUNDS = ("zero", "one", "lo-1", "lo", "hi", "hi+1", "large", "malformed", "lower-case-prefix")
# the seeded VALUE is stratified too: made up / a real name of the same kind that exists elsewhere / boundary spellings
LIBRARY_VALUES = ("made-up", "other-released-library", "other-case", "no-value")
ITEM_VALUES = ("made-up", "exists-in-another-schema", "other-case", "other-kind")
DEPRECATED_VALUES = ("unknown", "not_older", "newer", "version-of-another-library", "malformed", "older")
FACTOR_VALUES = ("0", "-1.0", "0.0", "-10^3", "-0", "0e5", "abc", "1e-400", "-inf", "nan", "1e-300", " 0 ", "inf")
_known = None
_other_names = {}


def known_libraries():
    """{library: [versions, newest first]} of the hed cache directory (what the implementation consults)."""
    global _known
    if _known is None:
        from hed.schema import hed_cache
        _known = G.known_versions(hed_cache.HED_CACHE_DIRECTORY)
    return _known


def names_elsewhere(doc, what):
    """Names of kind `what` (tags / unitClasses / valueClasses) that some OTHER bundled schema has and this one lacks."""
    key = (doc.library, doc.version, what)
    if key not in _other_names:
        def names(d):
            if what == "tags":
                return {l.rpartition("/")[2] for (_, l, _) in d.nodes if not l.endswith("#")}
            return {e.find("name").text for e in d.elems(what)}
        mine = {n.casefold() for n in names(doc)}
        out = set()
        for f in sorted(glob.glob(os.path.join(C.REPO, X.SCHEMA_DIR, "*.xml"))):
            for n in names(Doc(open(f, encoding="utf8").read())):
                if n.casefold() not in mine:
                    out.add(n)
        _other_names[key] = sorted(out)
    return _other_names[key]


def entry_library(doc, sec, el):
    """(library the entry belongs to, version of the schema for that library) from the XML alone."""
    a = doc.attr_el(el, "inLibrary") if sec not in ("attributes", "properties") else None
    lib = a.find("value").text if a is not None and a.find("value") is not None else None
    if lib is None:
        lib = doc.library if not doc.with_standard else ""
    if lib == doc.library:
        return lib, doc.version
    if lib == "" and doc.with_standard:
        return lib, doc.with_standard
    return lib, None


def other_case(s):
    t = s.swapcase()
    return t if t != s else None
_id_ranges = None


def id_ranges():
    """{library: (lo, hi)} of library_data.json in the hed cache directory (what the implementation reads)."""
    global _id_ranges
    if _id_ranges is None:
        from hed.schema import hed_cache
        _id_ranges = {k: tuple(v) for k, v in G.library_ranges(hed_cache.HED_CACHE_DIRECTORY).items()}
    return _id_ranges


def origin(doc, el):
    return has_own(doc, el, "inLibrary")


def apply_seed(doc, spec, rng):
    """Mutate doc.root; returns (section, entry name, expected code) or None when not seedable here."""
    kind, sec, idx = spec["kind"], spec["sec"], spec["idx"]
    el = doc.elems(sec)[idx]
    name = doc.entry_name(sec, idx)
    code = SPEC_CODE[kind]
    if kind == "dup_node":
        node, long, par = doc.nodes[idx]
        if spec["target"] in ("sibling", "sibling-other-case"):
            tgt, tgt_long = par, long.rpartition("/")[0]
        else:
            cands = [(e, l) for (e, l, p) in doc.nodes if not l.endswith("#") and origin(doc, e) == origin(doc, node)
                     and e is not node and not l.startswith(long + "/")]
            if not cands:
                return None
            tgt, tgt_long = cands[rng.randrange(len(cands))]
        if spec["target"] == "sibling-other-case":
            # node names are compared case-insensitively: the same name in another case is a duplicate too
            tgt, tgt_long = par, long.rpartition("/")[0]
            if other_case(node.find("name").text) is None:
                return None
        new = ET.SubElement(tgt, "node")
        nm = ET.SubElement(new, "name")
        nm.text = node.find("name").text if spec["target"] != "sibling-other-case" else other_case(node.find("name").text)
        for a in node.findall("attribute"):
            if a.find("name").text != "rooted":
                new.append(copy.deepcopy(a))
        # the duplicate is reported without section/tag context; the entry is identified by the code alone
        return ("-", "-", code)
    if kind == "undeclared_attr":
        declared = doc.declared_attributes()
        have = doc.own_attrs(sec, el)
        okset = doc.declared_for(sec)
        elsewhere = [a for a in declared if a not in have and a not in okset]
        nowhere = ["notAnAttribute", "myAttribute"]
        where = spec.get("where")
        cands = elsewhere if where == "elsewhere" else nowhere if where == "nowhere" else elsewhere + nowhere
        if spec.get("attr") in (None, "*"):
            if not cands:
                return None
            spec["attr"] = cands[rng.randrange(len(cands))]
            spec["flag"] = rng.random() < 0.5
        elif spec["attr"] not in elsewhere + nowhere:
            return None
        add_attr(el, spec["attr"], None if spec.get("flag") else "x1", tag=doc.attr_tag(sec))
        return (sec, name, code)
    if kind in ("unknown_unit_class", "unknown_value_class", "unknown_tag"):
        a = doc.attr_el(el, spec["attr"])
        what = {"unknown_unit_class": "unitClasses", "unknown_value_class": "valueClasses", "unknown_tag": "tags"}[kind]
        val = spec.get("val", "made-up")
        spec["attr_name"] = spec["attr"]
        if val == "made-up":
            bogus = {"unknown_unit_class": "nosuchUnitClass", "unknown_value_class": "nosuchValueClass",
                     "unknown_tag": "No-such-tag"}[kind]
        elif val == "exists-in-another-schema":
            pool = names_elsewhere(doc, what)
            if not pool:
                return None
            bogus = pool[rng.randrange(len(pool))]
        elif val == "other-kind":
            # a real name of a neighbouring kind: a unit class where a value class / tag is expected, and so on
            src = {"tags": "unitClasses", "unitClasses": "valueClasses", "valueClasses": "unitClasses"}[what]
            have = {e.find("name").text.casefold() for e in doc.elems(what)} if what != "tags" else \
                   {l.rpartition("/")[2].casefold() for (_, l, _) in doc.nodes}
            pool = [e.find("name").text for e in doc.elems(src) if e.find("name").text.casefold() not in have]
            if not pool:
                return None
            bogus = pool[rng.randrange(len(pool))]
        else:
            # an existing, not deprecated name in another letter case: tags are looked up case-insensitively (no
            # fault), unit and value classes by their exact name (a fault)
            if what == "tags":
                pool = [l.rpartition("/")[2] for (e2, l, _) in doc.nodes
                        if not l.endswith("#") and "/" not in l and not has_own(doc, e2, "deprecatedFrom")]
            else:
                pool = [e.find("name").text for e in doc.elems(what) if not has_own(doc, e, "deprecatedFrom")]
            pool = [n for n in pool if other_case(n)]
            if not pool:
                return None
            bogus = other_case(pool[rng.randrange(len(pool))])
            if what == "tags":
                spec["expect"] = "silent"
        spec["value"] = bogus
        if a is None:
            add_attr(el, spec["attr"], bogus)
            return (sec, name, code)
        vals = a.findall("value")
        if vals and rng.random() < 0.5:
            vals[rng.randrange(len(vals))].text = bogus
        else:
            v = ET.SubElement(a, "value")
            v.text = bogus
        return (sec, name, code)
    if kind == "class_on_non_placeholder":
        nm = spec["attr"]
        if nm == "takesValue":
            add_attr(el, nm, None)
        else:
            pool = doc.uclasses if nm == "unitClass" else doc.vclasses
            if not pool:
                return None
            add_attr(el, nm, pool[rng.randrange(len(pool))].find("name").text)
        return (sec, name, code)
    if kind in ("deprecated_from", "in_library") and FIXED:
        # a schema generation that does not declare the attribute for this section (deprecatedFrom / inLibrary before
        # 8.2.0): the fault that is present is the undeclared attribute, and that is what is reported
        if {"deprecated_from": "deprecatedFrom", "in_library": "inLibrary"}[kind] not in doc.declared_for(sec):
            spec["subsumed_by_undeclared"] = True
            code = SPEC_CODE["undeclared_attr"]
    if kind == "deprecated_from":
        how = spec["how"]
        spec["attr_name"] = "deprecatedFrom"
        lib, cur = entry_library(doc, sec, el)
        mine = known_libraries().get(lib, [])
        if how == "unknown":
            val = "99.0.0"
        elif how == "malformed":
            val = "8.3"
        elif how == "not_older":
            lib_entry = origin(doc, el)
            val = doc.version if (lib_entry or not doc.with_standard) else doc.with_standard
        elif how == "newer":
            # a released version of the entry's library that is NEWER than the schema
            newer = [v for v in mine if cur and G.vkey(v) > G.vkey(cur)]
            if not newer:
                return None
            val = newer[rng.randrange(len(newer))]
        elif how == "version-of-another-library":
            # a version that exists -- but only for another library
            others = sorted({v for k, vs in known_libraries().items() if k != lib for v in vs if v not in mine})
            if not others:
                return None
            val = others[rng.randrange(len(others))]
        else:
            # positive control: a released, strictly older version of the entry's library is no fault.  Only on
            # entries without children (a child that is not deprecated is reported with the same code).
            older = [v for v in mine if cur and G.vkey(v) < G.vkey(cur)]
            childless = (sec in ("units", "unitModifiers", "valueClasses")
                         or (sec == "tags" and not el.findall("node")))
            if not older or not childless:
                return None
            val = older[rng.randrange(len(older))]
            if not spec.get("subsumed_by_undeclared"):
                spec["expect"] = "silent"
        spec["value"] = val
        set_attr(doc, el, "deprecatedFrom", val)
        return (sec, name, code)
    if kind == "conversion_factor":
        # the statement: a conversion factor that is not a positive number (Python's float of the text, '^' read
        # as the exponent marker the way the validator reads it)
        spec["attr_name"] = "conversionFactor"
        try:
            ok = float(spec["value"].replace("^", "e")) > 0.0 or spec["value"].strip().lower() in ("nan", "+nan", "-nan")
        except ValueError:
            ok = False
        if ok:
            spec["expect"] = "silent"
        set_attr(doc, el, "conversionFactor", spec["value"])
        return (sec, name, code)
    if kind == "default_units":
        spec["attr_name"] = "defaultUnits"
        plain = [u.find("name").text for u in el.findall("unit")
                 if not has_own(doc, u, "unitSymbol") and not has_own(doc, u, "deprecatedFrom")]
        if spec["how"] == "garbage":
            val = "nosuchunit"
        elif spec["how"] in ("plural", "other-case"):
            # positive controls: units that are not symbols are recognised in the plural and in any letter case
            if not plain:
                return None
            u = plain[rng.randrange(len(plain))]
            val = G.plural(u.lower()) if spec["how"] == "plural" else other_case(u)
            if not val:
                return None
            spec["expect"] = "silent"
        else:
            # a unit of ANOTHER class that cannot be read as modifier + (plural of) a unit of this class
            mine = {u.find("name").text.lower() for u in el.findall("unit")}
            mine |= {m + "s" for m in mine} | {G.plural(m) for m in mine if m}

            def foreign(nm):
                return not any(nm.lower().endswith(m) for m in mine)
            others = [u.find("name").text for (u, c) in doc.units if c is not el and foreign(u.find("name").text)]
            if not others:
                return None
            val = others[rng.randrange(len(others))]
        set_attr(doc, el, "defaultUnits", val)
        return (sec, name, code)
    if kind == "allowed_character":
        a = doc.attr_el(el, "allowedCharacter")
        how = spec["how"]
        spec["attr_name"] = "allowedCharacter"
        if how == "replace":
            a.findall("value")[0].text = "letterz"
        else:
            if how == "other-kind":
                if not doc.vclasses:
                    return None
                txt = doc.vclasses[rng.randrange(len(doc.vclasses))].find("name").text   # a value class, not a character class
            else:
                txt = {"append": "nosuchclass", "other-case": "Letters", "single-char": "x", "valid": "digits"}[how]
            if how in ("single-char", "valid"):
                spec["expect"] = "silent"      # a single character and a known character class are allowed values
            v = ET.SubElement(a, "value")
            v.text = txt
        return (sec, name, code)
    if kind == "in_library":
        val = spec.get("val", "made-up")
        spec["attr_name"] = "inLibrary"
        header = doc.library.split(",")
        if val == "made-up":
            txt = "otherlib"
        elif val == "other-released-library":
            # the name of a library that IS released -- but is not a library of this schema's header
            pool = sorted(k for k in known_libraries() if k and k not in header)
            if not pool:
                return None
            txt = pool[rng.randrange(len(pool))]
        elif val == "other-case":
            if not doc.library or other_case(doc.library) is None:
                return None
            txt = other_case(doc.library)
        else:
            txt = None                           # the attribute without a value
        spec["value"] = txt
        set_attr(doc, el, "inLibrary", txt)
        return (sec, name, code)
    if kind == "hed_id_range":
        if "value" not in spec:
            # boundary values of the id range of the entry's OWN library (library_data.json)
            a = doc.attr_el(el, "inLibrary")
            lib = a.find("value").text if a is not None and a.find("value") is not None else ""
            rg = id_ranges().get(lib)
            if rg is None:
                return None
            lo, hi = rg
            spec["library"] = lib
            spec["attr_name"] = "hedId"
            if spec["bound"] in ("malformed", "lower-case-prefix"):
                spec["value"] = "HED_12ab" if spec["bound"] == "malformed" else "hed_%07d" % lo
            else:
                v = {"zero": 0, "one": 1, "lo-1": lo - 1, "lo": lo, "hi": hi, "hi+1": hi + 1,
                     "large": 9999999}[spec["bound"]]
                spec["value"] = "HED_%07d" % v
                spec["expect"] = "reported" if (v < lo or v > hi) else "silent"
        set_attr(doc, el, "hedId", spec["value"])
        return (sec, name, code)
    if kind == "hed_id_changed":
        a = doc.attr_el(el, "hedId")
        old = a.find("value").text
        m = re.fullmatch(r"HED_(\d+)", old)
        if not m:
            return None
        a.find("value").text = "HED_%07d" % (int(m.group(1)) + 1)
        return (sec, name, code)
    raise ValueError(kind)


_doc_text = {}


def seed_job(job):
    """(base key, spec, seed) -> dict with the implementation's behaviour and the model input (edits)."""
    key, spec, sd = job
    rng = random.Random(sd)
    txt = base_text(key)
    doc = Doc(txt)
    spec = dict(spec)
    ctx = {"partnered": bool(doc.with_standard), "style83": doc.style83(), "nested_library_tag": False}
    if spec["sec"] == "tags":
        node, long, par = doc.nodes[spec["idx"]]

        def hash_child(n):
            return any(k.find("name").text == "#" for k in n.findall("node"))
        ctx["nested_library_tag"] = bool(par.tag == "node" and has_own(doc, node, "inLibrary")
                                         and has_own(doc, par, "inLibrary") and not hash_child(node)
                                         and not hash_child(par))
    try:
        loc = apply_seed(doc, spec, rng)
    except Exception as e:  # noqa
        return {"key": key, "spec": spec, "seed": sd, "harness_error": f"{type(e).__name__}: {e}"}
    if loc is None:
        return {"key": key, "spec": spec, "seed": sd, "not_seedable": True}
    xml_text = ET.tostring(doc.root, encoding="unicode")
    r = {"key": key, "spec": spec, "seed": sd, "loc": loc, "ctx": ctx}
    r["impl"] = impl_check(xml_text)
    try:
        raw = read_raw(xml_text)
        r["domain"] = in_model_domain(raw)
        if key not in _doc_text:
            _doc_text[key] = read_raw(txt)
        ed = diff_edits(_doc_text[key], raw)
        r["line"] = "(check " + " ".join(ed) + ")" if ed is not None else "(full " + sx_schema(raw) + ")"
    except Unsupported as e:
        r["unsupported"] = str(e)
    return r


def bundled_job(path):
    txt = open(path, encoding="utf8").read()
    r = {"key": os.path.basename(path), "impl": impl_check(txt)}
    raw = read_raw(txt)
    r["domain"] = in_model_domain(raw)
    r["line"] = "(full " + sx_schema(raw) + ")"
    return r


# ------------------------------------------------------------------------------------------------ model side

def parse_model(m):
    """driver output -> {'on': [...]|{'exn':..}, 'off': ...}"""
    out = {}
    if not isinstance(m, list) or len(m) != 2:
        return {"on": {"exn": "ERR:" + str(m)[:100]}, "off": {"exn": "ERR:" + str(m)[:100]}}
    for mode, part in zip(("on", "off"), m):
        if part[0] == "ok":
            iss = []
            for it in part[1]:
                code, sev, sec, tag, attr = it

                def dec(x):
                    return "-" if x == "-" else C.uncps(x)
                iss.append((C.uncps(code), sev, sec, dec(tag), dec(attr)))
            out[mode] = sorted(iss)
        else:
            out[mode] = {"exn": part[1]}
    return out


def run_model(exe, groups):
    """groups: {key: (env line, base line, [check lines])} -> {key: [driver outputs]}; one driver process per shard."""
    os.environ.setdefault("OCAMLRUNPARAM", "s=4M")
    tasks = []
    nsh = int(C.JOBS)
    for key, (env_line, base_line, lines) in groups.items():
        if not lines:
            continue
        per = max(1, (len(lines) + nsh - 1) // nsh)
        if len(lines) < 24:
            per = len(lines)
        for off in range(0, len(lines), per):
            tasks.append((key, off, [env_line, "(fixed %d %d)" % (FIXED, FIXED), base_line] + lines[off:off + per]))
    results = {k: [None] * len(v[2]) for k, v in groups.items()}
    sem = threading.Semaphore(nsh)

    def work(key, off, lines):
        with sem:
            outs = C.run_driver(exe, lines, shards=1)
        for j, o in enumerate(outs[3:]):
            results[key][off + j] = o
    ths = [threading.Thread(target=work, args=t) for t in tasks]
    [t.start() for t in ths]
    [t.join() for t in ths]
    return results


def prev_names(raw, known):
    """Names load_schema_version will be asked for by HedIDValidator.__init__ (only used to keep the environment
    sent to the driver small; a wrong guess shows up as a HedFileError disagreement)."""
    out = []

    def prev(version, lib):
        try:
            cur = G.vkey(version)
        except ValueError:
            return None
        for old in known.get(lib, []):
            if G.vkey(old) < cur:
                return (lib + "_" if lib else "") + old
        return None
    for v, lib in zip(raw["version"].split(","), raw["library"].split(",")):
        p = prev(v, lib)
        if p:
            out.append(p)
    if raw["with_standard"] and "" not in raw["library"].split(","):
        p = prev(raw["with_standard"], "")
        if p:
            out.append(p)
    return out


def runtime_env():
    """The inputs of the model, read at run time from the hed cache directory (independently of hed-python)."""
    from hed.schema import hed_cache
    d = hed_cache.HED_CACHE_DIRECTORY
    if not os.path.isdir(d) or not any(f.lower().endswith(".xml") for f in os.listdir(d)):
        hed_cache.get_hed_versions()       # populates the cache from the installed package data
    known = G.known_versions(d)
    ranges = G.library_ranges(d)
    loadable, raws = [], []
    for f in sorted(os.listdir(d)):
        if G.VERSION_FILE.match(f):
            raw = read_raw(open(os.path.join(d, f), encoding="utf8").read())
            loadable.append((full_name(raw), raw))
            raws.append(raw)
    return known, ranges, loadable, raws


# ------------------------------------------------------------------------------------------------ oracle / comparison

def strip_unmodelled(iss):
    return [i for i in iss if i[0] not in UNMODELLED_CODES]


def oracle_bundled(r, res, eligible):
    impl = r["impl"]
    case = {"bundled": r["key"]}
    if not eligible:
        return
    if "load_exn" in impl:
        res.report("bundled-loads", case, impl["load_exn"])
        return
    for mode in ("on", "off"):
        if isinstance(impl[mode], dict):
            res.report("bundled-check-raises", case, f"{mode}: {impl[mode]}")
            continue
        errs = [i for i in impl[mode] if i[1] != "W"]
        if errs:
            res.report("bundled-no-error", case, f"{mode}: {errs[:5]}")
    if isinstance(impl["off"], list) and impl["off"]:
        res.report("bundled-no-error", case, f"warnings off returned {impl['off'][:5]}")


def classify_known(r):
    """Finding class of a seeded-fault failure, or None (= a new violation).  With the repairs in place (FIXED)
    no class is accepted any more."""
    if FIXED:
        return None
    spec, impl, ctx = r["spec"], r["impl"], r.get("ctx", {})
    on = impl.get("on")
    # C14-F1: the validators of an UNDECLARED attribute are still run, and one written for another entry class /
    # for string values raises AttributeError before anything is reported
    if spec["kind"] == "undeclared_attr" and isinstance(on, dict) and on.get("exn") == "AttributeError":
        return "C14-F1"
    # C14-F2: partnered 8.3-style library schema, library tag nested under a library tag: the inherited inLibrary
    # value is "lib,lib", no id range is found, an out-of-range hedId is not reported
    if spec["kind"] == "hed_id_range" and spec["sec"] == "tags" and ctx.get("partnered") and ctx.get("style83") \
            and ctx.get("nested_library_tag") and isinstance(on, list):
        return "C14-F2"
    return None


def oracle_seed(r, res, stats):
    """The statement, checked directly on the implementation's behaviour for one seeded fault."""
    spec, impl = r["spec"], r["impl"]
    case = {"base": r["key"], "spec": spec, "seed": r["seed"]}
    kind = spec["kind"]
    sec, name, code = r["loc"]
    if "load_exn" in impl:
        res.report("seeded-fault-reported", case, f"loading the seeded schema raised {impl['load_exn']}: "
                   f"{impl.get('load_msg')}", fid=classify_known(r))
        return
    on, off = impl["on"], impl["off"]
    if isinstance(on, dict):
        res.report("seeded-fault-reported", case, f"check_compliance raised {on}", fid=classify_known(r))
    elif spec.get("expect") == "silent":
        # positive controls / boundary values that are NO fault (an id inside the range, a tag in another letter
        # case, a plural unit, an older released version ...): nothing may be reported for that attribute
        hit = [i for i in on if i[0] == code and i[2] == sec and i[3] == name and i[4] == spec.get("attr_name", "hedId")]
        if hit:
            res.report("in-range-hed-id-accepted" if kind == "hed_id_range" else "valid-value-accepted", case,
                       f"{spec.get('attr_name')}={spec.get('value')!r} is no fault but was reported: {hit[:3]}")
        else:
            stats["reported"][kind + "(valid value, silent)"] += 1
    else:
        hit = [i for i in on if i[0] == code and (sec == "-" or (i[2] == sec and i[3] == name))]
        if not hit:
            res.report("seeded-fault-reported", case,
                       f"expected {code} at {sec}:{name}; reported there: {[i for i in on if i[3] == name][:6]}",
                       fid=classify_known(r))
        else:
            stats["reported"][kind + ("(as undeclared attribute)" if spec.get("subsumed_by_undeclared") else "")] += 1
    if isinstance(off, dict):
        if not isinstance(on, dict):
            res.report("warnings-off-only-errors", case, f"check_compliance(False) raised {off}")
    else:
        bad = [i for i in off if i[1] != "E"]
        if bad:
            res.report("warnings-off-only-errors", case, f"non-error issues with warnings off: {bad[:5]}")
        if (kind in ERROR_KINDS or spec.get("subsumed_by_undeclared")) and not isinstance(on, dict):
            if not [i for i in off if i[0] == code and (sec == "-" or (i[2] == sec and i[3] == name))]:
                res.report("error-survives-warnings-off", case, f"{code} missing with warnings off")


def compare(r, model, res, stats):
    """correspondence on (code, severity, section, entry, attribute) multisets, both modes"""
    impl = r["impl"]
    case = {"base": r["key"], "spec": r.get("spec"), "seed": r.get("seed")}
    if not r.get("domain", True):
        stats["outside_domain"] += 1
        return
    if "load_exn" in impl:
        m_on = model["on"]
        if not (isinstance(m_on, dict) and m_on["exn"] == impl["load_exn"]):
            stats["disagreements"] += 1
            res.violation("correspondence", case, f"impl load raised {impl['load_exn']} ({impl.get('load_msg')}); "
                          f"model={str(m_on)[:200]}", no_input=True)
        return
    for mode in ("on", "off"):
        a, b = impl[mode], model[mode]
        if isinstance(a, dict) or isinstance(b, dict):
            ea = a["exn"] if isinstance(a, dict) else None
            eb = b["exn"] if isinstance(b, dict) else None
            if ea != eb:
                stats["disagreements"] += 1
                res.violation("correspondence", case, f"{mode}: impl exn={a if ea else None} model exn={eb}; "
                              f"model={str(b)[:200]}", no_input=True)
            continue
        a = strip_unmodelled(a)
        if collections.Counter(a) != collections.Counter(b):
            stats["disagreements"] += 1
            ca, cb = collections.Counter(a), collections.Counter(b)
            res.violation("correspondence", case, f"{mode}: only impl={list((ca - cb).elements())[:6]} "
                          f"only model={list((cb - ca).elements())[:6]}", no_input=True)


# ------------------------------------------------------------------------------------------------ number parsers

FLOAT_CASES = ["0", "1", "-1", "1.0", "0.0", "-0.0", "1e-400", "1e-323", "1e-324", "2e-324", "3e-324", "4.9e-324",
               "2.4703282292062327e-324", "2.4703282292062328e-324", "2.5e-324", "1e400", "inf", "-inf", "nan", "-nan",
               "Infinity", "+1.5", " 1 ", "1_0", "1__0", "_1", "1_", "1.", ".5", ".", "e5", "1e", "1e+", "1e5", "1E-5",
               "10e6", "10e-3", "1.5e3", "", "abc", "0x10", "1 0", "--1", "+-1", "1e1_0", "1_0.0_1", "0e5", "-0",
               "0.000", "00.1", "1.e2", "١٢"[0:0] + "12", "1,0", "1e-350", "0.0000001e-317", "123456789e-332",
               "24703282292062327e-340", "24703282292062328e-340", "1\t", "\n2", "1e0001", "1e-0"]
INT_CASES = ["0", "12", "0012345", " 12 ", "+12", "-12", "1_2", "1__2", "_1", "1_", "", "abc", "1.0", "0x1", "12a",
             "0010500", "- 1", "١"[0:0] + "7"]


def check_numbers(exe, res):
    lines = ["(float " + sx_str(s) + ")" for s in FLOAT_CASES] + ["(int " + sx_str(s) + ")" for s in INT_CASES]
    outs = C.run_driver(exe, lines, shards=1)
    bad = 0
    for s, o in zip(FLOAT_CASES, outs[:len(FLOAT_CASES)]):
        try:
            f = float(s)
            exp = "le0" if f <= 0.0 else "pos"
        except ValueError:
            exp = "none"
        if o[0] != exp:
            bad += 1
            res.violation("correspondence", {"float": s}, f"float({s!r}): impl {exp} model {o}", no_input=True)
    for s, o in zip(INT_CASES, outs[len(FLOAT_CASES):]):
        try:
            exp = ["int", str(int(s))]
        except ValueError:
            exp = ["none"]
        if o != exp:
            bad += 1
            res.violation("correspondence", {"int": s}, f"int({s!r}): impl {exp} model {o}", no_input=True)
    return len(lines), bad


# ------------------------------------------------------------------------------------------------ run

KINDS = [k for k in SPEC_CODE if k != "hed_id_changed"]


def plan(tier, seed, proof_ok):
    """[(base key, spec, seed)] : corpus first, then sampled positions."""
    rng = random.Random(seed)
    files = sorted(os.path.basename(f) for f in glob.glob(os.path.join(C.REPO, X.SCHEMA_DIR, "*.xml")))
    elig = [f for f in files if G_key(f) not in EXCLUDED]
    jobs = []
    counts = collections.Counter()
    seedable = {}
    if tier == "quick":
        bases = {"HED8.3.0.xml": 5, "HED_score_2.0.0.xml": 5, "HED8.1.0.xml": 1, "HED_testlib_2.0.0.xml": 1,
                 "HED_score_1.1.0.xml": 1}
    else:
        bases = {f: (36 if f in ("HED8.3.0.xml", "HED_score_2.0.0.xml") else 22) for f in elig}
    if not proof_ok:
        bases = {k: v * 3 for k, v in bases.items()}
    for f, per_kind in bases.items():
        if f not in elig:
            continue
        doc = Doc(base_text(f))
        for kind in KINDS:
            pos = positions(doc, kind)
            seedable[(f, kind)] = len(pos)
            if not pos:
                continue
            if kind == "hed_id_range":
                # every boundary value, at sampled entries of EVERY section and of every library of the schema
                groups = collections.defaultdict(list)
                for p in pos:
                    if p["bound"] != "zero":
                        continue
                    el = doc.elems(p["sec"])[p["idx"]]
                    a = doc.attr_el(el, "inLibrary")
                    lib = a.find("value").text if a is not None and a.find("value") is not None else ""
                    groups[(p["sec"], lib)].append(p["idx"])
                chosen = []
                full = set()
                for (sec_g, lib_g), idxs in sorted(groups.items()):
                    k_g = max(1, per_kind // 5)
                    for i_g in (idxs if len(idxs) <= k_g else rng.sample(idxs, k_g)):
                        # every boundary value once per library range; elsewhere (quick) a sample of them
                        if tier == "quick" and lib_g in full:
                            bounds = ["zero"] + rng.sample(HED_ID_BOUNDS[1:], 3)
                        else:
                            bounds = HED_ID_BOUNDS
                        full.add(lib_g)
                        chosen += [{"kind": kind, "sec": sec_g, "idx": i_g, "bound": b} for b in bounds]
                for p in chosen:
                    jobs.append((f, p, rng.randrange(1 << 30)))
                    counts[kind] += 1
                continue
            n = min(len(pos), per_kind * (3 if kind in ("undeclared_attr", "deprecated_from") else 2 if kind == "dup_node" else 1))
            for p in stratified(doc, pos, n, rng, every_stratum=per_kind >= 5):
                jobs.append((f, p, rng.randrange(1 << 30)))
                counts[kind] += 1
        seedable[(f, "hed_id_changed")] = 0      # no previous bundled version records ids
    # changed hedId: only on a version-bumped copy (correspondence of verify_tag_id; not part of the quantifier)
    bump = "bump:HED8.3.0.xml"
    doc = Doc(base_text(bump))
    pos = positions(doc, "hed_id_changed")
    for p in rng.sample(pos, min(len(pos), 10 if tier == "quick" else 150)):
        jobs.append((bump, p, rng.randrange(1 << 30)))
        counts["hed_id_changed(bumped copy)"] += 1
    return files, elig, jobs, counts, seedable


def variant_of(p):
    return "/".join(str(p[k]) for k in ("where", "how", "target", "val", "bound", "value", "attr") if p.get(k) not in (None, "*"))


def stratified(doc, pos, n, rng, every_stratum=True):
    """about n positions such that every ENTRY stratum = (section, entry kind by the attributes the entry already has
    [deprecated / rooted / placeholder / library / takes-value-parent / plain], 'where' of an undeclared name) and
    every VALUE variant of the seed (made up / real name from elsewhere / boundary spelling ...) occurs at least once
    (each on its own; not their product)."""
    if n >= len(pos):
        return list(pos)
    by_entry = collections.defaultdict(list)
    by_value = collections.defaultdict(list)
    for p in pos:
        by_entry[(p["sec"], doc.stratum(p["sec"], p["idx"]), p.get("where", ""))].append(p)
        by_value[variant_of(p)].append(p)
    if not every_stratum:
        # small budget: a random sample plus one position of each rare entry kind
        rare = [g[rng.randrange(len(g))] for k, g in sorted(by_entry.items()) if k[1] in ("deprecated", "rooted")]
        return rng.sample(pos, n) + rare
    chosen = [g[rng.randrange(len(g))] for _, g in sorted(by_entry.items())]
    have = {variant_of(p) for p in chosen}
    for v, g in sorted(by_value.items()):
        if v not in have:
            # a few tries: some variants are not seedable at every position
            chosen += [g[rng.randrange(len(g))] for _ in range(2)]
    ids = {id(p) for p in chosen}
    rest = [p for p in pos if id(p) not in ids]
    extra = n - len(chosen)
    if extra > 0:
        chosen += rng.sample(rest, min(extra, len(rest)))
    return chosen


def G_key(fname):
    m = G.VERSION_FILE.match(fname)
    return ((m.group(2) + "_") if m.group(2) else "") + m.group(3).replace(".", "_")


CORPUS = [
    # (base, spec, seed): the witnesses of the known findings (C14-F1, C14-F2) and regression cases
    ("HED8.3.0.xml", {"kind": "undeclared_attr", "sec": "tags", "idx": 0, "attr": "defaultUnits", "flag": False}, 1),
    ("HED_score_2.0.0.xml", {"kind": "hed_id_range", "sec": "tags", "idx": 149, "value": "HED_9999999"}, 1),
    ("HED8.3.0.xml", {"kind": "undeclared_attr", "sec": "units", "idx": 3, "attr": "takesValue", "flag": True}, 1),
    ("HED8.3.0.xml", {"kind": "undeclared_attr", "sec": "tags", "idx": 5, "attr": "allowedCharacter", "flag": True}, 1),
    ("HED8.3.0.xml", {"kind": "undeclared_attr", "sec": "tags", "idx": 7, "attr": "suggestedTag", "flag": True}, 1),
    ("HED8.3.0.xml", {"kind": "hed_id_range", "sec": "tags", "idx": 0, "bound": "zero"}, 1),
    ("HED_score_2.0.0.xml", {"kind": "hed_id_range", "sec": "unitModifiers", "idx": 2, "bound": "zero"}, 1),
    ("HED8.3.0.xml", {"kind": "undeclared_attr", "sec": "unitModifiers", "idx": 0, "attr": "SIUnit", "flag": True,
                      "where": "elsewhere"}, 1),
    ("HED8.3.0.xml", {"kind": "undeclared_attr", "sec": "valueClasses", "idx": 0, "attr": "takesValue", "flag": True,
                      "where": "elsewhere"}, 1),
    ("HED8.3.0.xml", {"kind": "in_library", "sec": "tags", "idx": 0}, 1),
    ("HED8.3.0.xml", {"kind": "in_library", "sec": "units", "idx": 1, "val": "other-released-library"}, 1),
    ("HED_score_2.0.0.xml", {"kind": "in_library", "sec": "tags", "idx": 149, "val": "other-released-library"}, 1),
    ("HED8.3.0.xml", {"kind": "dup_node", "sec": "tags", "idx": 1, "target": "sibling"}, 1),
    ("HED8.1.0.xml", {"kind": "deprecated_from", "sec": "units", "idx": 2, "how": "not_older"}, 1),
]


def run(tier, seed, res, model_ok=True, proof_ok=True):
    t0 = time.time()
    files, elig, jobs, counts, seedable = plan(tier, seed, proof_ok)
    jobs = list(CORPUS) + jobs
    paths = [os.path.join(C.REPO, X.SCHEMA_DIR, f) for f in files]
    stats = {"reported": collections.Counter(), "disagreements": 0, "outside_domain": 0}
    if not FIXED:
        res.known_ids.update(LEGACY)

    with Pool(int(C.JOBS)) as pool:
        bundled = pool.map(bundled_job, paths, chunksize=1)
        seeded = pool.map(seed_job, jobs, chunksize=4)

    # implementation-side oracle
    for r in bundled:
        oracle_bundled(r, res, G_key(r["key"]) not in EXCLUDED)
    not_seedable = collections.Counter()
    for r in seeded:
        if "harness_error" in r:
            res.violation("harness-error", {"base": r["key"], "spec": r["spec"]}, r["harness_error"], no_input=True)
        elif r.get("not_seedable"):
            not_seedable[r["spec"]["kind"]] += 1
        elif not r["key"].startswith("bump:"):
            oracle_seed(r, res, stats)

    # correspondence with the extracted model
    ncorr = 0
    nnum = 0
    if model_ok:
        exe = C.build_driver("c14")
        known, ranges, loadable, raws = runtime_env()
        base_raws = {}
        for key in {r["key"] for r in seeded}:
            base_raws[key] = read_raw(base_text(key))
        plurals = G.plural_table(list(raws) + list(base_raws.values()))
        by_name = dict(loadable)

        def env_for(raw):
            need = [n for n in prev_names(raw, known) if n in by_name]
            return sx_env(known, ranges, plurals, [(n, by_name[n]) for n in need])
        groups, idx = {}, {}
        empty = "(base " + sx_schema({"version": "0.0.0", "library": "", "with_standard": "", "unmerged": False,
                                       "props": [], "attrs": [], "mods": [], "uclasses": [], "vclasses": [],
                                       "tags": []}) + ")"
        for i, r in enumerate(bundled):
            k = "bundled:" + r["key"]
            groups[k] = (env_for(read_raw(open(paths[i], encoding="utf8").read())), empty, [r["line"]])
            idx[k] = [("b", i)]
        for key, raw in base_raws.items():
            rs = [i for i, r in enumerate(seeded) if r["key"] == key and "line" in r]
            groups[key] = (env_for(raw), "(base " + sx_schema(raw) + ")", [seeded[i]["line"] for i in rs])
            idx[key] = [("s", i) for i in rs]
        outs = run_model(exe, groups)
        for key, rs in idx.items():
            for (w, i), o in zip(rs, outs[key]):
                r = bundled[i] if w == "b" else seeded[i]
                compare(r, parse_model(o), res, stats)
                ncorr += 1
        nnum, _ = check_numbers(exe, res)

    kinds_hist = dict(counts)
    strata_hist = collections.Counter()
    _docs = {}
    for r in seeded:
        if "impl" in r and r["spec"]["kind"] != "dup_node" or "impl" in r:
            k = r["key"]
            if k not in _docs:
                _docs[k] = Doc(base_text(k))
            sp = r["spec"]
            strata_hist[f"{sp['kind']}|{sp['sec']}|{_docs[k].stratum(sp['sec'], sp['idx'])}"
                        + (f"|{sp['where']}" if sp.get("where") else "")] += 1
            strata_hist[f"{sp['kind']}|value:{sp.get('val') or sp.get('how') or sp.get('bound') or sp.get('target') or sp.get('value') or '-'}"] += 1
    n_seeded = sum(1 for r in seeded if "impl" in r)
    distinct = len({(r["key"], json.dumps(r["spec"], sort_keys=True)) for r in seeded if "impl" in r})
    return {
        "evaluations": len(bundled) + n_seeded + nnum,
        "distinct_nontrivial": distinct,
        "rule": "one XML text per case = a bundled eligible schema with exactly one seeded fault (seeded on the "
                "xml.etree tree, loaded with from_string, checked with warnings on and off); non-trivial = a distinct "
                "(base schema, fault kind, position, parameter) seed that the implementation loaded or refused; plus "
                f"the {len(bundled)} bundled files as they stand and {nnum} float()/int() texts",
        "samples": [{"base": r["key"], "spec": r["spec"]} for r in seeded[:2] + seeded[-2:]],
        "histogram": {"seeds_per_kind": kinds_hist,
                      "reported_with_spec_code": dict(stats["reported"]),
                      "not_seedable_at_position": dict(not_seedable),
                      "seeds_per_stratum(kind|section|entry kind|variant)": dict(sorted(strata_hist.items())),
                      "positions_available": {f"{f}:{k}": n for (f, k), n in sorted(seedable.items())},
                      "outside_model_domain": stats["outside_domain"]},
        "bundled_checked": [r["key"] for r in bundled],
        "bundled_eligible": elig,
        "disagreements_checked": stats["disagreements"],
        "correspondence_cases": ncorr,
        "exhaustive": False,
        "run_wall_s": round(time.time() - t0, 1),
    }


def replay(payload):
    case = payload.get("case") or {}
    if "base" not in case or not case.get("spec"):
        if "bundled" in case:
            r = bundled_job(os.path.join(C.REPO, X.SCHEMA_DIR, case["bundled"]))
            res = C.Result(PROP)
            res.known_ids = {}
            oracle_bundled(r, res, True)
            print("impl:", json.dumps(r["impl"])[:2000])
            for v in res.violations:
                print("FAILS:", v["clause"], v["detail"])
            return 1 if res.violations else 0
        print("no concrete input in replay:", str(payload.get("detail", ""))[:500])
        return 1
    r = seed_job((case["base"], case["spec"], case["seed"]))
    res = C.Result(PROP)
    res.known_ids = {} if FIXED else dict(LEGACY)
    stats = {"reported": collections.Counter(), "disagreements": 0, "outside_domain": 0}
    if "impl" in r:
        oracle_seed(r, res, stats)
        print("impl:", json.dumps(r["impl"])[:3000])
    for v in res.violations:
        print("FAILS:", v["clause"], v["detail"])
    return 1 if res.violations else 0
