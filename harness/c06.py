"""C06 -- Event-file rows assemble into exactly the annotation the sidecar prescribes."""
import copy
import hashlib
import io
import itertools
import json
import os
import random
import re
import shutil
from multiprocessing import Pool

from harness import common as C

PROP = "C06"
COQ_TARGETS = ["Props/C06.vo", "Extract/ExtractC06.vo"]
TRUSTED = [
    "the check follows the code as it is now: /repo contains the fix commits a455136 37fb060 a2f08b3 2ad4134 a8ad4f5 "
    "fd59dc0 220dc27 8227060 d53ebab and the model is run at fixed=true, keepcat=false, blank_ref_removed=true; fixed=false / keepcat=true (the behaviour BEFORE "
    "those commits, incl. the quantifier reading of digits-only references) is kept only for the record theorems of the "
    "repaired defects and is checkable with VERIF_C06_FIXED=0 VERIF_C06_KEEPCAT=1 against a tree at 5312cdc",
    "Model/RefSplice.v (replace_ref, _remover, the regular expression as an explicit backtracking scanner with the "
    "one-occurrence-at-a-time loop, the {ref} scanner) and Model/Assemble.v (_detect_column_type, "
    "_finalize_mapping, get_transformers, _category_handler, _value_handler, _handle_transforms, "
    "_handle_curly_braces_refs, combine_dataframe, series_a/dataframe_a) are hand transcriptions tied by the "
    "correspondence run",
    "CPython re: leftmost/greedy/backtracking evaluation of the replace_ref pattern is modelled, and compared with "
    "re.sub on every string over {a,blank,',','(',')',{ref}} up to the stated length; \\s and the IGNORECASE class "
    "[a-z_\\-0-9] are compared with CPython for all 0x110000 code points on each run",
    "pandas: DataFrame.transform/apply/astype/column assignment and read_csv are modelled as plain column-major "
    "list operations on text cells with the default RangeIndex; the iteration order of the Python set in "
    "Sidecar.get_column_refs is an input of the model (theorems quantify over every order)",
]
ASSUMPTIONS = [
    "the final join skips exactly '', blanks-only (U+0020) texts and 'n/a', and a reference whose column text is one of "
    "these goes through the remover (both proved for all inputs); the literal substitution of a blanks-only referenced "
    "text before fix commit d53ebab (C06-F8) is kept as a record theorem",
    "proved for all tables and sidecars of the model of the current code: which columns are listed and with which "
    "transformer, read off the sidecar's JSON shape (HED column, categorical, value, unlisted kinds, sorted distinct names), "
    "row_is_union over that specified list, row_order, second answer equals the first, na_is_removed, never-raises, skipped "
    "cells contribute nothing, verbatim splice, exact n/a, histories (switches and edits); splice_tree/"
    "splice_well_delimited are kernel-evaluated exhaustively for every template over {a,blank,',','(',')',{r}} up to "
    "length 7 (BOUNDED, as stated in the theorem)",
    "holds only by construction of the model: 'changes neither the table nor the sidecar' (the model is functional and "
    "rebuilds its state with the same table and sidecar); in-place mutation by pandas is outside the model and this "
    "clause is TESTED on the implementation (cells, columns, row order, index, sidecar compared before/after each case). "
    "spec_row (the row-wise description in row_is_union) re-uses the model's helpers replace_ref/keep_part/get_col; their "
    "behaviour is stated by separate theorems (na_is_removed, literal splice, exact n/a, bounded splice_tree)",
    "tables are text cells; DataFrame index labels are not part of the model (a non-default index is exercised on "
    "the implementation and checked against the statement only); file loading (read_csv, '' -> n/a) is trusted pandas behaviour",
    "cells that are a blank-padded spelling of n/a (' n/a', 'n/a ') are outside the statement oracle's domain (ambiguous: "
    "filled into templates as text, but a part that ends up as exactly 'n/a' is dropped by the join); such cases are "
    "compared with the model only",
    "column NAMES (onset, duration, sample, response_time, Levels, Description, ...) are an input dimension of the "
    "generators; proved: C06_listed_columns for every name, corollary C06_timing_columns_listed",
    "property oracle domain: sidecars that the HED sidecar rules accept structurally (no nested/self references, "
    "references name non-ignored table columns and stand as whole tags, well-delimited templates); anything else is "
    "compared with the model only",
]

NA = "n/a"
# 1 (default): /repo carries the six fix: commits (a455136 37fb060 a2f08b3 2ad4134 a8ad4f5 fd59dc0); the check follows
# the repaired code: model at fixed=true everywhere, the oracle demands the full statement.
# 0: the behaviour BEFORE those commits (VERIF_REPO must point at a tree without them, e.g. at 5312cdc): model at
# fixed=false, failures of the classes C06-F1..F6 are attributed to the recorded, now repaired, defects.
FIXED = int(os.environ.get("VERIF_C06_FIXED", "1"))
# 0 (default): the code as it is since fix commit 220dc27 (_handle_transforms works on a copy, the stored frame keeps
# its dtype): the model runs with keepcat=false, generated histories also edit categorical columns and no set_cell
# failure is accepted.  1: the behaviour BEFORE 220dc27 (repaired defect C06-F7: the pandas 'category' dtype stayed on
# self._dataframe); only meaningful with VERIF_REPO pointing at a tree without that commit.
KEEPCAT = int(os.environ.get("VERIF_C06_KEEPCAT", "0"))


def _coq_blank_ref_removed():
    """the model's switch Model/RefSplice.v: blank_ref_removed (true = the code as it is since fix commit d53ebab)"""
    src = open(os.path.join(C.COQ, "Model", "RefSplice.v")).read()
    m = re.search(r"Definition blank_ref_removed : bool := (true|false)\.", src)
    if not m:
        raise RuntimeError("Model/RefSplice.v: blank_ref_removed not found")
    return m.group(1) == "true"


# Does replace_ref remove a reference whose column text holds only blanks?  1 (default, read from the model's constant
# Model/RefSplice.v: blank_ref_removed = true) = the code as it is since fix commit d53ebab: the full statement is
# demanded.  0 = the behaviour BEFORE d53ebab (repaired defect C06-F8; failures of exactly that class are attributed to
# it) -- only meaningful against a tree without that commit and a model built with the constant set to false.
BLANKREF = int(os.environ.get("VERIF_C06_BLANKREF", "1" if _coq_blank_ref_removed() else "0"))
# blanks-only / blank-padded texts as an input dimension: only for the current code (the tree before 8227060 listed
# blank parts; the model follows the current rule)
BLANK_DIM = bool(FIXED)
BLANKS = [" ", "  ", "   ", " n/a", "n/a ", "Red ", " Red", " (Blue, Green) "]
LEGACY_FINDINGS = {
    "C06-F1": "an empty referenced-column text (n/a/empty/unknown categorical cell) substituted literally: '{cat}, Square' -> ', Square'",
    "C06-F2": "digits-only reference used un-escaped in the pattern ({1} is a quantifier): 'Red, {1}, Blue' -> 'Red{1}Blue'; {0} raises",
    "C06-F3": "empty cell of a value column not skipped: 'Label/#' -> 'Label/'",
    "C06-F4": "removed reference preceded only by blanks leaves the following comma: ' {val}, Square' -> ', Square'",
    "C06-F5": "same reference twice with only delimiters between, cell n/a: '({val}, {val})' -> '()'",
    "C06-F6": "DataFrame with a non-default index assembled permuted / as 'nan' once a reference names a table column",
}
SYMS = ["a", " ", ",", "(", ")"]


# ------------------------------------------------------------------ encoding for the driver

def S(s):
    return "(" + " ".join(str(ord(c)) for c in s) + ")"


def jv_sx(v):
    if isinstance(v, str):
        return "(S " + S(v) + ")"
    if isinstance(v, dict):
        return "(D (" + " ".join("(" + S(str(k)) + " " + jv_sx(x) + ")" for k, x in v.items()) + "))"
    return "O"


def case_sx(fixed, sidecar, cols, colvals, nrows, order):
    sc = "(" + " ".join("(" + S(k) + " " + jv_sx(v) + ")" for k, v in sidecar.items()) + ")"
    tb = "(" + str(nrows) + " (" + " ".join("(" + S(n) + " (" + " ".join(S(x) for x in vals) + "))"
                                            for n, vals in zip(cols, colvals)) + "))"
    return f"(A {1 if fixed else 0} {sc} {tb} (" + " ".join(S(r) for r in order) + "))"


EXN = {"TypeError", "KeyError", "AttributeError", "ValueError", "IndexError", "RecursionError"}


def exn_name(e):
    n = type(e).__name__
    if n == "HedFileError":
        return "HedFileError"
    return n if n in EXN else "Unmodelled"


# ------------------------------------------------------------------ implementation side

def _vals(df):
    return [[str(x) for x in row] for row in df.values.tolist()]


def impl_case(case):
    """Observable behaviour of TabularInput(...).series_a / dataframe_a, twice, and before/after state."""
    import pandas as pd
    from hed.models.sidecar import Sidecar
    from hed.models.tabular_input import TabularInput
    r = {}
    try:
        sc_text = json.dumps(case["sidecar"])
        sc = Sidecar(io.StringIO(sc_text))
        sc_before = copy.deepcopy(sc.loaded_dict)
        cols, rows = case["columns"], case["rows"]
        path = None
        if case.get("mode") == "file":
            d = case["_scratch"]
            path = os.path.join(d, "f%d_%d.tsv" % (os.getpid(), case["_id"]))
            with open(path, "w", newline="") as f:
                f.write("\t".join(cols) + "\n" + "".join("\t".join(row) + "\n" for row in rows))
            # (a row of empty or blanks-only cells in a one-column file is a blank line, which read_csv drops: not generated)
            file_before = open(path, "rb").read()
            src = path
            df = None
        else:
            df = pd.DataFrame(rows, columns=cols, dtype=str) if rows else pd.DataFrame({c: [] for c in cols}, dtype=str)
            if case.get("index") is not None:
                df.index = case["index"]
            src = df
            df_before = (_vals(df), list(df.columns), list(df.index))
        t = TabularInput(src, sidecar=sc)
        r["loaded"] = (_vals(t.dataframe), [str(c) for c in t.dataframe.columns])
        r["refs"] = list(t.get_column_refs())
        out = {}
        try:
            s1 = t.series_a
            d1 = t.dataframe_a
            s2 = t.series_a
            d2 = t.dataframe_a
            out["series"] = [str(x) for x in s1.tolist()]
            out["series_is_str"] = all(isinstance(x, str) for x in s1.tolist())
            out["series2"] = [str(x) for x in s2.tolist()]
            out["df"] = ([str(c) for c in d1.columns], [[str(x) for x in d1[c].tolist()] for c in d1.columns])
            out["df2"] = ([str(c) for c in d2.columns], [[str(x) for x in d2[c].tolist()] for c in d2.columns])
        except Exception as e:  # noqa
            out["exn"] = exn_name(e)
            out["exn_text"] = f"{type(e).__name__}: {e}"[:160]
        r.update(out)
        r["after"] = (_vals(t.dataframe), [str(c) for c in t.dataframe.columns])
        r["sidecar_same"] = sc.loaded_dict == sc_before and list(sc.loaded_dict) == list(sc_before)
        if df is not None:
            r["caller_same"] = (_vals(df), list(df.columns), list(df.index)) == df_before
        else:
            r["caller_same"] = open(path, "rb").read() == file_before
            os.remove(path)
    except Exception as e:  # noqa
        r["setup_exn"] = f"{type(e).__name__}: {e}"[:200]
    return r


# ------------------------------------------------------------------ independent reference (python, from the statement)

def wf_delim(t):
    depth, st, seen = 0, "E", False
    for c in t:
        if c == " ":
            continue
        if c == ",":
            if st == "E":
                return False
            st = "E"
        elif c == "(":
            if st != "E":
                return False
            depth += 1
            st = "E"
        elif c == ")":
            if st == "E" or depth == 0:
                return False
            depth -= 1
            st = "C"
        else:
            if st == "C":
                return False
            st = "T"
        seen = True
    return (not seen) or (depth == 0 and st != "E")


def parse_tree(t):
    """tree of a delimiter-well-formed text: tuple of tag strings / nested tuples"""
    stack, cur = [[]], ""

    def flush():
        nonlocal cur
        x = cur.strip(" ")
        if x:
            stack[-1].append(x)
        cur = ""
    for c in t:
        if c == ",":
            flush()
        elif c == "(":
            flush()
            stack.append([])
        elif c == ")":
            flush()
            g = stack.pop()
            stack[-1].append(tuple(g))
        else:
            cur += c
    flush()
    return tuple(stack[0])


REF_RE = re.compile(r"\{([^{}]*)\}")


def col_kind(entry):
    """kind of a sidecar entry as the HED rules read it; None = malformed for our purposes"""
    if not isinstance(entry, dict) or not entry:
        return None
    if "HED" not in entry:
        return "ignore"
    h = entry["HED"]
    if isinstance(h, dict):
        if h and all(isinstance(v, str) for v in h.values()) and all(isinstance(k, str) and k not in ("", NA) for k in h):
            return "categorical"
        return None
    if isinstance(h, str) and h.count("#") >= 1:
        return "value"
    return None


def splice_tree(tree, lookup):
    out = []
    for x in tree:
        if isinstance(x, tuple):
            y = splice_tree(x, lookup)
            if y:
                out.append(y)
        else:
            m = REF_RE.fullmatch(x)
            if m:
                out.extend(lookup(m.group(1)))
            else:
                out.append(x)
    return tuple(out)


def skip_cell(x):
    return x == NA or x == ""


def oracle_domain(case, loaded_cols):
    """None when the case is inside the statement's domain, else the reason it is not."""
    sc = case["sidecar"]
    if not isinstance(sc, dict):
        return "sidecar-not-dict"
    kinds = {}
    for k, e in sc.items():
        kd = col_kind(e)
        if kd is None:
            return "malformed-entry"
        kinds[k] = kd
    if len(set(loaded_cols)) != len(loaded_cols):
        return "duplicate-columns"
    if "HED" in sc and "HED" in loaded_cols:
        return "sidecar-describes-HED"
    texts = {}
    for k, e in sc.items():
        if kinds[k] == "categorical":
            texts[k] = list(e["HED"].values())
        elif kinds[k] == "value":
            texts[k] = [e["HED"]]
    usable = {k for k in loaded_cols if kinds.get(k) in ("categorical", "value")} | ({"HED"} & set(loaded_cols))
    referenced = set()
    for k, ts in texts.items():
        for t in ts:
            if not wf_delim(t):
                return "template-not-well-delimited"
            if "{" in t or "}" in t:
                for leaf in _leaves(parse_tree(t)):
                    if "{" in leaf or "}" in leaf:
                        m = REF_RE.fullmatch(leaf)
                        if not m or not re.fullmatch(r"[A-Za-z_\-0-9]+", m.group(1)):
                            return "reference-not-a-whole-tag"
                        if k in loaded_cols:
                            if m.group(1) not in usable:
                                return "reference-to-missing-column"
                            referenced.add(m.group(1))
    for k in referenced:
        if k == "HED":
            continue
        for t in texts.get(k, []):
            if "{" in t or "}" in t:
                return "nested-reference"
    for k in referenced:
        if k in texts and any(k in REF_RE.findall(t) for t in texts[k]):
            return "self-reference"
    # references scanned from columns that are not in the table still count for the implementation
    for k, ts in texts.items():
        if k not in loaded_cols:
            for t in ts:
                if REF_RE.search(t):
                    return "reference-in-absent-column"
    for row in case["_loaded_rows"]:
        for x in row:
            if x != NA and x.strip(" ") == NA:
                # a blank-padded spelling of n/a is neither clearly a value nor clearly missing (the code fills it into
                # a template, but a part that ends up as exactly "n/a" is dropped): compared with the model only
                return "blank-padded-n/a-cell"
    for ci, c in enumerate(loaded_cols):
        if c == "HED" or kinds.get(c) == "value":
            for row in case["_loaded_rows"]:
                x = row[ci]
                if "{" in x or "}" in x or (c == "HED" and not wf_delim(x)) or "#" in x:
                    return "cell-with-braces-or-bad-delimiters"
                if c != "HED" and any(ch in x for ch in ",()"):
                    return "value-cell-with-delimiters"
    return None


def _leaves(tree):
    for x in tree:
        if isinstance(x, tuple):
            yield from _leaves(x)
        else:
            yield x


def expected_row(case, loaded_cols, row):
    """The statement, computed directly: tree of the annotation of one row."""
    sc = case["sidecar"]
    cell = dict(zip(loaded_cols, row))
    referenced = set()
    for k, e in sc.items():
        if k in loaded_cols and col_kind(e) in ("categorical", "value"):
            h = e["HED"]
            for t in (h.values() if isinstance(h, dict) else [h]):
                referenced.update(REF_RE.findall(t))

    def own_tree(c):
        x = cell[c]
        if c == "HED":
            return () if skip_cell(x) else parse_tree(x)
        e = sc[c]
        if col_kind(e) == "categorical":
            if skip_cell(x) or x not in e["HED"]:
                return ()
            return parse_tree(e["HED"][x])
        if skip_cell(x):
            return ()
        return parse_tree(e["HED"].replace("#", x))

    def full_tree(c):
        return splice_tree(own_tree(c), lambda r: full_tree(r))
    out = []
    for c in sorted(loaded_cols):
        if c in referenced:
            continue
        if c == "HED" or col_kind(sc.get(c)) in ("categorical", "value"):
            out.extend(full_tree(c))
    return tuple(out)


def transformed(case, loaded_cols, row):
    """per-column text before splicing, as the statement describes the parts (used only to classify findings)"""
    sc = case["sidecar"]
    out = {}
    for c, x in zip(loaded_cols, row):
        e = sc.get(c)
        if c == "HED":
            out[c] = x
        elif col_kind(e) == "categorical":
            out[c] = e["HED"].get(x, "")
        elif col_kind(e) == "value":
            out[c] = NA if x == NA else e["HED"].replace("#", x)
    return out


def classify(case, loaded_cols, row, index_default=True):
    """Which known-defect precondition (if any) is present on this row."""
    tr = transformed(case, loaded_cols, row)
    refs = set()
    for t in tr.values():
        refs.update(REF_RE.findall(t))
    refs &= set(tr)
    hosts = {c: t for c, t in tr.items() if c not in refs}
    if not index_default:
        # the whole table is affected as soon as one reference of the sidecar names a usable table column
        allrefs = set()
        for k, e in case["sidecar"].items():
            if col_kind(e) in ("categorical", "value"):
                h = e["HED"]
                for t in (h.values() if isinstance(h, dict) else [h]):
                    allrefs.update(REF_RE.findall(t))
        if allrefs & set(tr):
            return "C06-F6"
    # a digits-only reference whose cell is n/a: the quantifier pattern is applied to EVERY remaining column
    allrefs2 = set()
    for k, e in case["sidecar"].items():
        if col_kind(e) in ("categorical", "value"):
            h = e["HED"]
            for t in (h.values() if isinstance(h, dict) else [h]):
                allrefs2.update(REF_RE.findall(t))
    for r_ in allrefs2 & set(tr):
        if r_.isdigit() and r_.isascii() and tr[r_] == NA:
            return "C06-F2"
    for c, t in hosts.items():
        for r_ in REF_RE.findall(t):
            if r_ in refs and tr[r_] == "":
                return "C06-F1"
    sc = case["sidecar"]
    for c, x in zip(loaded_cols, row):
        if x == "" and col_kind(sc.get(c)) == "value":
            return "C06-F3"
    for c, t in hosts.items():
        for r_ in set(REF_RE.findall(t)):
            if r_ in refs and tr[r_] == NA:
                lit = "{" + r_ + "}"
                if re.search(re.escape(lit) + r"[\s,()]*" + re.escape(lit), t):
                    return "C06-F5"
                if re.match(r"\s+[(\s]*" + re.escape(lit), t):
                    return "C06-F4"
    return None


def classify_blank(case, loaded_cols, row):
    """C06-F8 precondition: a non-referenced column's text for this row contains {R} where R is a usable table column
    whose text for the row is non-empty and holds only blanks (U+0020)"""
    sc = case["sidecar"]
    tr = {}
    for c, x in zip(loaded_cols, row):
        e = sc.get(c) if isinstance(sc, dict) else None
        if c == "HED":
            tr[c] = x
        elif col_kind(e) == "categorical":
            tr[c] = e["HED"].get(x, "")
        elif col_kind(e) == "value":
            tr[c] = NA if x in (NA, "") else e["HED"].replace("#", x)
    refs = set()
    for t in tr.values():
        refs.update(REF_RE.findall(t))
    refs &= set(tr)
    for c, t in tr.items():
        if c in refs:
            continue
        for r_ in REF_RE.findall(t):
            if r_ in refs and tr[r_] != "" and tr[r_].strip(" ") == "":
                return "C06-F8"
    return None


def oracle(case, r, res, counts):
    """Every clause of the statement, checked on the implementation's behaviour."""
    pub = public_case(case)
    if "setup_exn" in r:
        if case.get("stream") != "malformed":
            res.report("constructs", pub, r["setup_exn"])
        return
    loaded_rows, loaded_cols = r["loaded"]
    case["_loaded_rows"] = loaded_rows
    n = len(loaded_rows)
    index_default = case.get("index") is None or list(case["index"]) == list(range(n))
    dom = oracle_domain(case, loaded_cols)
    counts["domain:" + (dom or "in")] = counts.get("domain:" + (dom or "in"), 0) + 1
    if case.get("mode") == "file":
        want = [[NA if x in PANDAS_NA else x for x in row] for row in case["rows"]]
        if loaded_rows != want or loaded_cols != case["columns"]:
            res.report("file-load", pub, f"loaded={loaded_rows} want={want}")
    elif (loaded_rows, loaded_cols) != (case["rows"], case["columns"]):
        res.report("frame-load", pub, f"loaded={loaded_rows}")
    # the table and the sidecar are not changed (values, columns, row order; dtypes ignored)
    if r["after"] != r["loaded"]:
        res.report("inputs-unchanged", pub, f"internal table before={r['loaded']} after={r['after']}")
    if not r["caller_same"]:
        res.report("inputs-unchanged", pub, "the caller's table/file changed")
    if not r["sidecar_same"]:
        res.report("inputs-unchanged", pub, "Sidecar.loaded_dict changed")
    if "exn" in r:
        if dom is None:
            fid = None
            if not FIXED:
                for row in loaded_rows:
                    fid = fid or classify(case, loaded_cols, row, index_default)
            res.report("never-raises", pub, r["exn_text"], fid=fid if fid in ("C06-F2", "C06-F6") else None)
        return
    # same answer every time
    if r["series"] != r["series2"] or r["df"] != r["df2"]:
        res.report("deterministic", pub, f"first={r['series']} second={r['series2']}")
    # one annotation per row, in row order
    if len(r["series"]) != n:
        res.report("one-per-row", pub, f"{len(r['series'])} annotations for {n} rows")
        return
    if dom is not None:
        return
    for i, row in enumerate(loaded_rows):
        got = r["series"][i]
        exp = expected_row(case, loaded_cols, row)
        bad = None
        if not r["series_is_str"]:
            bad = ("row-is-text", "non-text annotation")
        elif not wf_delim(got):
            bad = ("delimiter-well-formed", f"row {i}: {got!r}")
        elif parse_tree(got) != exp:
            bad = ("row-is-union", f"row {i}: got {got!r} expected tree {exp!r}")
        if bad:
            # repaired code: the full statement is demanded, no failure class is accepted
            fid = None if FIXED else classify(case, loaded_cols, row, index_default)
            if fid is None and not BLANKREF:
                fid = classify_blank(case, loaded_cols, row)
            res.report(bad[0], dict(pub, row=i), bad[1], fid=fid)
            counts["fail:" + str(fid)] = counts.get("fail:" + str(fid), 0) + 1


_KNOWN_IDS = {}


def _impl_and_oracle(case):
    """worker: run the implementation and the statement oracle for one case"""
    r = impl_case(case)
    res = C.Result(PROP)
    res.known_ids = _KNOWN_IDS
    counts = {}
    oracle(case, r, res, counts)
    case.pop("_loaded_rows", None)
    return r, res.violations, res.known, counts


def _history_and_oracle(case):
    h = impl_history(case)
    res = C.Result(PROP)
    res.known_ids = _KNOWN_IDS
    counts = {}
    oracle_history(case, h, res, counts)
    return h, res.violations, res.known, counts


def _merge(res, counts, viol, known, cnt):
    res.violations.extend(viol)
    for k, n in known.items():
        res.known[k] = res.known.get(k, 0) + n
    for k, n in cnt.items():
        counts[k] = counts.get(k, 0) + n


def public_case(case):
    return {k: v for k, v in case.items() if not k.startswith("_")}


# ------------------------------------------------------------------ generators

TAGS = ["Red", "Blue", "Green", "Square", "Label/x", "Item/Object", "Agent-action", "Sensory-event"]
VALUE_TEMPLATES = ["Label/#", "Duration/# s", "(Label/#, Red)", "Age/#, Blue", "(Label/#, ID/#)", "#", "Pathname/#"]
# input DIMENSIONS for cell / annotation text (not witnesses):
# characters that are special to re / format machinery (replacement templates, patterns, %-format, str.format) ...
SPECIAL_TEXT = ["images\\face01.png", "set\\no_go.png", "a\\1b", "\\g<0>", "x\\\\y", "\\", "\\d+", "$1", "$&", "%s", "100%",
                "%(a)s", "a.b*c", "[x]", "^a$", "a|b", "q?", "a+b", "\\t", "\\n", "\\u0041", "&amp;", "a'b", "a;b", "~x", "@x", "<x>"]
# ... and very short texts / near-misses of the missing-value spelling n/a
NEAR_NA = ["a", "n", "/", "n/", "/a", "N/A", "na", " n/a", "n/a ", "NA", "nan", "n/a/", "n/an/a", "an", "N", "A", "n\\a", "0", "-"]
# what pandas.read_csv turns into a missing value by default (then fillna -> "n/a"); trusted pandas behaviour
PANDAS_NA = {"", "#N/A", "#N/A N/A", "#NA", "-1.#IND", "-1.#QNAN", "-NaN", "-nan", "1.#IND", "1.#QNAN", "<NA>", "N/A", "NA",
             "NULL", "NaN", "None", "n/a", "nan", "null"}
SPECIAL_TAGS = ["Label/a\\b", "ID/$1", "Label/100%", "Label/%s", "Label/x\\1", "Label/n", "a", "n", "/", "Label/\\g<0>"]


def odd_cell(rng):
    return rng.choice(SPECIAL_TEXT) if rng.random() < 0.5 else rng.choice(NEAR_NA)
NAMES = ["cat", "val", "resp", "a", "B", "z_1", "x-y", "trial_type", "c2", "Zed"]
# column NAMES as an input dimension: BIDS timing / reserved names and names equal to sidecar keywords may be categorical
# or value columns like any other (only a table column named HED is special)
RESERVED_NAMES = ["onset", "duration", "sample", "response_time", "stim_file", "value", "Levels", "Description", "Units",
                  "LongName", "hed", "Hed"]


def pick_names(rng, k, extra=()):
    names = rng.sample(NAMES + list(extra), k)
    if rng.random() < 0.4:
        r_ = rng.choice(RESERVED_NAMES)
        if r_ not in names:
            names[rng.randrange(len(names))] = r_
    return names


def rename_case(case, mapping):
    """the same case with columns renamed (sidecar keys, table columns and {references})"""
    def rn_text(t):
        for a, b in mapping.items():
            t = t.replace("{" + a + "}", "{" + b + "}")
        return t

    def rn_entry(e):
        if isinstance(e, dict) and isinstance(e.get("HED"), dict):
            return dict(e, HED={k: rn_text(v) if isinstance(v, str) else v for k, v in e["HED"].items()})
        if isinstance(e, dict) and isinstance(e.get("HED"), str):
            return dict(e, HED=rn_text(e["HED"]))
        return e
    out = dict(case)
    out["sidecar"] = {mapping.get(k, k): rn_entry(e) for k, e in case["sidecar"].items()}
    out["columns"] = [mapping.get(c, c) for c in case["columns"]]
    return out


def gen_tree_text(rng, leaves_extra, depth=2):
    """random well-delimited text; leaves_extra are placed once each as whole tags"""
    extra = list(leaves_extra)

    def g(d):
        items = []
        for _ in range(rng.randint(1, 3)):
            if d > 0 and rng.random() < 0.35:
                items.append("(" + g(d - 1) + ")")
            elif extra and rng.random() < 0.6:
                items.append(extra.pop())
            else:
                items.append(rng.choice(SPECIAL_TAGS) if rng.random() < 0.12 else rng.choice(TAGS))
        return rng.choice([", ", ", ", ",", " , "]).join(items)
    t = g(depth)
    while extra:
        t = t + ", " + extra.pop()
    return t


def gen_valid(rng, nmax_rows=4, digits=False):
    """a structurally valid sidecar and a table over its categories plus n/a, empty and unknown keys"""
    names = pick_names(rng, rng.randint(1, 4), ["1", "12", "007"] if digits else [])
    if digits and not any(x.isdigit() for x in names):
        names[0] = rng.choice(["1", "12", "007"])
    has_hed = rng.random() < 0.5
    kinds = {nm: rng.choice(["categorical", "categorical", "value", "value", "ignore"]) for nm in names}
    usable = [nm for nm in names if kinds[nm] != "ignore"] + (["HED"] if has_hed else [])
    nrefs = rng.choice([0, 1, 1, 2, 2])
    hosts = [nm for nm in names if kinds[nm] != "ignore"]
    refd = []
    if hosts and nrefs and len(usable) > 1:
        host = rng.choice(hosts)
        cands = [u for u in usable if u != host]
        refd = rng.sample(cands, min(nrefs, len(cands)))
    else:
        host = None
    sc = {}
    for nm in names:
        extra = ["{" + x + "}" for x in refd] if nm == host else []
        if kinds[nm] == "categorical":
            keys = rng.sample(["go", "stop", "left", "right", "1", "2"] +
                              (["a", "n", "/a", "N/A", "x\\y", "%s"] if rng.random() < 0.2 else []), rng.randint(1, 3))
            d = {}
            for j, k in enumerate(keys):
                d[k] = gen_tree_text(rng, extra if (j == 0 or rng.random() < 0.5) else [], 2)
                if BLANK_DIM and j > 0 and rng.random() < 0.1:
                    d[k] = rng.choice([" ", "  ", d[k] + " ", " " + d[k]])      # entry text that comes out blank / padded
            sc[nm] = {"HED": d}
            if rng.random() < 0.3:
                sc[nm]["Description"] = "d"
        elif kinds[nm] == "value":
            t = rng.choice(VALUE_TEMPLATES)
            if extra:
                t = gen_tree_text(rng, extra + [rng.choice(VALUE_TEMPLATES[:2])], 1)
            sc[nm] = {"HED": t}
        else:
            sc[nm] = rng.choice([{"Description": "x"}, {"Levels": {"a": "b"}}, {"LongName": "q", "Units": "s"}])
    cols = [nm for nm in names if rng.random() < 0.9 or nm in refd or nm == host]
    if has_hed:
        cols.append("HED")
    if rng.random() < 0.4 and "onset" not in cols:
        cols.append("onset")
    if rng.random() < 0.3:
        cols.append("other")
    rng.shuffle(cols)
    if not cols:
        cols = ["onset"]
    rows = []
    for _ in range(rng.randint(1, nmax_rows)):
        row = []
        for c in cols:
            if c == "HED":
                row.append(rng.choice(BLANKS) if BLANK_DIM and rng.random() < 0.12 else
                           rng.choice(["Red", "(Blue, Green)", NA, "", "Square, (Item/Object, Red)"])
                           if rng.random() < 0.75 else rng.choice(SPECIAL_TAGS + NEAR_NA[:8]))
            elif c in sc and kinds[c] == "categorical":
                row.append(rng.choice(list(sc[c]["HED"]) * 2 + [NA, "", "zzz"]) if rng.random() < 0.85 else odd_cell(rng))
            elif c in sc and kinds[c] == "value":
                row.append(rng.choice(BLANKS[:6]) if BLANK_DIM and rng.random() < 0.1 else
                           rng.choice(["3", "abc", "1.5", NA, NA, ""]) if rng.random() < 0.6 else odd_cell(rng))
            else:
                row.append(rng.choice(["1.0", "x", NA]))
        rows.append(row)
    mode = "file" if rng.random() < 0.25 else "df"
    if mode == "file":
        for row in rows:
            if all(x.strip(" ") == "" for x in row):      # read_csv drops a line that holds only blanks/tabs
                row[0] = NA
    return {"sidecar": sc, "columns": cols, "rows": rows, "mode": mode, "stream": "valid"}


def gen_systematic():
    """every combination of cell kinds (key, n/a, empty, unknown) x (value, n/a, empty) x (HED text, n/a, empty) in
    one table, for a list of template shapes and every choice of 0-2 references among {cat, val, HED}"""
    shapes0 = ["Square", "(Square, Green)"]
    shapes1 = ["{0}", "{0}, Square", "Square, {0}", "Square, {0}, Green", "({0})", "({0}, Square)", "(Square, {0})",
               "(Square, ({0}))", "(({0}), Square), Green", "Square, ({0}), Green", "(Square, {0}, Green)"]
    shapes2 = ["{0}, {1}", "({0}, {1})", "{0}, Square, {1}", "({0}), ({1})", "({0}, Square), {1}", "(Square, ({0}, {1}))",
               "Square, ({0}, ({1}))", "({0}, ({1}, Square))"]
    cells = {"cat": ["go", NA, "", "zzz"], "val": ["7", NA, "", "a", "p\\1q"] + ([" "] if BLANK_DIM else []),
             "HED": ["Red, (Blue)", NA, "", "n"] + (["  "] if BLANK_DIM else [])}
    out = []
    for host in ("cat", "val", "host"):
        others = [c for c in ("cat", "val", "HED") if c != host]
        combos = [((), s) for s in shapes0]
        combos += [((a,), s) for a in others for s in shapes1]
        combos += [((a, b), s) for a in others for b in others if a != b for s in shapes2]
        for refs, shape in combos:
            t = shape
            for i, rname in enumerate(refs):
                t = t.replace("{%d}" % i, "{" + rname + "}")
            sc = {"cat": {"HED": {"go": "Agent-action", "stop": "Item/Object"}}, "val": {"HED": "Label/#"}}
            if host == "cat":
                sc["cat"] = {"HED": {"go": t, "stop": "Item/Object"}}
            elif host == "val":
                sc["val"] = {"HED": t + ", Label/#"}
            else:
                sc["host"] = {"HED": {"h": t, "k": "Blue"}}
            cols = ["val", "HED", "cat"] + (["host"] if host == "host" else [])
            rows = []
            for a in cells["cat"]:
                for b in cells["val"]:
                    for c in cells["HED"]:
                        rows.append([b, c, a] + (["h"] if host == "host" else []))
            case = {"sidecar": sc, "columns": cols, "rows": rows, "mode": "df", "stream": "systematic"}
            if len(out) % 3 == 1:      # the same cross product under reserved / timing column names
                case = rename_case(case, {"val": "duration", "cat": "onset", "host": "Levels"})
            elif len(out) % 3 == 2:
                case = rename_case(case, {"val": "response_time", "cat": "sample", "host": "Description"})
            out.append(case)
    return out


BAD_ENTRIES = [{"HED": "Red"}, {"HED": ["Red"]}, {"HED": {"a": 1, "b": "Red"}}, "text", {}, {"HED": 3}, {"HED": {}},
               {"HED": None}, ["x"], {"HED": {"n/a": "Green", "": "Blue", "go": "Red"}}, {"HED": "#"}, {"HED": "Label/#, Label/#"}]
ODD_TEMPLATES = [" {R}, Square", "  ({R}), Square", "Square, {R}, {R}", "({R}, {R})", "Label/{R}", "{R}{R}", "{R", "R}",
                 "((Square), {R}", "Square,, {R}", "{R}\t, Square", "Square , {R}", "{{R}}", "(Square), {R}, (Blue))",
                 "{r}, Square", "{missing}, Square", "Square, {HED}", "{R} Square", ", {R}", "{R}, ", "( {R} )", "{K}"]


def gen_malformed(rng):
    names = rng.sample(NAMES + ["1", "12", "007", "0", "HED", "K"], rng.randint(1, 4))
    sc = {}
    for nm in names:
        x = rng.random()
        if x < 0.3:
            sc[nm] = copy.deepcopy(rng.choice(BAD_ENTRIES))
        elif x < 0.65:
            r_ = rng.choice(names + ["HED", "nope"])
            t = rng.choice(ODD_TEMPLATES).replace("{R}", "{" + r_ + "}").replace("{K}", "{K}")
            sc[nm] = {"HED": {"go": t, "stop": rng.choice(TAGS)}} if rng.random() < 0.5 else {"HED": t + ", Label/#"}
        elif x < 0.85:
            sc[nm] = {"HED": {"go": rng.choice(TAGS), "stop": "{" + rng.choice(names) + "}, Blue"}}
        else:
            sc[nm] = {"HED": rng.choice(VALUE_TEMPLATES)}
    cols = [nm for nm in names if rng.random() < 0.85] + rng.sample(["HED", "onset", "zz"], rng.randint(0, 2))
    cols = list(dict.fromkeys(cols)) or ["onset"]
    rng.shuffle(cols)
    rows = [[rng.choice(["go", "stop", NA, "", "zzz", "3", "Red", "{cat}", "(Red", "a,b", " x "]) for _ in cols]
            for _ in range(rng.randint(0, 3))]
    return {"sidecar": sc, "columns": cols, "rows": rows, "mode": "df", "stream": "malformed"}


CORPUS = [
    # C06-F1: n/a categorical cell referenced as {cat}
    {"sidecar": {"cat": {"HED": {"go": "Red", "stop": "Blue"}}, "val": {"HED": "{cat}, Square, Label/#"}},
     "columns": ["onset", "cat", "val"], "rows": [["1", "go", "x"], ["2", NA, "y"], ["3", "zzz", NA]], "mode": "df"},
    # C06-F2: digits-only column name used as a quantifier
    {"sidecar": {"1": {"HED": "Label/#"}, "val": {"HED": {"x": "Red, {1}, Blue", "y": "(Red, ({1})), Blue"}}},
     "columns": ["1", "val"], "rows": [["go", "x"], [NA, "x"], [NA, "y"]], "mode": "df"},
    {"sidecar": {"0": {"HED": "Label/#"}, "val": {"HED": {"x": "Red, {0}, Blue"}}},
     "columns": ["0", "val"], "rows": [[NA, "x"]], "mode": "df"},
    # C06-F3: empty cell of a value column is not skipped
    {"sidecar": {"val": {"HED": "Label/#"}}, "columns": ["val", "HED"], "rows": [["", "Red"], [NA, "Red"]], "mode": "df"},
    # C06-F4: blank before a removed reference at the start of the text
    {"sidecar": {"val": {"HED": "Label/#"}, "cat": {"HED": {"go": " {val}, Square"}}},
     "columns": ["val", "cat"], "rows": [[NA, "go"], ["x", "go"]], "mode": "df"},
    # C06-F5: the same reference twice, adjacent
    {"sidecar": {"val": {"HED": "Label/#"}, "cat": {"HED": {"go": "Square, {val}, {val}", "stop": "({val}, {val})"}}},
     "columns": ["val", "cat"], "rows": [[NA, "go"], [NA, "stop"], ["x", "stop"]], "mode": "df"},
    # C06-F6: DataFrame with a non-default index
    {"sidecar": {"cat": {"HED": {"go": "Red", "stop": "Blue"}}, "val": {"HED": "{cat}, Square, Label/#"}},
     "columns": ["cat", "val"], "rows": [["go", "x"], ["stop", "y"], ["go", "z"]], "mode": "df", "index": [2, 1, 0]},
    {"sidecar": {"cat": {"HED": {"go": "Red", "stop": "Blue"}}, "val": {"HED": "{cat}, Square, Label/#"}},
     "columns": ["cat", "val"], "rows": [["go", "x"], ["stop", "y"]], "mode": "df", "index": [5, 6]},
    # regression: order of columns, {HED}, file input, no usable column
    {"sidecar": {"b": {"HED": "Label/#"}, "a": {"HED": {"x": "Red"}}, "Z": {"HED": "Item/#"}, "ign": {"Description": "x"}},
     "columns": ["b", "Z", "HED", "a", "ign", "other"], "rows": [["1", "2", "Green", "x", "q", "r"]], "mode": "file"},
    {"sidecar": {"val": {"HED": "({HED}, Label/#)"}}, "columns": ["val", "HED"],
     "rows": [["v", "Red"], ["v", NA], [NA, "Red"], ["v", ""]], "mode": "df"},
    {"sidecar": {"x": {"Description": "q"}}, "columns": ["x", "other"], "rows": [["1", "a"], ["2", "b"]], "mode": "df"},
    # fix commit 8227060: parts that hold only blanks are skipped by the join (value template "#", HED cell, entry text)
    {"sidecar": {"val": {"HED": "#"}, "cat": {"HED": {"go": "Red", "b": "  "}}}, "columns": ["val", "cat", "HED"],
     "rows": [[" ", "b", "  "], ["  ", "go", "Green"], ["Red ", "b", " "], [" n/a", "go", "n/a "]], "mode": "df"},
    # regression for repaired defect C06-F8 (fix commit d53ebab): a blanks-only text of a REFERENCED column is removed
    {"sidecar": {"val": {"HED": "{HED}, Square, Label/#"}, "cat": {"HED": {"go": "({val}), Blue"}}},
     "columns": ["val", "HED", "cat"], "rows": [["x", " ", "zzz"], ["y", "Red ", "zzz"], ["z", "  ", "zzz"]], "mode": "df"},
    # column names: a sidecar that annotates the timing columns themselves, a referenced timing column, keyword names
    {"sidecar": {"duration": {"HED": "Duration/# s"}, "onset": {"HED": "Delay/# ms"}, "Levels": {"HED": {"go": "Red"}},
                 "trial_type": {"HED": {"go": "(Sensory-event, {duration})", "stop": "Blue"}},
                 "Description": {"HED": "Label/#"}},
     "columns": ["onset", "duration", "trial_type", "Levels", "Description"],
     "rows": [["1.5", "0.5", "go", "go", "x"], ["2", NA, "go", "zzz", NA], [NA, "3", "stop", "go", "y"]], "mode": "file"},
    # every '#' of a value template is the cell text
    {"sidecar": {"val": {"HED": "(Label/#, ID/#), Red"}}, "columns": ["val"], "rows": [["7"], [NA]], "mode": "df"},
]
if not BLANK_DIM:     # the tree before 8227060 lists blanks-only parts: the two blank cases are for the current code only
    CORPUS = [c for c in CORPUS if not any(x.strip(" ") == "" and x != "" for row in c["rows"] for x in row)]
for _c in CORPUS:
    _c["stream"] = "corpus"


# ------------------------------------------------------------------ histories on ONE TabularInput object

class _Text:
    """stands for the HedString argument of BaseInput.set_cell (only get_as_form is used by it)"""

    def __init__(self, t):
        self.t = t

    def get_as_form(self, tag_form):
        return self.t


def gen_sidecar(rng, names, has_hed):
    """a structurally valid sidecar over the given column names (as gen_valid builds them)"""
    kinds = {nm: rng.choice(["categorical", "categorical", "value", "value", "ignore"]) for nm in names}
    usable = [nm for nm in names if kinds[nm] != "ignore"] + (["HED"] if has_hed else [])
    hosts = [nm for nm in names if kinds[nm] != "ignore"]
    host, refd = None, []
    nrefs = rng.choice([0, 1, 1, 1, 2])
    if hosts and nrefs and len(usable) > 1:
        host = rng.choice(hosts)
        cands = [u for u in usable if u != host]
        refd = rng.sample(cands, min(nrefs, len(cands)))
    sc = {}
    for nm in names:
        extra = ["{" + x + "}" for x in refd] if nm == host else []
        if kinds[nm] == "categorical":
            d = {}
            for j, k in enumerate(rng.sample(["go", "stop", "left"], rng.randint(1, 3))):
                d[k] = gen_tree_text(rng, extra if (j == 0 or rng.random() < 0.5) else [], 1)
            sc[nm] = {"HED": d}
        elif kinds[nm] == "value":
            sc[nm] = {"HED": gen_tree_text(rng, extra + [rng.choice(VALUE_TEMPLATES[:2])], 1) if extra
                      else rng.choice(VALUE_TEMPLATES)}
        else:
            sc[nm] = {"Description": "x"}
    return sc


def gen_history(rng):
    """one table, 2-3 sidecars over the same columns, and a sequence of assemble / reset_column_mapper / set_cell"""
    names = pick_names(rng, rng.randint(2, 4))
    has_hed = rng.random() < 0.5
    sidecars = [gen_sidecar(rng, names, has_hed) for _ in range(rng.randint(2, 3))]
    if rng.random() < 0.15:
        sidecars.append(None)
    cols = list(names) + (["HED"] if has_hed else []) + (["onset"] if rng.random() < 0.3 and "onset" not in names else [])
    rng.shuffle(cols)
    pool = ["go", "stop", "left", NA, "", "zzz", "3", "abc", "a", "n/", "N/A", "x\\1y", "\\g<0>", "100%"]
    hedpool = ["Red", "(Blue, Green)", NA, "", "n", "Label/a\\b"] + ([" ", "Red "] if BLANK_DIM else [])
    if BLANK_DIM:
        pool = pool + [" ", "  ", " n/a"]
    rows = [[rng.choice(hedpool if c == "HED" else pool) for c in cols] for _ in range(rng.randint(1, 3))]
    ops = [["assemble"]]
    for _ in range(rng.randint(2, 6)):
        x = rng.random()
        if x < 0.45:
            ops.append(["reset", rng.randrange(len(sidecars))])
            ops.append(["assemble"])
        elif x < 0.75:
            ops.append(["assemble"])
        else:
            # cells of columns that are categorical under one of the sidecars are edited only in HISTORY_CORPUS:
            # before fix commit 220dc27 an assembly left the 'category' dtype on such a column and pandas refused the edit
            # (repaired defect C06-F7; only relevant with VERIF_C06_KEEPCAT=1 against a tree without that commit:
            # TypeError for a new category; for an existing one it depends on pandas-internal read-only flags)
            ok_cols = [j for j, c in enumerate(cols)
                       if not KEEPCAT or not any(isinstance(sc, dict) and isinstance(sc.get(c), dict) and isinstance(sc[c].get("HED"), dict)
                                  for sc in sidecars)]
            if ok_cols:
                c = rng.choice(ok_cols)
                ops.append(["set_cell", rng.randrange(len(rows)), c, rng.choice(hedpool if cols[c] == "HED" else pool)])
    if ops[-1][0] != "assemble":
        ops.append(["assemble"])
    return {"sidecars": sidecars, "columns": cols, "rows": rows, "ops": ops, "stream": "history"}


HISTORY_CORPUS = [
    # references of sidecar A must not survive the switch to sidecar B (and back)
    {"sidecars": [{"cat": {"HED": {"go": "Red", "stop": "Blue"}}, "response_time": {"HED": "Label/#"},
                   "val": {"HED": "({cat}, Label/#)"}},
                  {"cat": {"HED": {"go": "Red", "stop": "Blue"}}, "response_time": {"HED": "Duration/# s"},
                   "val": {"HED": "({response_time}, Label/#)"}}],
     "columns": ["cat", "response_time", "val"], "rows": [["go", "3", "x"], ["stop", NA, "y"]],
     "ops": [["assemble"], ["reset", 1], ["assemble"], ["assemble"], ["reset", 0], ["assemble"], ["reset", None], ["assemble"]]},
    # regression for repaired defect C06-F7 (fix commit 220dc27): a cell of a categorical column set to a new value after
    # an assembly -- must now be accepted
    {"sidecars": [{"cat": {"HED": {"go": "Red", "stop": "Blue"}}}],
     "columns": ["cat", "HED"], "rows": [["go", "Green"], ["go", NA]],
     "ops": [["assemble"], ["set_cell", 1, 0, "stop"], ["assemble"], ["set_cell", 0, 1, "Square"], ["assemble"]]},
    # edits before any assembly are always accepted
    {"sidecars": [{"cat": {"HED": {"go": "Red", "stop": "Blue"}}}],
     "columns": ["cat"], "rows": [["go"], ["go"]], "ops": [["set_cell", 1, 0, "stop"], ["assemble"]]},
]
for _c in HISTORY_CORPUS:
    _c["stream"] = "history-corpus"


def _mk_sidecar(d):
    from hed.models.sidecar import Sidecar
    return None if d is None else Sidecar(io.StringIO(json.dumps(d)))


def impl_history(case):
    """run the operations on ONE TabularInput; after every assembly also assemble a FRESH object that holds the
    current table and the current sidecar"""
    import pandas as pd
    from hed.models.tabular_input import TabularInput
    out = {"steps": []}
    try:
        cols = case["columns"]
        cur_rows = [list(r_) for r_ in case["rows"]]
        cur = case["sidecars"][0]
        t = TabularInput(pd.DataFrame(cur_rows, columns=cols, dtype=str), sidecar=_mk_sidecar(cur))
        for op in case["ops"]:
            st = {"op": op}
            try:
                if op[0] == "assemble":
                    st["refs"] = list(t.get_column_refs())
                    ser = t.series_a
                    st["series"] = [str(x) for x in ser.tolist()]
                    st["series_is_str"] = all(isinstance(x, str) for x in ser.tolist())
                    st["rows"] = [list(r_) for r_ in cur_rows]
                    st["sidecar"] = cur
                    fresh = TabularInput(pd.DataFrame(cur_rows, columns=cols, dtype=str), sidecar=_mk_sidecar(cur))
                    st["fresh"] = [str(x) for x in fresh.series_a.tolist()]
                elif op[0] == "reset":
                    cur = None if op[1] is None else case["sidecars"][op[1]]
                    t.reset_column_mapper(_mk_sidecar(cur))
                elif op[0] == "set_cell":
                    t.set_cell(op[1], op[2], _Text(op[3]))
                    cur_rows[op[1]][op[2]] = op[3]
            except Exception as e:  # noqa
                st["exn"] = exn_name(e)
                st["exn_text"] = f"{type(e).__name__}: {e}"[:160]
            out["steps"].append(st)
        out["table_after"] = _vals(t.dataframe)
        out["table_expected"] = cur_rows
    except Exception as e:  # noqa
        out["setup_exn"] = f"{type(e).__name__}: {e}"[:200]
    return out


def oracle_history(case, h, res, counts):
    """same answer whatever happened before: every assembly equals that of a fresh object with the current table and
    the current sidecar, and (inside the statement's domain) the union that sidecar prescribes"""
    pub = public_case(case)
    if "setup_exn" in h:
        res.report("constructs", pub, h["setup_exn"])
        return
    assembled_cat = set()        # columns that were categorical under a sidecar current at an earlier assembly
    cur = case["sidecars"][0]
    for k, st in enumerate(h["steps"]):
        op = st["op"]
        where = dict(pub, step=k)
        if op[0] == "reset":
            cur = None if op[1] is None else case["sidecars"][op[1]]
        if "exn" in st:
            fid = None
            if (KEEPCAT and op[0] == "set_cell" and case["columns"][op[2]] in assembled_cat
                    and ((st["exn"] == "TypeError" and "Categorical" in st["exn_text"])
                         or (st["exn"] == "ValueError" and "read-only" in st["exn_text"]))):
                fid = "C06-F7"
            res.report("history-" + op[0] + "-raises", where, st["exn_text"], fid=fid)
            counts["fail:" + str(fid)] = counts.get("fail:" + str(fid), 0) + 1
            continue
        if op[0] != "assemble":
            continue
        for c in case["columns"]:
            if isinstance(cur, dict) and col_kind(cur.get(c)) == "categorical" or \
               (isinstance(cur, dict) and isinstance(cur.get(c), dict) and isinstance(cur[c].get("HED"), dict)):
                assembled_cat.add(c)
        if st["series"] != st["fresh"]:
            res.report("history-same-answer", where,
                       f"step {k}: object gives {st['series']}, a fresh object with the current table and sidecar {st['fresh']}")
            continue
        pseudo = {"sidecar": cur or {}, "columns": case["columns"], "rows": st["rows"], "_loaded_rows": st["rows"]}
        if oracle_domain(pseudo, case["columns"]) is None and len(st["series"]) == len(st["rows"]):
            for i, row in enumerate(st["rows"]):
                got = st["series"][i]
                if not wf_delim(got) or parse_tree(got) != expected_row(pseudo, case["columns"], row):
                    fid = None if BLANKREF else classify_blank(pseudo, case["columns"], row)
                    res.report("history-row-is-union", dict(where, row=i),
                               f"step {k} row {i}: got {got!r} expected tree {expected_row(pseudo, case['columns'], row)!r}",
                               fid=fid)
                    counts["fail:" + str(fid)] = counts.get("fail:" + str(fid), 0) + 1
    if h.get("table_after") != h.get("table_expected"):
        res.report("history-table", pub, f"table {h.get('table_after')} expected {h.get('table_expected')}")


def history_sx(case, h, fixed):
    def scsx(sc):
        return "(" + " ".join("(" + S(k) + " " + jv_sx(v) + ")" for k, v in (sc or {}).items()) + ")"
    cols, rows = case["columns"], case["rows"]
    tb = "(" + str(len(rows)) + " (" + " ".join(
        "(" + S(n) + " (" + " ".join(S(row[j]) for row in rows) + "))" for j, n in enumerate(cols)) + "))"
    ops = []
    for st in h["steps"]:
        op = st["op"]
        if op[0] == "assemble":
            ops.append("(A (" + " ".join(S(r_) for r_ in st.get("refs", [])) + "))")
        elif op[0] == "reset":
            ops.append("(S " + scsx(None if op[1] is None else case["sidecars"][op[1]]) + ")")
        else:
            ops.append(f"(C {op[1]} {op[2]} {S(op[3])})")
    return f"(H {1 if fixed else 0} {1 if KEEPCAT else 0} {scsx(case['sidecars'][0])} {tb} (" + " ".join(ops) + "))"


def compare_history(h, m):
    diffs = []
    if len(m) != len(h["steps"]):
        return [f"driver: {m}"]
    for k, (st, o) in enumerate(zip(h["steps"], m)):
        if o[0] == "rows":
            got = [C.uncps(x) for x in o[1]]
            if "exn" in st:
                diffs.append(f"step {k}: impl raises {st['exn_text']}, model returns")
            elif st["op"][0] != "assemble" or st["series"] != got:
                diffs.append(f"step {k}: impl={st.get('series')} model={got}")
        elif o[0] == "exn":
            if st.get("exn") != o[1]:
                diffs.append(f"step {k}: model raises {o[1]}, impl {st.get('exn_text', 'returns')}")
        elif "exn" in st:
            diffs.append(f"step {k}: impl raises {st['exn_text']}, model does not")
    return diffs


# ------------------------------------------------------------------ replace_ref: exhaustive comparison with re.sub

def fixed_replace_ref(text, oldvalue, newvalue="n/a"):
    """the repair as first proposed (= what /repo now contains); only used with VERIF_C06_FIXED=0, to compare the
    fixed=true scanner with something while the tree under test is still unrepaired"""
    if newvalue != "n/a" and newvalue != "":
        return text.replace(oldvalue, newvalue)

    def _remover(match):
        p1 = match.group("p1").count("(")
        p2 = match.group("p2").count(")")
        if p1 > p2:
            return match.group("c1") + "(" * (p1 - p2)
        if p2 > p1:
            return ")" * (p2 - p1) + match.group("c2")
        return match.group("c2") if "," in match.group("c1") else ""
    pattern = r'(?P<c1>[\s,]*)(?P<p1>[(\s]*)' + re.escape(oldvalue) + r'(?P<p2>[\s)]*)(?P<c2>[\s,]*)'
    while True:
        new_text = re.sub(pattern, _remover, text, count=1)
        if new_text == text:
            return text
        text = new_text


def _rr(fixed, text, ref, nv):
    from hed.models.df_util import replace_ref
    try:
        # the model at fixed=FIXED is always compared with the REAL hed.models.df_util.replace_ref
        f = replace_ref if bool(fixed) == bool(FIXED) else fixed_replace_ref
        return f(text, "{" + ref + "}", nv)
    except Exception as e:  # noqa
        return "!" + exn_name(e)


def digest_chunk(args):
    fixed, ref, nv, prefix, m = args
    syms = SYMS + ["{" + ref + "}"]
    pre = "".join(syms[i] for i in prefix)
    h = hashlib.md5()
    buf = []
    n = 0
    for q in itertools.product(syms, repeat=m):
        buf.append(_rr(fixed, pre + "".join(q), ref, nv))
        n += 1
        if len(buf) >= 50000:
            h.update(("\n".join(buf) + "\n").encode())
            buf = []
    if buf:
        h.update(("\n".join(buf) + "\n").encode())
    return h.hexdigest(), n


def regex_exhaustive(tier, exe, res, pool, proof_ok):
    """replace_ref of the model vs the implementation on every symbol string up to the bound"""
    if FIXED:
        # the repaired code: every entry compares the REAL replace_ref with the fixed=true scanner
        if tier == "quick":
            plan = [(1, "r", NA, 6), (1, "1", NA, 5), (1, "12", NA, 4), (1, "0", NA, 4), (1, "r", "", 5), (1, "r", "(b), c", 4)]
        else:
            plan = [(1, "r", NA, 8), (1, "1", NA, 7), (1, "12", NA, 6), (1, "0", NA, 6), (1, "r", "", 7), (1, "r", "(b), c", 6)]
        # replacement-text dimension: characters special to re/format machinery and near-misses of n/a
        plan += [(1, "r", nv, 2 if tier == "quick" else 5) for nv in SPECIAL_TEXT + NEAR_NA]
        plan += [(1, "x-y", nv, 3) for nv in ("\\1", "n", NA)]
    elif tier == "quick":
        plan = [(0, "r", NA, 6), (0, "1", NA, 5), (0, "12", NA, 5), (0, "r", "", 5), (0, "r", "(b), c", 4), (1, "r", NA, 5),
                (1, "r", "", 4), (1, "7", NA, 4)]
    else:
        plan = [(0, "r", NA, 9), (0, "1", NA, 8), (0, "12", NA, 8), (0, "r", "", 7), (0, "r", "(b), c", 7), (1, "r", NA, 8),
                (1, "r", "", 7), (1, "7", NA, 7), (0, "0", NA, 5)]
    chunks = []
    for fixed, ref, nv, nmax in plan:
        for n in range(nmax + 1):
            if n <= 3:
                chunks.append((fixed, ref, nv, (), n))
            else:
                for p in itertools.product(range(6), repeat=2):
                    chunks.append((fixed, ref, nv, p, n - 2))
    lines = [f"(X {c[0]} {S(c[1])} {S(c[2])} ({' '.join(map(str, c[3]))}) {c[4]})" for c in chunks]
    mod = C.run_driver(exe, lines, shards=int(C.JOBS))
    imp = pool.map(digest_chunk, chunks, chunksize=1)
    total = 0
    bad = 0
    for c, m, (hx, n) in zip(chunks, mod, imp):
        total += n
        if m[0] != hx or int(m[1]) != n:
            bad += 1
            # locate the first differing string
            syms = SYMS + ["{" + c[1] + "}"]
            pre = "".join(syms[i] for i in c[3])
            found = None
            qs = ["".join(q) for q in itertools.product(syms, repeat=c[4])]
            outs = C.run_driver(exe, [f"(R {c[0]} {S(pre + q)} {S(c[1])} {S(c[2])})" for q in qs], shards=int(C.JOBS))
            for q, o in zip(qs, outs):
                mo = C.uncps(o[1]) if o[0] == "ok" else "!" + o[1]
                io_ = _rr(c[0], pre + q, c[1], c[2])
                if mo != io_:
                    found = {"text": pre + q, "ref": c[1], "newvalue": c[2], "fixed": c[0], "impl": io_, "model": mo}
                    break
            res.violation("correspondence-replace_ref", found or {"chunk": list(map(str, c))},
                          f"model(fixed={c[0]}) and {'implementation' if bool(c[0]) == bool(FIXED) else 'reference copy of the fix'} differ: {found}", no_input=True)
            if bad >= 3:
                break
    return total, plan


def _cpython_classes(rng_):
    """code points of [lo, hi) matched by \\s / by the IGNORECASE reference class, according to CPython re"""
    lo, hi = rng_
    ws_re = re.compile(r"\s")
    rc_re = re.compile(r"[a-z_\-0-9]", re.IGNORECASE)
    return ([c for c in range(lo, hi) if ws_re.fullmatch(chr(c))], [c for c in range(lo, hi) if rc_re.fullmatch(chr(c))])


def check_class_tables(exe, pool=None):
    """\\s and the IGNORECASE reference class of the model equal CPython's for every code point"""
    step = 0x8000
    lines = [f"(K {lo} {min(lo + step, 0x110000)})" for lo in range(0, 0x110000, step)]
    outs = C.run_driver(exe, lines, shards=int(C.JOBS))
    ws, rc = set(), set()
    for o in outs:
        for cp, a, b in o:
            if a == "1":
                ws.add(int(cp))
            if b == "1":
                rc.add(int(cp))
    ranges = [(lo, min(lo + step, 0x110000)) for lo in range(0, 0x110000, step)]
    parts = pool.map(_cpython_classes, ranges, chunksize=1) if pool is not None else [_cpython_classes(r_) for r_ in ranges]
    ws_py, rc_py = set(), set()
    for a, b in parts:
        ws_py.update(a)
        rc_py.update(b)
    return [("\\s", c) for c in sorted(ws ^ ws_py)] + [("refchar", c) for c in sorted(rc ^ rc_py)]


# ------------------------------------------------------------------ run

def model_lines(cases, impls, fixed=False):
    lines, idx = [], []
    for i, (case, r) in enumerate(zip(cases, impls)):
        if "setup_exn" in r or not isinstance(case["sidecar"], dict) or case.get("index") is not None:
            continue
        rows, cols = r["loaded"]
        if len(set(cols)) != len(cols):
            continue
        colvals = [[row[j] for row in rows] for j in range(len(cols))]
        lines.append(case_sx(fixed, case["sidecar"], cols, colvals, len(rows), r["refs"]))
        idx.append(i)
    return lines, idx


def compare_model(case, r, m):
    """diff of canonicalised behaviour; [] when equal"""
    diffs = []
    if m[0] == "exn":
        if r.get("exn") != m[1]:
            diffs.append(f"model raises {m[1]}, impl {r.get('exn', 'returns ' + str(r.get('series')))}")
        if set(C.uncps(x) for x in m[2]) != set(r["refs"]):
            diffs.append(f"refs impl={sorted(r['refs'])} model={sorted(C.uncps(x) for x in m[2])}")
        return diffs
    if m[0] != "ok":
        return [f"driver: {m}"]
    if "exn" in r:
        return [f"impl raises {r['exn_text']}, model returns"]
    ser = [C.uncps(x) for x in m[1]]
    dfm = ([C.uncps(k) for k, _ in m[2]], [[C.uncps(x) for x in col] for _, col in m[2]])
    refs = set(C.uncps(x) for x in m[3])
    if ser != r["series"]:
        diffs.append(f"series impl={r['series']} model={ser}")
    if dfm != tuple(r["df"]) and list(dfm) != list(r["df"]):
        diffs.append(f"dataframe_a impl={r['df']} model={dfm}")
    if refs != set(r["refs"]):
        diffs.append(f"refs impl={sorted(r['refs'])} model={sorted(refs)}")
    if m[7] != "1":
        diffs.append("model: second call differs or inputs changed")
    return diffs


def run(tier, seed, res, model_ok=True, proof_ok=True):
    rng = random.Random(seed)
    scratch = C.scratch_dir()
    try:
        return _run(tier, seed, res, model_ok, proof_ok, rng, scratch)
    finally:
        shutil.rmtree(scratch, ignore_errors=True)


def _run(tier, seed, res, model_ok, proof_ok, rng, scratch):
    nval = 700 if tier == "quick" else 20000
    nmal = 300 if tier == "quick" else 8000
    if not BLANKREF:
        res.known_ids = dict(getattr(res, "known_ids", {}))
        res.known_ids.setdefault("C06-F8", {"id": "C06-F8", "what": "(behaviour before fix commit d53ebab, VERIF_C06_BLANKREF=0) a "
                                            "blanks-only text of a referenced column substituted literally: ' , Square'"})
    if not FIXED:
        res.known_ids = dict(getattr(res, "known_ids", {}))
        for k, v in LEGACY_FINDINGS.items():
            res.known_ids.setdefault(k, {"id": k, "what": "(unrepaired code, VERIF_C06_FIXED=0) " + v})
    if not proof_ok:
        nval *= 3
        nmal *= 3
    cases = [copy.deepcopy(c) for c in CORPUS] + gen_systematic()
    cases += [gen_valid(rng) for _ in range(nval)]
    cases += [gen_valid(rng, digits=True) for _ in range(nval // 10)]
    cases += [gen_malformed(rng) for _ in range(nmal)]
    # the same tables with another row labelling (implementation + oracle only; the model has no index)
    idx_cases = []
    for c in cases[len(CORPUS):len(CORPUS) + 150 + nval // 10]:
        if c["mode"] == "df" and c["rows"]:
            d = copy.deepcopy(c)
            n = len(d["rows"])
            d["index"] = rng.choice([list(range(n - 1, -1, -1)), list(range(3, 3 + n)), list(range(n))])
            d["stream"] = "index"
            idx_cases.append(d)
    cases += idx_cases
    for i, c in enumerate(cases):
        c["_id"] = i
        c["_scratch"] = scratch

    # histories on one object (only for the repaired code: the tree under test is the current one)
    nhist = (150 if tier == "quick" else 4000) * (1 if proof_ok else 3)
    hcases = ([copy.deepcopy(c) for c in HISTORY_CORPUS] + [gen_history(rng) for _ in range(nhist)]) if FIXED else []

    counts = {}
    global _KNOWN_IDS
    _KNOWN_IDS = dict(getattr(res, "known_ids", {}))       # inherited by the forked workers
    with Pool(int(C.JOBS)) as pool:
        impls = []
        for r, viol, known, cnt in pool.map(_impl_and_oracle, cases, chunksize=20):
            impls.append(r)
            _merge(res, counts, viol, known, cnt)
        himpls = []
        for h, viol, known, cnt in pool.map(_history_and_oracle, hcases, chunksize=10):
            himpls.append(h)
            _merge(res, counts, viol, known, cnt)

        disagreements = 0
        regex_total, plan = 0, []
        if model_ok:
            exe = C.build_driver("c06")
            bad = check_class_tables(exe, pool)
            if bad:
                res.violation("class-tables", {"codepoints": bad[:10]}, "\\s / reference class differ from CPython",
                              no_input=True)
            regex_total, plan = regex_exhaustive(tier, exe, res, pool, proof_ok)
            lines, idx = model_lines(cases, impls, fixed=bool(FIXED))
            outs = C.run_driver(exe, lines, shards=int(C.JOBS))
            for i, m in zip(idx, outs):
                diffs = compare_model(cases[i], impls[i], m)
                if diffs:
                    disagreements += 1
                    res.violation("correspondence", public_case(cases[i]), "; ".join(diffs)[:1500], no_input=True)
            hidx = [i for i, h in enumerate(himpls) if "setup_exn" not in h]
            houts = C.run_driver(exe, [history_sx(hcases[i], himpls[i], bool(FIXED)) for i in hidx], shards=int(C.JOBS))
            for i, m in zip(hidx, houts):
                diffs = compare_history(himpls[i], m)
                if diffs:
                    disagreements += 1
                    res.violation("correspondence-history", public_case(hcases[i]), "; ".join(diffs)[:1500], no_input=True)
            # the repaired model satisfies the statement on the in-domain cases (validates fixed=true + the oracle)
            for i in idx:
                cases[i]["_loaded_rows"] = impls[i]["loaded"][0]
            dom_idx = [i for i in idx if oracle_domain(cases[i], impls[i]["loaded"][1]) is None]
            flines = [case_sx(True, cases[i]["sidecar"], impls[i]["loaded"][1],
                              [[row[j] for row in impls[i]["loaded"][0]] for j in range(len(impls[i]["loaded"][1]))],
                              len(impls[i]["loaded"][0]), impls[i]["refs"]) for i in dom_idx]
            fouts = C.run_driver(exe, flines, shards=int(C.JOBS))
            for i, m in zip(dom_idx, fouts):
                ok = m[0] == "ok"
                if ok:
                    rows, cols = impls[i]["loaded"]
                    for k, row in enumerate(rows):
                        got = C.uncps(m[1][k])
                        if not wf_delim(got) or parse_tree(got) != expected_row(cases[i], cols, row):
                            if not BLANKREF and classify_blank(cases[i], cols, row) == "C06-F8":
                                continue        # pre-d53ebab mode only (repaired defect C06-F8)
                            ok = False
                            break
                if not ok:
                    disagreements += 1
                    res.violation("fixed-model-vs-statement", public_case(cases[i]),
                                  f"repaired model does not meet the statement: {m[:2]}", no_input=True)

    hist = {}
    hist["history"] = len(hcases)
    hist["history_assemblies"] = sum(1 for c in hcases for o in c["ops"] if o[0] == "assemble")
    for c in cases:
        hist[c.get("stream", "?")] = hist.get(c.get("stream", "?"), 0) + 1
    hist.update(counts)

    def nontrivial(c, r):
        return "series" in r and any(REF_RE.search(json.dumps(c["sidecar"])) for _ in [0]) and len(r["series"]) > 0
    distinct = len({json.dumps(public_case(c), sort_keys=True) for c, r in zip(cases, impls) if nontrivial(c, r)})
    rows_total = sum(len(c["rows"]) for c in cases)
    return {
        "evaluations": len(cases) + regex_total + len(hcases),
        "history_cases": len(hcases),
        "assembly_cases": len(cases),
        "assembly_rows": rows_total,
        "replace_ref_strings": regex_total,
        "replace_ref_plan": [f"fixed={p[0]} ref={{{p[1]}}} newvalue={p[2]!r} all symbol strings up to length {p[3]}" for p in plan],
        "distinct_nontrivial": distinct,
        "rule": "assembly cases counted as non-trivial when the sidecar contains at least one curly-brace reference and "
                "the table has at least one row; replace_ref strings are counted separately (replace_ref_strings)",
        "samples": [public_case(cases[len(CORPUS) + 5]), public_case(cases[len(CORPUS) + len(gen_systematic()) + 3]),
                    public_case(cases[-len(idx_cases) - 2])],
        "exhaustive": False,
        "exhaustive_parts": "replace_ref vs re.sub: exhaustive over the 6-symbol alphabet up to the stated lengths; "
                            "cell-kind cross product (4 x 3 x 3 cells) for 0-2 references in 21 template shapes",
        "disagreements_checked": disagreements,
        "correspondence_cases": len(cases) - len(idx_cases) if model_ok else 0,
        "histogram": hist,
    }


def replay(payload):
    case = payload.get("case")
    if case and "ops" in case:
        case = {k: v for k, v in case.items() if k not in ("step", "row")}
        h = impl_history(case)
        res = C.Result(PROP)
        res.known_ids = {f["id"]: f for f in C.known_findings().get("findings", []) if f.get("property") == PROP}
        oracle_history(case, h, res, {})
        for st in h.get("steps", []):
            print("step:", st["op"], st.get("series", st.get("exn_text", "")), "fresh:", st.get("fresh", ""))
        for fid, n in sorted(res.known.items()):
            print(f"KNOWN-FINDING: property={PROP} {fid} (hit {n}x)")
        for v in res.violations:
            print("FAILS:", v["clause"], v["detail"])
        return 1 if res.violations else 0
    if not case or "sidecar" not in case:
        print("no concrete assembly input in replay:", str(payload.get("case"))[:300], str(payload.get("detail", ""))[:500])
        if case and "text" in case:
            print("replace_ref impl:", _rr(case.get("fixed", 0), case["text"], case["ref"], case["newvalue"]))
        return 1
    case = dict(case)
    case.pop("row", None)
    scratch = C.scratch_dir()
    try:
        case["_id"] = 0
        case["_scratch"] = scratch
        r = impl_case(case)
        res = C.Result(PROP)
        res.known_ids = {f["id"]: f for f in C.known_findings().get("findings", []) if f.get("property") == PROP}
        if not FIXED:
            for k, v in LEGACY_FINDINGS.items():
                res.known_ids.setdefault(k, {"id": k, "what": v})
        oracle(case, r, res, {})
        print("impl:", {k: v for k, v in r.items() if k in ("series", "series2", "df", "refs", "exn_text", "setup_exn")})
        for fid, n in sorted(res.known.items()):
            print(f"KNOWN-FINDING: property={PROP} {fid} (hit {n}x)")
        for v in res.violations:
            print("FAILS:", v["clause"], v["detail"])
        return 1 if res.violations else 0
    finally:
        shutil.rmtree(scratch, ignore_errors=True)
