"""setup_cmd: regenerate translated files, full Coq build, build every extracted driver."""
import importlib
import sys
from harness import common as C
from harness.registry import CLAIMED


def main():
    mods = {}
    for pid in sorted(CLAIMED):
        mods[pid] = importlib.import_module(f"harness.{pid.lower()}")
        if hasattr(mods[pid], "translate"):
            mods[pid].translate()
    ok, log, dt = C.coq_make(None, timeout=3000)
    print(log[-3000:])
    if not ok:
        print("SETUP: coq build failed")
        sys.exit(1)
    for pid, m in mods.items():
        for d in getattr(m, "DRIVERS", [pid.lower()]):
            C.build_driver(d)
    bad = C.audit()
    if bad:
        print("SETUP: audit", bad)
        sys.exit(1)
    print(f"SETUP ok ({dt:.0f}s coq build)")


if __name__ == "__main__":
    main()
