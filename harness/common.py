"""Shared machinery for every check: Coq build, audit, extraction drivers,
evidence, replays, known findings.  Run with /venv/bin/python, PYTHONPATH=/repo:/verif."""
import glob
import hashlib
import json
import os
import random
import re
import shutil
import subprocess
import sys
import tempfile
import time

VERIF = os.path.dirname(os.path.dirname(os.path.abspath(__file__)))
REPO = os.environ.get("VERIF_REPO", "/repo")
COQ = os.path.join(VERIF, "coq")
OCAML = os.path.join(VERIF, "ocaml")
BUILD = os.path.join(OCAML, "build")
PY = "/venv/bin/python"
JOBS = str(os.cpu_count() or 8)

AUDIT_RE = re.compile(
    r"\bAdmitted\b|\badmit\b|\bAxiom\b|\bParameter\b|\bConjecture\b|\bAdmit Obligations\b|Unset Guard|"
    r"bypass_check|type-in-type|impredicative-set|Unset Positivity|Unset Universe")

# axioms of the standard library that a theorem may depend on (named in DESIGN.md section 9)
ALLOWED_AXIOMS = {
    "functional_extensionality_dep", "FunctionalExtensionality.functional_extensionality_dep",
    "Eqdep.Eq_rect_eq.eq_rect_eq", "eq_rect_eq", "classic", "Classical_Prop.classic",
    "proof_irrelevance", "JMeq_eq", "JMeq.JMeq_eq",
}


def sh(cmd, timeout=1800, cwd=None, env=None, inp=None):
    t0 = time.time()
    try:
        p = subprocess.run(cmd, shell=isinstance(cmd, str), cwd=cwd, env=env, input=inp,
                           stdout=subprocess.PIPE, stderr=subprocess.STDOUT, timeout=timeout, text=True)
        return p.returncode, p.stdout, time.time() - t0
    except subprocess.TimeoutExpired as e:
        out = e.stdout if isinstance(e.stdout, str) else (e.stdout or b"").decode("utf8", "replace")
        return 124, out + "\n[timeout]", time.time() - t0


# ----------------------------------------------------------------------------
# Coq
# ----------------------------------------------------------------------------

def coq_files():
    out = []
    for d in ("Base", "Model", "Gen", "Proofs", "Props", "Extract"):
        out += sorted(glob.glob(os.path.join(COQ, d, "*.v")))
    return [os.path.relpath(p, COQ) for p in out]


def coq_project():
    """(Re)generate _CoqProject and Makefile when the file list changed."""
    files = coq_files()
    text = "-R . HV\n" + "\n".join(files) + "\n"
    proj = os.path.join(COQ, "_CoqProject")
    old = open(proj).read() if os.path.exists(proj) else ""
    if old != text or not os.path.exists(os.path.join(COQ, "Makefile")):
        with open(proj, "w") as f:
            f.write(text)
        rc, out, _ = sh("coq_makefile -f _CoqProject -o Makefile", cwd=COQ, timeout=120)
        if rc != 0:
            raise RuntimeError("coq_makefile failed:\n" + out)


def coq_make(targets=None, timeout=2400):
    """Full .vo build (never -vos/-vok) of the given targets (default: all)."""
    coq_project()
    os.makedirs(BUILD, exist_ok=True)
    tg = " ".join(targets) if targets else ""
    rc, out, dt = sh(f"timeout {timeout} make -j{JOBS} {tg}", cwd=COQ, timeout=timeout + 60)
    return rc == 0, out, dt


def write_if_changed(path, text):
    old = open(path).read() if os.path.exists(path) else None
    if old != text:
        os.makedirs(os.path.dirname(path), exist_ok=True)
        with open(path, "w") as f:
            f.write(text)
        return True
    return False


def props_report(prop, timeout=900):
    """Re-check Props/<prop>.v with coqc and parse theorem names and Print Assumptions.

    Returns dict(ok, theorems=[{name, assumptions:[...]}], log)."""
    src = os.path.join(COQ, "Props", f"{prop}.v")
    text = open(src).read()
    names = re.findall(r"^\s*(?:Theorem|Lemma|Example|Corollary)\s+([A-Za-z0-9_']+)", text, re.M)
    printed = re.findall(r"^\s*Print Assumptions\s+([A-Za-z0-9_'.]+)\s*\.", text, re.M)
    rc, out, dt = sh(f"timeout {timeout} coqc -R . HV Props/{prop}.v", cwd=COQ, timeout=timeout + 30)
    res = {"ok": rc == 0, "log": out[-4000:], "theorems": [], "wall_s": dt, "declared": names}
    if rc != 0:
        return res
    # split output into blocks, one per Print Assumptions, in order
    blocks = re.split(r"(?m)^(?=Closed under the global context|Axioms:)", out)
    blocks = [b for b in blocks if b.startswith("Closed under") or b.startswith("Axioms:")]
    for i, nm in enumerate(printed):
        if i >= len(blocks):
            res["theorems"].append({"name": nm, "assumptions": ["<missing output>"]})
            res["ok"] = False
            continue
        b = blocks[i]
        if b.startswith("Closed under"):
            ax = []
        else:
            ax = re.findall(r"(?m)^([A-Za-z0-9_.']+)\s*:", b)
        res["theorems"].append({"name": nm, "assumptions": ax})
    res["unprinted"] = [n for n in names if n not in printed]
    return res


def coqchk(prop, timeout=2400):
    """Independent re-check of Props/<prop>.vo and everything it depends on (thorough tier)."""
    rc, out, dt = sh(f"timeout {timeout} coqchk -silent -o -R . HV HV.Props.{prop}", cwd=COQ, timeout=timeout + 60)
    m = re.search(r"\* Axioms:(.*?)\n\s*\n\* Constants", out, re.S)
    axioms = [a.strip() for a in (m.group(1).split("\n") if m else []) if a.strip() and a.strip() != "<none>"]
    if rc == 0:
        status = "ok"
    elif rc == 124 or "[timeout]" in out:
        status = "timeout"     # recorded, not a failure: coqchk re-runs kernel computations without the VM
    else:
        status = "failed"
    return {"status": status, "axioms": axioms, "log": out[-3000:], "wall_s": round(dt, 1)}


def audit():
    """Forbidden declarations / switches anywhere in the development."""
    bad = []
    for rel in coq_files():
        p = os.path.join(COQ, rel)
        txt = open(p).read()
        # strip comments (non-nested approximation is enough: we flag conservatively on code)
        code = re.sub(r"\(\*.*?\*\)", lambda m: " " * len(m.group(0)), txt, flags=re.S)
        for m in AUDIT_RE.finditer(code):
            line = code.count("\n", 0, m.start()) + 1
            bad.append(f"{rel}:{line}:{m.group(0)}")
        # Variable/Hypothesis outside sections
        depth = 0
        for ln, l in enumerate(code.split("\n"), 1):
            if re.match(r"\s*Section\s", l):
                depth += 1
            elif re.match(r"\s*End\s", l) and depth > 0:
                depth -= 1
            elif depth == 0 and re.match(r"\s*(Variable|Variables|Hypothesis|Hypotheses|Context)\b", l):
                bad.append(f"{rel}:{ln}:Variable-outside-section")
    for f in ("Makefile.local", "_CoqProject"):
        p = os.path.join(COQ, f)
        if os.path.exists(p) and re.search(r"type-in-type|impredicative-set|-vos|-vok", open(p).read()):
            bad.append(f"{f}:flags")
    return bad


# ----------------------------------------------------------------------------
# OCaml drivers
# ----------------------------------------------------------------------------

def build_driver(name):
    """Concatenate extracted model + common glue + main and compile when stale."""
    os.makedirs(BUILD, exist_ok=True)
    model = os.path.join(BUILD, f"{name}_model.ml")
    parts = [model, os.path.join(OCAML, "common.ml"), os.path.join(OCAML, f"{name}_main.ml")]
    for p in parts:
        if not os.path.exists(p):
            raise RuntimeError(f"missing {p}")
    src = "".join(open(p).read() + "\n" for p in parts)
    allml = os.path.join(BUILD, f"{name}_all.ml")
    exe = os.path.join(BUILD, f"{name}_driver")
    if write_if_changed(allml, src) or not os.path.exists(exe):
        rc, out, _ = sh(f"ocamlfind ocamlopt -O3 -w -a {name}_all.ml -o {name}_driver 2>&1 || "
                        f"ocamlfind ocamlopt -w -a {name}_all.ml -o {name}_driver", cwd=BUILD, timeout=600)
        if rc != 0 or not os.path.exists(exe):
            raise RuntimeError("ocaml build failed:\n" + out[-3000:])
    return exe


def run_driver(exe, lines, timeout=1800, shards=None):
    """Feed one s-expression per line, return one parsed s-expression per line."""
    if not lines:
        return []
    shards = shards or (int(JOBS) if len(lines) > 2000 else 1)
    chunks = [lines[i::shards] for i in range(shards)]
    procs = []
    for ch in chunks:
        p = subprocess.Popen(["/bin/sh", "-c", f"ulimit -s unlimited 2>/dev/null; exec {exe}"],
                             stdin=subprocess.PIPE, stdout=subprocess.PIPE, text=True)
        procs.append((p, ch))
    outs = []
    import threading
    results = [None] * len(procs)

    def work(i, p, ch):
        o, _ = p.communicate("\n".join(ch) + "\n", timeout=timeout)
        results[i] = o.split("\n")[:len(ch)]
    ths = [threading.Thread(target=work, args=(i, p, ch)) for i, (p, ch) in enumerate(procs)]
    [t.start() for t in ths]
    [t.join() for t in ths]
    out = [None] * len(lines)
    for i, ch in enumerate(chunks):
        r = results[i] or []
        if len(r) < len(ch):
            r = r + ["(ERR driver-died)"] * (len(ch) - len(r))
        for j, o in enumerate(r):
            out[i + j * shards] = parse_sx(o) if o.strip() else ["ERR", "empty"]
    return out


# ----------------------------------------------------------------------------
# s-expressions: atoms are strings, lists are python lists
# ----------------------------------------------------------------------------

def to_sx(x):
    if isinstance(x, bool):
        return "1" if x else "0"
    if isinstance(x, int):
        return str(x)
    if isinstance(x, str):
        return x
    return "(" + " ".join(to_sx(y) for y in x) + ")"


def parse_sx(s):
    toks = re.findall(r"\(|\)|[^\s()]+", s)
    pos = 0

    def item():
        nonlocal pos
        t = toks[pos]
        pos += 1
        if t == "(":
            acc = []
            while toks[pos] != ")":
                acc.append(item())
            pos += 1
            return acc
        return t
    return item()


def cps(s):
    """Python str -> list of code points."""
    return [ord(c) for c in s]


def uncps(l):
    return "".join(chr(int(c)) for c in l)


# ----------------------------------------------------------------------------
# evidence / replays / known findings
# ----------------------------------------------------------------------------

def known_findings():
    p = os.path.join(VERIF, "known_findings.json")
    if not os.path.exists(p):
        return {"findings": [], "fixed": []}
    return json.load(open(p))


def write_replay(prop, payload):
    d = os.path.join(VERIF, "replays")
    os.makedirs(d, exist_ok=True)
    h = hashlib.sha1(json.dumps(payload, sort_keys=True, default=str).encode()).hexdigest()[:10]
    p = os.path.join(d, f"{prop}-{h}.json")
    with open(p, "w") as f:
        json.dump(payload, f, indent=1, default=str)
    return p


def write_evidence(prop, tier, seed, coverage, assumptions, wall, violations, level="proof"):
    d = os.path.join(VERIF, "evidence")
    os.makedirs(d, exist_ok=True)
    ev = {"property_id": prop, "tier": tier, "seed": seed, "level": level, "coverage": coverage,
          "assumptions": assumptions, "wall_s": round(wall, 2), "violations": violations}
    with open(os.path.join(d, f"{prop}.json"), "w") as f:
        json.dump(ev, f, indent=1, default=str)
    return ev


def scratch_dir(prefix="hedverif-"):
    base = os.environ.get("VERIF_SCRATCH", tempfile.gettempdir())
    return tempfile.mkdtemp(prefix=prefix, dir=base)


class Result:
    """Accumulates what a check found."""

    def __init__(self, prop):
        self.prop = prop
        self.violations = []      # dict(clause, case, detail, kind)
        self.known = {}           # finding id -> count
        self.notes = []

    def violation(self, clause, case, detail="", no_input=False):
        self.violations.append({"clause": clause, "case": case, "detail": detail, "no_input": no_input})

    def report(self, clause, case, detail="", fid=None):
        """A property failure on the implementation: known finding or new violation."""
        if fid is not None and fid in getattr(self, "known_ids", {}):
            self.known_hit(fid)
        else:
            self.violation(clause, case, detail)

    def known_hit(self, fid):
        self.known[fid] = self.known.get(fid, 0) + 1
