"""C03 -- whole COLUMNS of annotations through the column entry points: df_util.convert_to_form on a Series and on a
DataFrame (columns given / all columns), TabularInput and SpreadsheetInput .convert_to_long / .convert_to_short.

Input dimensions: the ROW LABELS of the Series/frames (default 0..n-1, offset, with gaps, a permutation, reversed,
strings, and frames re-ordered by df_util.sort_dataframe_by_onsets / sort_values, which keep their labels): every row
must get the conversion of ITS OWN cell whatever it is labelled and wherever it stands, labels and order unchanged.
One column holds SEVERAL cells; families of cells are equal up to letter case (tag names recased,
other spellings of the same tags) but differ -- or not -- in the letter case or text of a value or extension; exact
repeats; unrelated cells; empty cells; degenerate sizes (one cell, all cells identical).  Required of every entry
point, cell by cell: the converted cell is what the specification (T4) gives for each of its tags -- i.e. what
converting that cell alone gives --, other columns are untouched, long-then-short and short-then-long round trips
give the short resp. long form again.
"""
import os

from harness import common as C

VALUES = ["Go_Left", "abcDEF", "MixedCase_7", "Some Text", "x1Y", "éÉ", "Q", "3.5 mJx", "# Hz", "# degree Celsius",
          "https://example.org/Data", "12:30/13:00"]
LABEL_KINDS = ["default", "offset", "gaps", "permutation", "reversed", "strings", "sorted-by-onset"]


def make_labels(rng, n, kind):
    """Row labels of a frame with n rows."""
    if kind == "offset":
        return list(range(7, 7 + n))
    if kind == "gaps":
        return [3 * i + 1 for i in range(n)]
    if kind == "permutation":
        l = list(range(n))
        rng.shuffle(l)
        return l
    if kind == "reversed":
        return list(range(n - 1, -1, -1))
    if kind == "strings":
        return [f"r{(i * 7) % (n + 3)}_{i}" for i in range(n)]
    return list(range(n))            # default (and the frame that is then sorted by onset: labels get permuted)
EXTS = ["MyExtension", "Qzx9", "camelCaseExt", "UP_low", "Wvv8/Zed7"]


def _cased(rng, M, s):
    how = rng.choice(["upper", "lower", "random", "random"])
    return M.recase(rng, s, how)


def make_item(rng, M, voc, ns, name, value_nodes):
    """One tag of a cell: (node name, spelled form, kind, suffix)."""
    f = rng.choice(M.forms_of(name))
    if (name + "/#") in voc.nameset:
        kind, suf = "value", rng.choice(VALUES)
    else:
        kind, suf = "ext", rng.choice(EXTS)
        if not M.ext_ok(voc, name, suf):
            suf = "Qzx9"
    if rng.random() < 0.2:
        kind, suf = "none", ""
    return [name, f, kind, suf]


def variant(rng, M, voc, ns, item, mode):
    """A member of the family of an item: same node, spelling/value changed in the way `mode` says."""
    name, f, kind, suf = item
    if mode == "same":
        return [name, f, kind, suf]
    if mode == "recase-all":                 # equal up to letter case, value/extension differs in case
        return [name, _cased(rng, M, f), kind, _cased(rng, M, suf)]
    if mode == "recase-name":                # equal up to letter case, value/extension identical
        return [name, _cased(rng, M, f), kind, suf]
    if mode == "recase-value":
        return [name, f, kind, _cased(rng, M, suf)]
    if mode == "other-form":                 # another spelling of the same tag, value possibly recased
        return [name, rng.choice(M.forms_of(name)), kind, suf if rng.random() < 0.5 else _cased(rng, M, suf)]
    return [name, f, kind, suf]


def cell_of(M, voc, ns, items, grouped):
    """-> (text, expected short, expected long) of a cell made of the items."""
    texts, shorts, longs = [], [], []
    for name, sp, kind, suf in items:
        texts.append(ns + sp + ("/" + suf if kind != "none" else ""))
        e = M.expect(voc, name, sp, "none" if kind == "none" else kind, suf, ns)
        shorts.append(e["short"])
        longs.append(e["long"])
    if grouped and len(items) > 1:
        return (texts[0] + ", (" + ", ".join(texts[1:]) + ")", shorts[0] + ",(" + ",".join(shorts[1:]) + ")",
                longs[0] + ",(" + ",".join(longs[1:]) + ")")
    return ", ".join(texts), ",".join(shorts), ",".join(longs)


def make_columns(rng, M, voc, ns, n):
    plain = [nm for nm in voc.names if not nm.endswith("/#")]
    cols = []
    for _ in range(n):
        size = rng.choice([1, 2, 3, 5, 8, 12])
        cells = []
        while len(cells) < size:
            items = [make_item(rng, M, voc, ns, rng.choice(plain), None) for _ in range(rng.choice([1, 1, 2, 3]))]
            # a suffix that continues to a deeper registered form is not a value/extension: take another tag
            ok = all(k == "none" or ((sp + "/" + suf.split("/")[0]).casefold() not in voc.keys and
                                     (sp + "/" + suf).casefold() not in voc.keys)
                     for _, sp, k, suf in items)
            if not ok:
                continue
            grouped = rng.random() < 0.4
            fam = rng.choice([1, 2, 3, 4])
            for _ in range(fam):
                mode = rng.choice(["same", "recase-all", "recase-all", "recase-name", "recase-value", "other-form"])
                its = [variant(rng, M, voc, ns, it, mode) for it in items]
                ok2 = all(k == "none" or ((sp + "/" + suf.split("/")[0]).casefold() not in voc.keys and
                                          (sp + "/" + suf).casefold() not in voc.keys) for _, sp, k, suf in its)
                if ok2:
                    cells.append(cell_of(M, voc, ns, its, grouped))
            if rng.random() < 0.08:
                cells.append(("", "", ""))
        rng.shuffle(cells)
        if rng.random() < 0.1:
            cells = [cells[0]] * len(cells)          # all cells identical
        cells = cells[:max(size, 1)]
        kind = rng.choice(LABEL_KINDS)
        cols.append((cells, make_labels(rng, len(cells), kind), kind))
    return cols


def columns_worker(arg):
    """Every entry point on every column -> {entry point: [converted cells]} or {"exn": ...}"""
    spec, ns, scratch, columns = arg
    from harness.c03 import _winit, _wschema
    _winit(scratch)
    import pandas as pd
    from hed.models.df_util import convert_to_form
    from hed.models.tabular_input import TabularInput
    from hed.models.spreadsheet_input import SpreadsheetInput
    from hed.models.hed_string import HedString
    try:
        sch = _wschema(tuple(spec), ns)
    except Exception as e:  # noqa
        return [{"exn": "load:" + type(e).__name__ + ":" + str(e)[:100]}] * len(columns)
    out = []
    from hed.models.df_util import sort_dataframe_by_onsets
    for cells, labels, kind in columns:
        r = {}
        try:
            n = len(cells)
            other = [f"row{i}" for i in range(n)]
            ids = list(range(n))

            def frame(d):
                """The frame under test: the given row labels; 'sorted-by-onset': rows re-ordered by their onset with
                the package's own helper (the labels travel with the rows)."""
                f = pd.DataFrame(dict(d, _id=ids), index=labels)
                if kind == "sorted-by-onset":
                    f["onset"] = [str((i * 5) % n + 0.5) for i in range(n)]
                    f = sort_dataframe_by_onsets(f)
                return f

            def by_id(f, col):
                """The column in the order of the cells as generated, whatever the row order of the frame."""
                got = dict(zip((int(x) for x in f["_id"]), f[col]))      # (BaseInput turns every column into text)
                return [got.get(i) for i in ids]
            for form, tag in (("long_tag", "long"), ("short_tag", "short")):
                ser = pd.Series(list(cells), index=labels)
                convert_to_form(ser, sch, form)
                r["series_" + tag] = list(ser)
                r["alone_" + tag] = [HedString(c, sch).get_as_form(form) for c in cells]
                r["labels_kept"] = r.get("labels_kept", True) and list(ser.index) == labels
            df = frame({"onset": other, "HED": list(cells), "HED2": list(reversed(cells))})
            lab0, id0 = list(df.index), list(df["_id"])
            convert_to_form(df, sch, "long_tag", ["HED"])
            r["df_long"] = by_id(df, "HED")
            r["df_untouched"] = by_id(df, "HED2") == list(reversed(cells)) and list(df["_id"]) == id0
            r["rows_in_place"] = True
            convert_to_form(df, sch, "short_tag", ["HED"])
            r["df_short_of_long"] = by_id(df, "HED")
            convert_to_form(df, sch, "long_tag", ["HED"])
            r["df_long_of_short"] = by_id(df, "HED")
            r["labels_kept"] = r["labels_kept"] and list(df.index) == lab0 and len(df) == n
            df2 = pd.DataFrame({"A": list(cells), "B": list(reversed(cells))}, index=labels)
            convert_to_form(df2, sch, "short_tag")              # columns=None: every column
            r["dfall_short_A"], r["dfall_short_B"] = list(df2["A"]), list(reversed(list(df2["B"])))
            ti = TabularInput(frame({"onset": other, "HED": list(cells)}))
            ti.convert_to_long(sch)
            r["tabular_long"] = by_id(ti.dataframe, "HED")
            ti.convert_to_short(sch)
            r["tabular_short_of_long"] = by_id(ti.dataframe, "HED")
            sp = SpreadsheetInput(frame({"HED": list(cells), "note": other}), tag_columns=["HED"])
            sp.convert_to_short(sch)
            r["sheet_short"] = by_id(sp.dataframe, "HED")
            sp.convert_to_long(sch)
            r["sheet_long_of_short"] = by_id(sp.dataframe, "HED")
        except Exception as e:  # noqa
            r["exn"] = type(e).__name__ + ":" + str(e)[:150]
        out.append(r)
    return out


LONG_KEYS = ["series_long", "alone_long", "df_long", "df_long_of_short", "tabular_long", "sheet_long_of_short"]
SHORT_KEYS = ["series_short", "alone_short", "df_short_of_long", "dfall_short_A", "dfall_short_B",
              "tabular_short_of_long", "sheet_short"]


def check_columns(res, spec, ns, cols, outs):
    n = 0
    for (cells, labels, kind), r in zip(cols, outs):
        texts = [c[0] for c in cells]
        pay = {"schema": list(spec[:3]), "ns": ns, "column": texts, "row_labels": labels, "frame": kind,
               "kind": "column"}
        if "exn" in r:
            res.report("column-never-raises", pay, r["exn"])
            continue
        n += len(cells)
        want_s, want_l = [c[1] for c in cells], [c[2] for c in cells]
        bad = []
        for k in LONG_KEYS:
            if r[k] != want_l:
                i = [a != b for a, b in zip(r[k], want_l)].index(True)
                bad.append(f"{k}: cell {i} {texts[i]!r} -> {r[k][i]!r}, specification {want_l[i]!r}")
        for k in SHORT_KEYS:
            if r[k] != want_s:
                i = [a != b for a, b in zip(r[k], want_s)].index(True)
                bad.append(f"{k}: cell {i} {texts[i]!r} -> {r[k][i]!r}, specification {want_s[i]!r}")
        if not r["df_untouched"]:
            bad.append("a column that was not to be converted changed")
        if not r["labels_kept"]:
            bad.append("row labels / number of rows changed")
        if bad:
            res.report("column-conversion", pay, "; ".join(bad[:3]))
    return n


def replay(case):
    import shutil
    scratch = C.scratch_dir()
    try:
        out = columns_worker((case["schema"], case["ns"], scratch,
                              [(case["column"], case.get("row_labels", list(range(len(case["column"])))),
                                case.get("frame", "default"))]))[0]
        for k, v in out.items():
            print(" ", k, v)
        if "exn" in out:
            return 1
        bad = any(out[k] != out["alone_long"] for k in LONG_KEYS) or any(out[k] != out["alone_short"] for k in SHORT_KEYS)
        bad = bad or not out["labels_kept"] or not out["df_untouched"]
        if bad:
            print("FAILS: a cell converted inside the column differs from the same cell converted alone")
        return 1 if bad else 0
    finally:
        shutil.rmtree(scratch, ignore_errors=True)
