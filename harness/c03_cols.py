"""C03 -- whole COLUMNS of annotations through the column entry points: df_util.convert_to_form on a Series and on a
DataFrame (columns given / all columns), TabularInput and SpreadsheetInput .convert_to_long / .convert_to_short.

Input dimension: one column holds SEVERAL cells; families of cells are equal up to letter case (tag names recased,
other spellings of the same tags) but differ -- or not -- in the letter case or text of a value or extension; exact
repeats; unrelated cells; empty cells; degenerate sizes (one cell, all cells identical).  Required of every entry
point, cell by cell: the converted cell is what the specification (T4) gives for each of its tags -- i.e. what
converting that cell alone gives --, other columns are untouched, long-then-short and short-then-long round trips
give the short resp. long form again.
"""
import os

from harness import common as C

VALUES = ["Go_Left", "abcDEF", "MixedCase_7", "Some Text", "x1Y", "éÉ", "Q", "3.5 mJx"]
EXTS = ["MyExtension", "Qzx9", "camelCaseExt", "UP_low", "Wvv8/Zed7"]


def _cased(rng, M, s):
    how = rng.choice(["upper", "lower", "random", "random"])
    return M.recase(rng, s, how)


def make_item(rng, M, voc, ns, name, value_nodes):
    """One tag of a cell: (node name, spelled form, kind, suffix)."""
    f = rng.choice(M.forms_of(name))
    if (name + "/#") in voc.nameset:
        kind, suf = "value", rng.choice(VALUES)
    else:
        kind, suf = "ext", rng.choice(EXTS)
        if not M.ext_ok(voc, name, suf):
            suf = "Qzx9"
    if rng.random() < 0.2:
        kind, suf = "none", ""
    return [name, f, kind, suf]


def variant(rng, M, voc, ns, item, mode):
    """A member of the family of an item: same node, spelling/value changed in the way `mode` says."""
    name, f, kind, suf = item
    if mode == "same":
        return [name, f, kind, suf]
    if mode == "recase-all":                 # equal up to letter case, value/extension differs in case
        return [name, _cased(rng, M, f), kind, _cased(rng, M, suf)]
    if mode == "recase-name":                # equal up to letter case, value/extension identical
        return [name, _cased(rng, M, f), kind, suf]
    if mode == "recase-value":
        return [name, f, kind, _cased(rng, M, suf)]
    if mode == "other-form":                 # another spelling of the same tag, value possibly recased
        return [name, rng.choice(M.forms_of(name)), kind, suf if rng.random() < 0.5 else _cased(rng, M, suf)]
    return [name, f, kind, suf]


def cell_of(M, voc, ns, items, grouped):
    """-> (text, expected short, expected long) of a cell made of the items."""
    texts, shorts, longs = [], [], []
    for name, sp, kind, suf in items:
        texts.append(ns + sp + ("/" + suf if kind != "none" else ""))
        e = M.expect(voc, name, sp, "none" if kind == "none" else kind, suf, ns)
        shorts.append(e["short"])
        longs.append(e["long"])
    if grouped and len(items) > 1:
        return (texts[0] + ", (" + ", ".join(texts[1:]) + ")", shorts[0] + ",(" + ",".join(shorts[1:]) + ")",
                longs[0] + ",(" + ",".join(longs[1:]) + ")")
    return ", ".join(texts), ",".join(shorts), ",".join(longs)


def make_columns(rng, M, voc, ns, n):
    plain = [nm for nm in voc.names if not nm.endswith("/#")]
    cols = []
    for _ in range(n):
        size = rng.choice([1, 2, 3, 5, 8, 12])
        cells = []
        while len(cells) < size:
            items = [make_item(rng, M, voc, ns, rng.choice(plain), None) for _ in range(rng.choice([1, 1, 2, 3]))]
            # a suffix that continues to a deeper registered form is not a value/extension: take another tag
            ok = all(k == "none" or ((sp + "/" + suf.split("/")[0]).casefold() not in voc.keys and
                                     (sp + "/" + suf).casefold() not in voc.keys)
                     for _, sp, k, suf in items)
            if not ok:
                continue
            grouped = rng.random() < 0.4
            fam = rng.choice([1, 2, 3, 4])
            for _ in range(fam):
                mode = rng.choice(["same", "recase-all", "recase-all", "recase-name", "recase-value", "other-form"])
                its = [variant(rng, M, voc, ns, it, mode) for it in items]
                ok2 = all(k == "none" or ((sp + "/" + suf.split("/")[0]).casefold() not in voc.keys and
                                          (sp + "/" + suf).casefold() not in voc.keys) for _, sp, k, suf in its)
                if ok2:
                    cells.append(cell_of(M, voc, ns, its, grouped))
            if rng.random() < 0.08:
                cells.append(("", "", ""))
        rng.shuffle(cells)
        if rng.random() < 0.1:
            cells = [cells[0]] * len(cells)          # all cells identical
        cols.append(cells[:max(size, 1)])
    return cols


def columns_worker(arg):
    """Every entry point on every column -> {entry point: [converted cells]} or {"exn": ...}"""
    spec, ns, scratch, columns = arg
    from harness.c03 import _winit, _wschema
    _winit(scratch)
    import pandas as pd
    from hed.models.df_util import convert_to_form
    from hed.models.tabular_input import TabularInput
    from hed.models.spreadsheet_input import SpreadsheetInput
    from hed.models.hed_string import HedString
    try:
        sch = _wschema(tuple(spec), ns)
    except Exception as e:  # noqa
        return [{"exn": "load:" + type(e).__name__ + ":" + str(e)[:100]}] * len(columns)
    out = []
    for cells in columns:
        r = {}
        try:
            n = len(cells)
            other = [f"row{i}" for i in range(n)]
            for form, tag in (("long_tag", "long"), ("short_tag", "short")):
                ser = pd.Series(list(cells))
                convert_to_form(ser, sch, form)
                r["series_" + tag] = list(ser)
                r["alone_" + tag] = [HedString(c, sch).get_as_form(form) for c in cells]
            df = pd.DataFrame({"onset": other, "HED": list(cells), "HED2": list(reversed(cells))})
            convert_to_form(df, sch, "long_tag", ["HED"])
            r["df_long"] = list(df["HED"])
            r["df_untouched"] = list(df["onset"]) == other and list(df["HED2"]) == list(reversed(cells))
            convert_to_form(df, sch, "short_tag", ["HED"])
            r["df_short_of_long"] = list(df["HED"])
            convert_to_form(df, sch, "long_tag", ["HED"])
            r["df_long_of_short"] = list(df["HED"])
            df2 = pd.DataFrame({"A": list(cells), "B": list(reversed(cells))})
            convert_to_form(df2, sch, "short_tag")              # columns=None: every column
            r["dfall_short_A"], r["dfall_short_B"] = list(df2["A"]), list(reversed(list(df2["B"])))
            ti = TabularInput(pd.DataFrame({"onset": other, "HED": list(cells)}))
            ti.convert_to_long(sch)
            r["tabular_long"] = list(ti.dataframe["HED"])
            ti.convert_to_short(sch)
            r["tabular_short_of_long"] = list(ti.dataframe["HED"])
            sp = SpreadsheetInput(pd.DataFrame({"HED": list(cells), "note": other}), tag_columns=["HED"])
            sp.convert_to_short(sch)
            r["sheet_short"] = list(sp.dataframe["HED"])
            sp.convert_to_long(sch)
            r["sheet_long_of_short"] = list(sp.dataframe["HED"])
        except Exception as e:  # noqa
            r["exn"] = type(e).__name__ + ":" + str(e)[:150]
        out.append(r)
    return out


LONG_KEYS = ["series_long", "alone_long", "df_long", "df_long_of_short", "tabular_long", "sheet_long_of_short"]
SHORT_KEYS = ["series_short", "alone_short", "df_short_of_long", "dfall_short_A", "dfall_short_B",
              "tabular_short_of_long", "sheet_short"]


def check_columns(res, spec, ns, cols, outs):
    n = 0
    for cells, r in zip(cols, outs):
        texts = [c[0] for c in cells]
        pay = {"schema": list(spec[:3]), "ns": ns, "column": texts, "kind": "column"}
        if "exn" in r:
            res.report("column-never-raises", pay, r["exn"])
            continue
        n += len(cells)
        want_s, want_l = [c[1] for c in cells], [c[2] for c in cells]
        bad = []
        for k in LONG_KEYS:
            if r[k] != want_l:
                i = [a != b for a, b in zip(r[k], want_l)].index(True)
                bad.append(f"{k}: cell {i} {texts[i]!r} -> {r[k][i]!r}, specification {want_l[i]!r}")
        for k in SHORT_KEYS:
            if r[k] != want_s:
                i = [a != b for a, b in zip(r[k], want_s)].index(True)
                bad.append(f"{k}: cell {i} {texts[i]!r} -> {r[k][i]!r}, specification {want_s[i]!r}")
        if not r["df_untouched"]:
            bad.append("a column that was not to be converted changed")
        if bad:
            res.report("column-conversion", pay, "; ".join(bad[:3]))
    return n


def replay(case):
    import shutil
    scratch = C.scratch_dir()
    try:
        out = columns_worker((case["schema"], case["ns"], scratch, [case["column"]]))[0]
        for k, v in out.items():
            print(" ", k, v)
        if "exn" in out:
            return 1
        bad = any(out[k] != out["alone_long"] for k in LONG_KEYS) or any(out[k] != out["alone_short"] for k in SHORT_KEYS)
        if bad:
            print("FAILS: a cell converted inside the column differs from the same cell converted alone")
        return 1 if bad else 0
    finally:
        shutil.rmtree(scratch, ignore_errors=True)
