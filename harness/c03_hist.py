"""C03 -- histories: the answers of ONE schema object / ONE HedTag object must not depend on what was done with
it before (lookups, reads of forms), only on its current vocabulary / its current node, namespace and value.

(1) schema histories.  In a process of its own (so that hed-python's lru-cached schema objects start fresh):
      resolve spellings on a schema object (also spellings that are only legal extensions now and become
      library tags later)  ->  change the vocabulary the way the API offers (derive the partnered library from the
      cached standard schema: from_string of an unmerged source; merge a further library into the used object:
      load_schema / from_string with schema=)  ->  resolve the same and further spellings again.
    Every answer is compared with the extracted model on the vocabulary the object has at that moment (theorem
    C03_schema_history: after any history of lookups and merges the model's answer is resolve on the current
    table), with the specification computed from T4, and with the same sequence run in another fresh process
    WITHOUT the earlier lookups.
(2) form histories.  On one HedTag: read the forms, mutate through the public operations (replace_placeholder,
    extension setter, short_base_tag setter, copy), read again; on one HedString: definitions with a placeholder
    listed in long form, then expanded, shrunk and copied.  After every step: the forms the specification gives
    for (namespace, node, value), the four equations, and agreement with a freshly parsed tag of the same text.
"""
import os
import random
from multiprocessing import Pool

from harness import common as C
from harness import schema_xml as X

VALUE_TEXTS = ["MixedCase_7", "3.5 mJx", "some Text", "é1", "12"]


# ---------------------------------------------------------------------------------------------------------------
# workers (implementation side)
# ---------------------------------------------------------------------------------------------------------------

def _resolve(sch, texts):
    from hed.models.hed_tag import HedTag
    from harness.c03 import _tagobs
    out = []
    for t in texts:
        try:
            h = HedTag(t, sch)
            o = _tagobs(h)
            hs = HedTag(h.short_tag, sch)
            hl = HedTag(h.long_tag, sch)
            out.append([o, _tagobs(hs)[:5], _tagobs(hl)[:5], bool(h.tag_exists_in_schema())])
        except Exception as e:  # noqa
            out.append({"exn": type(e).__name__ + ":" + str(e)[:100]})
    return out


def schema_history_worker(job):
    """job = {"scratch", "ops": [...]}; returns {step label: observations} or {"exn": ...}."""
    from harness.c03 import _winit
    _winit(job["scratch"])
    from hed.schema import load_schema, from_string, load_schema_version
    data = os.path.join(C.REPO, X.SCHEMA_DIR)
    objs, out = {}, {}
    try:
        for op in job["ops"]:
            k = op[0]
            if k == "std":
                objs[op[1]] = load_schema_version(op[2])
            elif k == "file":
                objs[op[1]] = load_schema(os.path.join(data, op[2]), schema_namespace=(op[3] if len(op) > 3 else ""))
            elif k == "xml":
                objs[op[1]] = from_string(op[2], schema_format=".xml", schema_namespace=(op[3] if len(op) > 3 else ""))
            elif k == "unmerged_of":
                src = load_schema(os.path.join(data, op[2])).get_as_xml_string(save_merged=False)
                objs[op[1]] = from_string(src, schema_format=".xml")
            elif k == "merge_file":
                objs[op[1]] = load_schema(os.path.join(data, op[3]), schema=objs[op[2]])
            elif k == "merge_xml":
                objs[op[1]] = from_string(op[3], schema_format=".xml", schema=objs[op[2]])
            elif k == "resolve":
                out[op[2]] = _resolve(objs[op[1]], op[3])
            else:
                raise ValueError(k)
    except Exception as e:  # noqa
        out["exn"] = f"{op[0]}:{type(e).__name__}:{str(e)[:200]}"
    return out


def _forms(h):
    return {"short": h.short_tag, "long": h.long_tag, "base": h.base_tag, "sbase": h.short_base_tag,
            "ext": h.extension, "str": str(h), "node": h._schema_entry.name if h._schema_entry else None}


def tag_history_worker(job):
    """job = {"scratch", "spec", "ns", "items": [{"text", "ops"}]}.
    After every op: the forms of the object, of fresh tags built from its short and its long form, and of the copy
    taken earlier (which must not have moved)."""
    from harness.c03 import _winit, _wschema
    _winit(job["scratch"])
    from hed.models.hed_tag import HedTag
    out = []
    try:
        sch = _wschema(tuple(job["spec"]), job["ns"])
    except Exception as e:  # noqa
        return [{"exn": "load:" + type(e).__name__ + ":" + str(e)[:100]}] * len(job["items"])
    for it in job["items"]:
        rec = []
        try:
            h = HedTag(it["text"], sch)
            kept = None
            for op in it["ops"]:
                if op[0] == "read":
                    _forms(h)
                elif op[0] == "replace_placeholder":
                    h.replace_placeholder(op[1])
                elif op[0] == "set_extension":
                    h.extension = op[1]
                elif op[0] == "set_short_base":
                    h.short_base_tag = op[1]
                elif op[0] == "copy":
                    kept = (h, _forms(h))
                    h = h.copy()
                f = _forms(h)
                step = {"op": op, "forms": f,
                        "of_short": _forms(HedTag(f["short"], sch)), "of_long": _forms(HedTag(f["long"], sch))}
                if kept is not None:
                    step["kept_now"] = _forms(kept[0])
                    step["kept_then"] = kept[1]
                rec.append(step)
            out.append(rec)
        except Exception as e:  # noqa
            out.append({"exn": type(e).__name__ + ":" + str(e)[:100], "done": rec})
    return out


def string_history_worker(job):
    """Definitions with a placeholder: gathered, listed in long form, expanded, shrunk, copied."""
    from harness.c03 import _winit, _wschema
    _winit(job["scratch"])
    from hed.models.hed_string import HedString
    from hed.models.definition_dict import DefinitionDict
    try:
        sch = _wschema(tuple(job["spec"]), job["ns"])
        dd = DefinitionDict([d for d, _, _ in job["defs"]], sch)
        if job["list_first"]:
            for de in dd.defs.values():
                de.contents.get_as_long()
                de.contents.get_as_short()
    except Exception as e:  # noqa
        return [{"exn": "setup:" + type(e).__name__ + ":" + str(e)[:150]}] * len(job["defs"])
    out = []
    for _, use, _ in job["defs"]:
        try:
            hs = HedString(use, sch, dd)
            r = {"short0": hs.get_as_short(), "long0": hs.get_as_long()}
            hs.expand_defs()
            r["short1"], r["long1"] = hs.get_as_short(), hs.get_as_long()
            r["re_long1"] = HedString(r["short1"], sch).get_as_long()
            r["re_short1"] = HedString(r["long1"], sch).get_as_short()
            cp = hs.copy()
            hs.shrink_defs()
            r["short2"], r["long2"] = hs.get_as_short(), hs.get_as_long()
            r["copy_short"], r["copy_long"] = cp.get_as_short(), cp.get_as_long()
            out.append(r)
        except Exception as e:  # noqa
            out.append({"exn": type(e).__name__ + ":" + str(e)[:150]})
    return out


# ---------------------------------------------------------------------------------------------------------------
# (1) schema histories
# ---------------------------------------------------------------------------------------------------------------

def _fragment(rng, i, voc, M):
    """A second library in MERGED file format (the form load_schema(..., schema=) accepts): the chain of standard
    ancestors of the rooted targets (they are skipped on merging) around library nodes carrying inLibrary."""
    def ren(nodes):
        return [((nm if nm == "#" else "Lb2-" + nm), ren(kids)) for nm, kids in nodes]
    tree = ren(M.gen_tree(rng, wellformed=True))
    seen, roots = set(), []
    for r in tree:
        if r[0].casefold() not in seen:
            seen.add(r[0].casefold())
            roots.append(r)
    lib_attr = "<attribute><name>inLibrary</name><value>genb</value></attribute>"

    def lib_xml(nodes, rooted=None):
        out = []
        for nm, kids in nodes:
            a = lib_attr
            if nm == "#":
                a += "<attribute><name>takesValue</name></attribute>"
            if rooted:
                a += f"<attribute><name>rooted</name><value>{rooted}</value></attribute>"
            out.append(f"<node><name>{nm}</name>{a}{lib_xml(kids)}</node>")
        return "".join(out)
    cands = [n for n in voc.names if not n.endswith("/#") and "Lib-" not in n and "inLibrary" not in n]
    body = ""
    for r in roots:
        if rng.random() < 0.75:
            tgt = rng.choice(cands).split("/")
            inner = lib_xml([r], rooted=tgt[-1])
            for comp in reversed(tgt):
                inner = f"<node><name>{comp}</name>{inner}</node>"
            body += inner
        else:
            body += lib_xml([r])
    xml = (f'<?xml version="1.0" ?><HED version="1.0.{i}" library="genb" withStandard="8.3.0">'
           f'<schema>{body}</schema>{M.TAIL}</HED>')
    path = os.path.join(M._SCRATCH, f"frag_{i}.xml")
    with open(path, "w") as f:
        f.write(xml)
    s = X.load_file(path)
    os.remove(path)
    return xml, [t["long"] for t in s["tags"] if "inLibrary" in t["attrs"]]


def _lib_cases(rng, M, voc, lib_names, n_other, ns=""):
    """Spellings of the (future) library tags in every form, plus some standard spellings."""
    import copy
    keep = set(lib_names)
    sub = copy.copy(voc)
    sub.names = [n for n in voc.names if n in keep]
    cases = M.structured_cases(rng, sub, ns, 5)      # 5 of the 12 (case, suffix kind) combinations per form
    rest = [n for n in voc.names if n not in keep]
    sub2 = copy.copy(voc)
    sub2.names = rng.sample(rest, min(len(rest), n_other))
    cases += M.structured_cases(rng, sub2, ns, 1)
    return cases


def schema_jobs(rng, tier, M, vocs, scratch):
    """-> list of scenarios: {"id", "ops"(with pre lookups), "ops_fresh", "steps": {label: (names, cases, wf)}}"""
    quick = tier == "quick"
    A = M.allsch()
    scen = []
    v83, v82 = vocs["8_3_0"], vocs["8_2_0"]

    def mk(sid, ops, steps, ns=""):
        fresh = [op for op in ops if not (op[0] == "resolve" and op[2].startswith("pre"))]
        scen.append({"id": sid, "ops": ops, "ops_fresh": fresh, "steps": steps, "ns": ns})

    # A1: a generated unmerged library derived from the already USED cached standard schema
    for i in range(3 if quick else 8):
        spec, names = M.gen_schema(rng, 200000 + i, std_voc=v83)
        voc = M.Vocab(spec[1], names, True)
        lib_names = [n for n in names if "Lib-" in n]
        cases = _lib_cases(rng, M, voc, lib_names, 60)
        texts = [c["text"] for c in cases]
        mk(f"derive-gen{i}",
           [("std", "base", "8.3.0"), ("resolve", "base", "pre-base", texts), ("xml", "lib", spec[2]),
            ("resolve", "lib", "lib", texts), ("resolve", "base", "post-base", texts)],
           {"pre-base": (v83, None), "lib": (voc, cases), "post-base": (v83, None)})
    # A2: a bundled partnered library, regenerated as unmerged source, derived from the used cached standard
    for key, std, stdv in ([("testlib_2_0_0", "8.2.0", v82)] if quick else
                           [("testlib_2_0_0", "8.2.0", v82), ("testlib_3_0_0", "8.2.0", v82),
                            ("score_1_1_0", "8.2.0", v82), ("score_2_0_0", "8.3.0", v83)]):
        voc = vocs[key]
        lib_names = [t["long"] for t in A[key]["tags"] if "inLibrary" in t["attrs"]]
        if len(lib_names) > 60:
            lib_names = rng.sample(lib_names, 60)
        cases = _lib_cases(rng, M, voc, lib_names, 60)
        texts = [c["text"] for c in cases]
        mk(f"derive-{key}",
           [("std", "base", std), ("resolve", "base", "pre-base", texts), ("unmerged_of", "lib", A[key]["file"]),
            ("resolve", "lib", "lib", texts), ("resolve", "base", "post-base", texts)],
           {"pre-base": (stdv, None), "lib": (voc, cases), "post-base": (stdv, None)})
    # B1: a further bundled library merged into a USED schema object -- plain and already namespaced
    pairs = [c for c in M.mergeable_sets() if len(c) == 2]
    for pre in ("", rng.choice(M.PREFIXES)):
        a, b = ("testlib_2_0_0", "score_1_1_0") if (quick and not pre) else rng.choice(pairs)
        ns = pre + ":" if pre else ""
        extra = [t["long"] for t in X.schema_for_use(b, A)["tags"] if "inLibrary" in t["attrs"]]
        names = vocs[a].names + extra
        voc = M.Vocab(a + "+" + b, names, True)
        cases = _lib_cases(rng, M, voc, rng.sample(extra, min(len(extra), 30 if quick else 250)), 60, ns)
        texts = [c["text"] for c in cases]
        mk(f"merge-{pre}:{a}+{b}",
           [("file", "a", A[a]["file"], pre), ("resolve", "a", "pre-a", texts),
            ("merge_file", "m", "a", A[b]["file"]), ("resolve", "m", "merged", texts)],
           {"pre-a": (vocs[a], None), "merged": (voc, cases)}, ns)
    # B2: a generated second library (merged file format) merged into a used, derived library object
    for i in range(3 if quick else 8):
        spec, names1 = M.gen_schema(rng, 300000 + i, std_voc=v83)
        voc1 = M.Vocab(spec[1], names1, True)
        xml2, extra = _fragment(rng, 300000 + i, voc1, M)
        voc2 = M.Vocab(spec[1] + "+frag", names1 + extra, True)
        pre = rng.choice(["", ""] + M.PREFIXES)
        ns = pre + ":" if pre else ""
        cases = _lib_cases(rng, M, voc2, extra + [n for n in names1 if "Lib-" in n], 40, ns)
        texts = [c["text"] for c in cases]
        mk(f"merge-gen{i}-{pre}",
           [("xml", "l1", spec[2], pre), ("resolve", "l1", "pre-l1", texts), ("merge_xml", "m", "l1", xml2),
            ("resolve", "m", "merged", texts)],
           {"pre-l1": (voc1, None), "merged": (voc2, cases)}, ns)
    for s in scen:
        for key in ("ops", "ops_fresh"):
            s[key] = {"scratch": scratch, "ops": s[key]}
    return scen


def run_schema_histories(res, rng, tier, M, vocs, scratch, exe):
    """Returns (evaluations, model comparisons, disagreements)."""
    scen = schema_jobs(rng, tier, M, vocs, scratch)
    jobs = [s["ops"] for s in scen] + [s["ops_fresh"] for s in scen]
    with Pool(min(int(C.JOBS), len(jobs)), maxtasksperchild=1) as pool:
        outs = pool.map(schema_history_worker, jobs, chunksize=1)
    n = len(scen)
    evals = corr = dis = 0
    sessions, smap = [], []
    for si, s in enumerate(scen):
        used, fresh = outs[si], outs[n + si]
        pay0 = {"scenario": s["id"], "ops": [list(o) if o[0] != "resolve" else [o[0], o[1], o[2]]
                                             for o in s["ops"]["ops"]], "kind": "schema-history"}
        if "exn" in used or "exn" in fresh:
            res.report("history-never-raises", pay0, str(used.get("exn") or fresh.get("exn")))
            continue
        if "pre-base" in used and used["pre-base"] != used.get("post-base"):
            res.report("history-independent", dict(pay0, step="post-base"),
                       "the standard schema object answers differently after a library was derived from it")
            dis += 1
        for label, (voc, cases) in s["steps"].items():
            texts = [o for o in s["ops"]["ops"] if o[0] == "resolve" and o[2] == label][0][3]
            got = used[label]
            evals += len(got)
            # (a) the same sequence without the earlier lookups, in a process of its own
            if label in fresh:
                for t, a, b in zip(texts, got, fresh[label]):
                    if a != b:
                        res.report("history-independent", dict(pay0, step=label, text=t),
                                   f"after earlier lookups: {a[0] if not isinstance(a, dict) else a} ; "
                                   f"fresh object: {b[0] if not isinstance(b, dict) else b}")
                        dis += 1
                        break
            # (b) the statement itself: specification from T4 and the equations
            for ci, (t, r) in enumerate(zip(texts, got)):
                if isinstance(r, dict):
                    res.report("never-raises", dict(pay0, step=label, text=t), r["exn"])
                    continue
                bad = M.check_equations(r)
                if cases is not None and "exp" in cases[ci]:
                    bad = M.check_spec(cases[ci], r) + bad
                if bad:
                    res.report("history-spelling-identified", dict(pay0, step=label, text=t), "; ".join(bad[:3]))
                    dis += 1
                    break
            # (c) the model on the vocabulary the object has at this step (post-base must equal pre-base, see above)
            if label == "post-base":
                continue
            sessions.append((voc.names, s.get("ns", ""), texts, False))
            smap.append((si, label))
    if exe is not None and sessions:
        for (si, label), (hdr, answers) in zip(smap, M.model_sessions(exe, sessions)):
            s = scen[si]
            texts = [o for o in s["ops"]["ops"] if o[0] == "resolve" and o[2] == label][0][3]
            got = outs[si][label]
            for t, r, m in zip(texts, got, answers):
                corr += 1
                if isinstance(r, dict):
                    continue
                mo = M.model_obs(m)
                if mo != r[0]:
                    dis += 1
                    d = [f"{k}: impl={a!r} model={b!r}" for k, a, b in zip(M.OBS, r[0], mo) if a != b]
                    res.report("history-correspondence", {"scenario": s["id"], "step": label, "text": t,
                                                          "ops": [list(o) for o in s["ops"]["ops"]
                                                                  if o[0] != "resolve"],
                                                          "kind": "schema-history"}, "; ".join(d))
                    break
    return evals, corr, dis, len(scen)


# ---------------------------------------------------------------------------------------------------------------
# (2) form histories
# ---------------------------------------------------------------------------------------------------------------

def tag_items(rng, M, voc, ns, n, takes_value):
    """Histories on one HedTag with the state (node, value) the specification gives after every step."""
    values = [nm for nm in voc.names if nm.endswith("/#") and nm in takes_value]
    plain = [nm for nm in voc.names if not nm.endswith("/#") and (nm + "/#") not in voc.nameset]
    items = []
    for _ in range(n):
        kind = rng.random()
        if kind < 0.6:
            name = rng.choice(values)                       # 'X/#' spelled explicitly: the placeholder tag
            f = M.recase(rng, rng.choice(M.forms_of(name)), rng.choice(M.CASES))
            node, ext, text = name, "/#", ns + f
        else:
            name = rng.choice(plain)
            f = M.recase(rng, rng.choice(M.forms_of(name)), rng.choice(M.CASES))
            node, ext, text = name, "/Qzx9", ns + f + "/Qzx9"
        ops, states = [], []
        for _ in range(rng.randint(2, 5)):
            r = rng.random()
            if r < 0.3:
                op = ("read",)
            elif r < 0.55:
                v = rng.choice(VALUE_TEXTS)
                op = ("replace_placeholder", v)
                if "#" in text or "#" in ext:
                    ext = ext.replace("#", v)
            elif r < 0.75:
                v = rng.choice(VALUE_TEXTS + ["#"])
                op = ("set_extension", v)
                ext = "/" + v
            elif r < 0.88:
                if node.endswith("/#"):
                    other = rng.choice(values)
                else:
                    other = rng.choice(plain)
                op = ("set_short_base", voc.short[other])
                node = other
            else:
                op = ("copy",)
            ops.append(op)
            states.append((node, ext))
        items.append({"text": text, "ops": ops, "states": states})
    return items


def check_tag_histories(res, M, voc, spec, ns, items, outs):
    n = 0
    for it, rec in zip(items, outs):
        pay = {"schema": list(spec[:3]), "ns": ns, "text": it["text"], "ops": [list(o) for o in it["ops"]],
               "kind": "tag-history"}
        if isinstance(rec, dict):
            res.report("tag-history-never-raises", pay, rec["exn"])
            continue
        for step, (node, ext) in zip(rec, it["states"]):
            n += 1
            f = step["forms"]
            want = {"short": ns + voc.short[node] + ext, "long": ns + voc.long_base[node] + ext,
                    "base": voc.long_base[node], "sbase": voc.short[node], "ext": ext[1:], "node": node}
            bad = [f"{k}: impl={f[k]!r} spec={want[k]!r}" for k in want if f[k] != want[k]]
            if f["str"] != f["short"]:
                bad.append(f"str={f['str']!r} != short={f['short']!r}")
            # the four equations on the object as it is now; a freshly parsed tag of the same text must agree
            # (only when the text re-identifies the same node: the value is not '#'-free text that is a tag)
            a, b = step["of_short"], step["of_long"]
            if a["long"] != f["long"] or b["short"] != f["short"] or a["short"] != f["short"] or b["long"] != f["long"]:
                bad.append(f"equations: long(short)={a['long']!r} short(long)={b['short']!r} vs "
                           f"long={f['long']!r} short={f['short']!r}")
            if "kept_now" in step and step["kept_now"] != step["kept_then"]:
                bad.append("the original moved after its copy was mutated")
            if bad:
                res.report("tag-history-forms", dict(pay, after=list(step["op"])), "; ".join(bad[:3]))
                break
    return n


def string_jobs(rng, M, voc, n):
    """(definition text, use text, expectations) for value-taking tags."""
    skip = {"Def", "Def-expand", "Definition"}
    values = [nm for nm in voc.names if nm.endswith("/#") and voc.short[nm] not in skip]
    dexp = [nm for nm in voc.names if voc.short[nm] == "Def-expand" and nm.endswith("/#")]
    dd = [nm for nm in voc.names if voc.short[nm] == "Def" and nm.endswith("/#")]
    if not dexp or not dd:
        return []
    out = []
    for i, nm in enumerate(rng.sample(values, min(n, len(values)))):
        v = rng.choice(["MixedCase_7", "12", "abc"])
        sp = M.recase(rng, rng.choice(M.forms_of(nm)), rng.choice(["asis", "lower"]))
        d = f"(Definition/MyDef{i}/#, ({sp}))"
        use = f"Def/MyDef{i}/{v}"
        exp = {"short1": f"(Def-expand/MyDef{i}/{v},({voc.short[nm]}/{v}))",
               "long1": f"({voc.long_base[dexp[0]]}/MyDef{i}/{v},({voc.long_base[nm]}/{v}))",
               "short2": f"Def/MyDef{i}/{v}", "long2": f"{voc.long_base[dd[0]]}/MyDef{i}/{v}"}
        out.append((d, use, exp))
    return out


def check_string_histories(res, spec, ns, defs, outs, listed):
    n = 0
    for (d, use, exp), r in zip(defs, outs):
        n += 1
        pay = {"schema": list(spec[:3]), "ns": ns, "definition": d, "text": use, "kind": "string-history",
               "listed_in_long_form_first": listed}
        if "exn" in r:
            res.report("string-history-never-raises", pay, r["exn"])
            continue
        want = dict(exp, short0=exp["short2"], long0=exp["long2"], re_long1=exp["long1"], re_short1=exp["short1"],
                    copy_short=exp["short1"], copy_long=exp["long1"])
        bad = [f"{k}: impl={r[k]!r} spec={want[k]!r}" for k in want if r.get(k) != want[k]]
        if bad:
            res.report("string-history-forms", pay, "; ".join(bad[:3]))
    return n


def run_form_histories(res, rng, tier, M, vocs, scratch):
    quick = tier == "quick"
    A = M.allsch()
    jobs, meta = [], []
    for key, ns in (("8_3_0", ""), ("testlib_2_0_0", "ts:")) if quick else \
            [(k, ns) for k in M.EXPECTED for ns in ("", "ts:")]:
        spec = ("file", key, A[key]["file"])
        tv = {t["long"] for t in X.schema_for_use(key, A)["tags"] if "takesValue" in t["attrs"]}
        items = tag_items(rng, M, vocs[key], ns, 400 if quick else 1500, tv)
        for a in range(0, len(items), 200):
            jobs.append((tag_history_worker, {"scratch": scratch, "spec": spec, "ns": ns,
                                              "items": [{"text": i["text"], "ops": i["ops"]} for i in items[a:a + 200]]}))
            meta.append(("tag", key, spec, ns, items[a:a + 200]))
        if ns == "":
            for listed in (True, False):
                defs = string_jobs(rng, M, vocs[key], 40 if quick else 120)
                if defs:
                    jobs.append((string_history_worker, {"scratch": scratch, "spec": spec, "ns": ns, "defs": defs,
                                                         "list_first": listed}))
                    meta.append(("string", key, spec, ns, defs, listed))
    with Pool(min(int(C.JOBS), max(1, len(jobs)))) as pool:
        outs = pool.map(_call, jobs, chunksize=1)
    n = 0
    for m, o in zip(meta, outs):
        if m[0] == "tag":
            n += check_tag_histories(res, M, vocs[m[1]], m[2], m[3], m[4], o)
        else:
            n += check_string_histories(res, m[2], m[3], m[4], o, m[5])
    return n


def _call(fa):
    return fa[0](fa[1])


# ---------------------------------------------------------------------------------------------------------------
# replay
# ---------------------------------------------------------------------------------------------------------------

def replay(case):
    from harness import c03 as M
    scratch = C.scratch_dir()
    import shutil
    try:
        if case["kind"] == "tag-history":
            out = tag_history_worker({"scratch": scratch, "spec": case["schema"], "ns": case["ns"],
                                      "items": [{"text": case["text"], "ops": [tuple(o) for o in case["ops"]]}]})
            print("text:", repr(case["text"]), "ops:", case["ops"])
            for st in (out[0] if isinstance(out[0], list) else [out[0]]):
                print(" ", st)
            bad = any(isinstance(o, dict) for o in out) or any(
                s["of_short"]["long"] != s["forms"]["long"] or s["of_long"]["short"] != s["forms"]["short"]
                for s in out[0])
            return 1 if bad else 0
        if case["kind"] == "string-history":
            out = string_history_worker({"scratch": scratch, "spec": case["schema"], "ns": case["ns"],
                                         "defs": [(case["definition"], case["text"], {})],
                                         "list_first": case.get("listed_in_long_form_first", True)})
            print(out)
            r = out[0]
            return 1 if ("exn" in r or r["re_long1"] != r["long1"] or r["re_short1"] != r["short1"]) else 0
        print("schema history", case.get("scenario"), "step", case.get("step"), "text", repr(case.get("text")))
        print("operations:", [o[:2] if o[0] in ("xml", "merge_xml") else o for o in case.get("ops", [])])
        ops = []
        for o in case.get("ops", []):
            ops.append(tuple(o))
        if not ops or "text" not in case:
            return 1
        # re-run the structural operations with the lookup before and after each of them, and -- in another
        # fresh process -- with the lookups only at the end
        full, fresh, seen = [], [], []
        for o in ops:
            if o[0] == "resolve":
                continue
            for nm in seen:
                full.append(("resolve", nm, f"pre-{nm}-{len(full)}", [case["text"]]))
            full.append(o)
            fresh.append(o)
            seen.append(o[1])
        for nm in seen:
            full.append(("resolve", nm, f"final-{nm}", [case["text"]]))
            fresh.append(("resolve", nm, f"final-{nm}", [case["text"]]))
        with Pool(2, maxtasksperchild=1) as pool:
            out, ref = pool.map(schema_history_worker, [{"scratch": scratch, "ops": full},
                                                        {"scratch": scratch, "ops": fresh}])
        bad = False
        for k, v in out.items():
            print(" ", k, v)
            if k == "exn":
                bad = True
            elif isinstance(v, list) and v and not isinstance(v[0], dict) and M.check_equations(v[0]):
                bad = True
            if k.startswith("final-") and ref.get(k) != v:
                print("   FAILS: an object without the earlier lookups answers", ref.get(k))
                bad = True
        return 1 if bad else 0
    finally:
        shutil.rmtree(scratch, ignore_errors=True)
