"""Translator T4: every bundled schema XML read with xml.etree.ElementTree, INDEPENDENTLY of hed-python.

    load_file(path)          -> schema dict (see below), exactly what the file says (file order, file nesting)
    load_all()               -> {module_suffix: schema dict} for every  <REPO>/hed/schema/schema_data/*.xml
    merged_view(lib, std)    -> the view hed-python's loader builds for a partnered (withStandard) library schema
                                that is stored UNMERGED: standard tags first, then the library tags, every library
                                root node carrying a `rooted` attribute re-parented under the standard node of that
                                (short) name, `inLibrary=<library>` added to every library entry.
    schema_for_use(key, all) -> the tag vocabulary a user of that schema file gets (merged view when needed)
    emit_coq(schema, module) -> text of coq/Gen/Schema_<v>.v (Gallina data, code-point strings)
    dump_sexp(schema)        -> one-line s-expression of the tag table for the OCaml drivers

Schema dict:
  {"file", "version", "library", "withStandard", "unmerged"(bool), "header"(all root attributes),
   "tags": [{"long": "A/B/C" | "A/B/#", "short": "C" | "#", "attrs": {name: [values] | True},
             "takes_value_child": bool (a direct child named '#'), "description": str|None}],   # document order
   "unit_classes": [{"name","attrs","description","units":[{"name","attrs","description"}]}],
   "unit_modifiers": [...], "value_classes": [...], "schema_attributes": [...], "properties": [...]}
   (the last four: [{"name","attrs","description"}]; for schema_attributes/properties `attrs` are the <property>s)

What is implemented / what is not (fail closed = ValueError):
  * bundled partnered library schemas (score 1.1.0/2.0.0, testlib 2.x/3.0.0) are all stored MERGED (no `unmerged`
    header attribute): they are read as they stand, and it is checked that `rooted` only occurs on non-root nodes
    whose parent is the named standard node (what the loader demands of a merged file).
  * merged_view re-parents exactly like SchemaLoaderXML._add_tags_recursive + SchemaLoader.find_rooted_entry for
    unmerged files: rooted only on root nodes, the target must exist in the standard schema and not be a library
    node; descendants follow their root.  Non-tag sections of the library are appended when the name is new
    (unit classes: units of an attribute-less placeholder class are added to the existing class).
  * names are required to be non-empty, free of '/', and '#' nodes must be leaves without siblings named '#'.
"""
import glob
import json
import os
import re
import xml.etree.ElementTree as ET

from harness import common as C

SCHEMA_DIR = "hed/schema/schema_data"

SECTION_ELEMENTS = {  # section element -> (definition element, attribute element)
    "unit_classes": ("unitClassDefinitions", "unitClassDefinition", "attribute"),
    "unit_modifiers": ("unitModifierDefinitions", "unitModifierDefinition", "attribute"),
    "value_classes": ("valueClassDefinitions", "valueClassDefinition", "attribute"),
    "schema_attributes": ("schemaAttributeDefinitions", "schemaAttributeDefinition", "property"),
    "properties": ("propertyDefinitions", "propertyDefinition", "property"),
}
KNOWN_TOP = {"prologue", "schema", "epilogue", "unitClassDefinitions", "unitModifierDefinitions",
             "valueClassDefinitions", "schemaAttributeDefinitions", "propertyDefinitions"}


def _text(el, name, required=False, where=""):
    ch = el.find(name)
    if ch is None:
        if required:
            raise ValueError(f"T4: <{name}> missing in {where}")
        return None
    if ch.text is None:
        if required:
            raise ValueError(f"T4: empty <{name}> in {where}")
        return None
    return ch.text


def _attrs(el, attr_tag, where):
    """{name: [values] | True}; a repeated attribute name keeps the last occurrence (dict assignment in the loader)."""
    out = {}
    for a in el:
        if a.tag != attr_tag:
            continue
        nm = _text(a, "name", True, where)
        vals = []
        for v in a.iter("value"):
            if v.text is None:
                raise ValueError(f"T4: empty <value> of {nm} in {where}")
            vals.append(v.text)
        out[nm] = vals if vals else True
    return out


def _entry(el, attr_tag, where):
    nm = _text(el, "name", True, where)
    return {"name": nm, "attrs": _attrs(el, attr_tag, f"{where}:{nm}"), "description": _text(el, "description")}


def _walk_nodes(parent_el, parents, out, where):
    seen_hash = False
    for node in parent_el.findall("node"):
        nm = _text(node, "name", True, f"{where}:{'/'.join(parents)}")
        if nm == "" or "/" in nm:
            raise ValueError(f"T4: bad node name {nm!r} under {'/'.join(parents)!r} in {where}")
        kids = node.findall("node")
        if nm == "#":
            if kids or seen_hash or not parents:
                raise ValueError(f"T4: '#' node with children / repeated / at top level under {parents} in {where}")
            seen_hash = True
        long = "/".join(parents + [nm])
        out.append({"long": long, "short": nm, "attrs": _attrs(node, "attribute", f"{where}:{long}"),
                    "takes_value_child": any(_text(k, "name") == "#" for k in kids),
                    "description": _text(node, "description")})
        _walk_nodes(node, parents + [nm], out, where)


def load_file(path):
    root = ET.parse(path).getroot()
    where = os.path.basename(path)
    if root.tag != "HED":
        raise ValueError(f"T4: root element {root.tag!r} in {where}")
    for ch in root:
        if ch.tag not in KNOWN_TOP:
            raise ValueError(f"T4: unknown top-level element <{ch.tag}> in {where}")
    hdr = dict(root.attrib)
    ver = hdr.get("version")
    if not ver or not re.fullmatch(r"\d+\.\d+\.\d+", ver):
        raise ValueError(f"T4: bad version {ver!r} in {where}")
    sch = {"file": where, "version": ver, "library": hdr.get("library", ""),
           "withStandard": hdr.get("withStandard", ""), "unmerged": bool(hdr.get("unmerged", "")),
           "header": {k: v for k, v in hdr.items() if not k.startswith("{")}, "tags": []}
    sec = root.findall("schema")
    if len(sec) != 1:
        raise ValueError(f"T4: {len(sec)} <schema> sections in {where}")
    _walk_nodes(sec[0], [], sch["tags"], where)
    for key, (sec_el, def_el, attr_el) in SECTION_ELEMENTS.items():
        items = []
        secs = root.findall(sec_el)
        if len(secs) > 1:
            raise ValueError(f"T4: repeated <{sec_el}> in {where}")
        for d in (secs[0].findall(def_el) if secs else []):
            e = _entry(d, attr_el, where)
            if key == "unit_classes":
                e["units"] = [_entry(u, "attribute", where) for u in d.findall("unit")]
            items.append(e)
        sch[key] = items
    _check_rooted_in_merged_file(sch)
    return sch


def _check_rooted_in_merged_file(sch):
    """What find_rooted_entry demands of a file that is loaded as merged (no `unmerged` attribute)."""
    if sch["unmerged"] and sch["withStandard"]:
        return
    for t in sch["tags"]:
        r = t["attrs"].get("rooted")
        if r is None:
            continue
        if not sch["withStandard"]:
            # the standard schemas 8.2.0/8.3.0 only DEFINE the attribute; a use on a tag would be refused
            raise ValueError(f"T4: rooted tag {t['long']} in a schema without withStandard ({sch['file']})")
        if r is True or len(r) != 1 or "/" not in t["long"]:
            raise ValueError(f"T4: rooted attribute shape on {t['long']} in {sch['file']}")
        parent_short = t["long"].split("/")[-2]
        if parent_short.casefold() != r[0].casefold():
            raise ValueError(f"T4: rooted={r[0]} but parent is {parent_short} for {t['long']} in {sch['file']}")


def module_suffix(sch):
    v = sch["version"].replace(".", "_")
    return f"{sch['library']}_{v}" if sch["library"] else v


def load_all(repo=None):
    repo = repo or C.REPO
    files = sorted(glob.glob(os.path.join(repo, SCHEMA_DIR, "*.xml")))
    if not files:
        raise ValueError("T4: no bundled schema files found under " + os.path.join(repo, SCHEMA_DIR))
    out = {}
    for f in files:
        s = load_file(f)
        k = module_suffix(s)
        if k in out:
            raise ValueError(f"T4: two files for schema {k}")
        out[k] = s
    return out


def merged_view(lib, std):
    """Partnered library stored unmerged + its standard schema -> the vocabulary the loader builds (see module doc)."""
    if not (lib["withStandard"] and lib["unmerged"]):
        raise ValueError("merged_view: library schema is not an unmerged partnered schema")
    if std["library"] or std["version"] != lib["withStandard"]:
        raise ValueError("merged_view: wrong standard schema")
    forms = {}   # folded form -> tag, as the loader's lookup (schema.tags.get(rooted_tag))
    for t in std["tags"]:
        parts = t["long"].split("/")
        for i in range(len(parts)):
            f = "/".join(parts[i:])
            if f != "#":
                forms.setdefault(f.casefold(), t)
    tags = [dict(t) for t in std["tags"]]
    prefix = {}  # library root name -> replacement path
    for t in lib["tags"]:
        parts = t["long"].split("/")
        r = t["attrs"].get("rooted")
        if r is not None:
            if len(parts) != 1:
                raise ValueError(f"merged_view: rooted tag {t['long']} is not a root node")
            if r is True or len(r) != 1:
                raise ValueError(f"merged_view: rooted attribute of {t['long']} is not a string")
            tgt = forms.get(r[0].casefold())
            if tgt is None or "inLibrary" in tgt["attrs"]:
                raise ValueError(f"merged_view: rooted target {r[0]} not in the standard schema")
            prefix[parts[0]] = tgt["long"].split("/") + [parts[0]]
        new = dict(t)
        new["attrs"] = dict(t["attrs"])
        new["attrs"].setdefault("inLibrary", [lib["library"]])
        if parts[0] in prefix:
            new["long"] = "/".join(prefix[parts[0]] + parts[1:])
        tags.append(new)
    out = dict(lib)
    out["tags"] = tags
    out["unmerged"] = False
    for key in SECTION_ELEMENTS:
        have = {e["name"] for e in std[key]} if key != "unit_classes" else {e["name"].casefold() for e in std[key]}
        items = [json.loads(json.dumps(e)) for e in std[key]]
        for e in lib[key]:
            e = json.loads(json.dumps(e))
            nk = e["name"].casefold() if key == "unit_classes" else e["name"]
            if nk in have:
                if key == "unit_classes" and not e["attrs"]:
                    tgt = [x for x in items if x["name"].casefold() == nk][0]
                    for u in e["units"]:
                        u["attrs"].setdefault("inLibrary", [lib["library"]])
                        tgt["units"].append(u)
                continue
            e["attrs"].setdefault("inLibrary", [lib["library"]])
            for u in e.get("units", []):
                u["attrs"].setdefault("inLibrary", [lib["library"]])
            items.append(e)
            have.add(nk)
        out[key] = items
    return out


def schema_for_use(key, allsch):
    s = allsch[key]
    if s["withStandard"] and s["unmerged"]:
        std = [x for x in allsch.values() if not x["library"] and x["version"] == s["withStandard"]]
        if not std:
            raise ValueError(f"T4: standard schema {s['withStandard']} of {key} is not bundled")
        return merged_view(s, std[0])
    return s


# ---------------------------------------------------------------------------- emitters

def coq_str(s):
    return "[" + ";".join(str(ord(c)) for c in s) + "]"


def _coq_attrs(attrs, keep):
    items = []
    for k in keep:
        if k in attrs:
            v = attrs[k]
            vals = [] if v is True else v
            items.append("(" + coq_str(k) + ", [" + ";".join(coq_str(x) for x in vals) + "])")
    return "[" + ";".join(items) + "]"


def emit_coq(schema, module_name, tag_attrs=(), sections=()):
    """Gallina data for one schema.  Always: `tags : list tagdef` (Base/SchemaData.v) in registration order with the
    long name as a code-point string, the has-'#'-child flag, the node's own extensionAllowed and takesValue flags,
    and the attributes named in `tag_attrs` as (name, values) pairs.  `sections` may name any of unit_classes,
    unit_modifiers, value_classes, schema_attributes, properties: emitted as `list namedef` (units nested)."""
    L = [f"(* GENERATED by harness/schema_xml.py (translator T4) from hed/schema/schema_data/{schema['file']};",
         "   read with xml.etree, independently of hed-python.  Do not edit. *)",
         "From Coq Require Import List NArith.",
         "From HV Require Import Base.Str Base.SchemaData.",
         "Import ListNotations.",
         "Local Open Scope N_scope.",
         "",
         f"Definition version : str := {coq_str(schema['version'])}.",
         f"Definition library : str := {coq_str(schema['library'])}.",
         f"Definition with_standard : str := {coq_str(schema['withStandard'])}.",
         "",
         "Definition tags : list tagdef := ["]
    rows = []
    for t in schema["tags"]:
        a = t["attrs"]
        rows.append("  mkTag " + coq_str(t["long"]) + " "
                    + ("true" if t["takes_value_child"] else "false") + " "
                    + ("true" if "extensionAllowed" in a else "false") + " "
                    + ("true" if "takesValue" in a else "false") + " "
                    + _coq_attrs(a, tag_attrs))
    L.append(";\n".join(rows))
    L.append("].")
    for sec in sections:
        L.append("")
        L.append(f"Definition {sec} : list namedef := [")
        rows = []
        for e in schema[sec]:
            keep = sorted(e["attrs"])
            units = "[" + ";".join(
                "mkName " + coq_str(u["name"]) + " " + _coq_attrs(u["attrs"], sorted(u["attrs"])) + " []"
                for u in e.get("units", [])) + "]"
            rows.append("  mkName " + coq_str(e["name"]) + " " + _coq_attrs(e["attrs"], keep) + " " + units)
        L.append(";\n".join(rows))
        L.append("].")
    L.append("")
    return "\n".join(L)


SCHEMADATA_V = """(* Shapes of the schema data emitted by translator T4 (harness/schema_xml.py) into Gen/Schema_<v>.v. *)
From Coq Require Import List NArith.
From HV Require Import Base.Str.
Import ListNotations.

(* one <node> of the tag section, in registration (document) order *)
Record tagdef := mkTag {
  td_long : str;               (* "A/B/C" or "A/B/#" as code points *)
  td_value_child : bool;       (* the node has a direct child named # *)
  td_ext_allowed : bool;       (* the node itself carries extensionAllowed *)
  td_takes_value : bool;       (* the node itself carries takesValue *)
  td_attrs : list (str * list str)   (* selected attributes: name, values ([] = flag) *)
}.

(* an entry of another section (unit class with its units, modifier, value class, attribute, property) *)
Inductive namedef := mkName (name : str) (attrs : list (str * list str)) (units : list namedef).
"""


def write_schemadata_v():
    return C.write_if_changed(os.path.join(C.COQ, "Base", "SchemaData.v"), SCHEMADATA_V)


def gen_path(key, suffix=""):
    return os.path.join(C.COQ, "Gen", f"Schema_{key}{suffix}.v")


def translate(keys=None, tag_attrs=(), sections=(), suffix=""):
    """(Re)generate coq/Gen/Schema_<v><suffix>.v for the given schema keys (default all).  Returns the schema dicts.

    The plain flavour (no tag_attrs/sections, suffix "") is the one C03 uses; a property that needs attributes or
    other sections must pass its own non-empty `suffix` (e.g. "_units") so that two properties never rewrite each
    other's file with different content."""
    if (tag_attrs or sections) and not suffix:
        raise ValueError("T4: a flavour with attributes/sections needs its own file suffix")
    allsch = load_all()
    write_schemadata_v()
    for k in (keys or sorted(allsch)):
        if k not in allsch:
            raise ValueError(f"T4: bundled schema {k} disappeared")
        C.write_if_changed(gen_path(k, suffix),
                           emit_coq(schema_for_use(k, allsch), f"Schema_{k}{suffix}", tag_attrs, sections))
    return allsch


def dump_sexp(schema):
    """(tags (cp ...) (cp ...) ...) : long names in registration order, for the OCaml drivers."""
    return "(" + " ".join("(" + " ".join(str(ord(c)) for c in t["long"]) + ")" for t in schema["tags"]) + ")"


if __name__ == "__main__":
    import sys
    import time
    t0 = time.time()
    a = load_all()
    for k, s in a.items():
        u = schema_for_use(k, a)
        print(k, "tags", len(u["tags"]), "value-nodes", sum(1 for t in u["tags"] if t["short"] == "#"),
              "unit_classes", len(u["unit_classes"]), "units", sum(len(x["units"]) for x in u["unit_classes"]),
              "modifiers", len(u["unit_modifiers"]), "value_classes", len(u["value_classes"]),
              "attributes", len(u["schema_attributes"]), "properties", len(u["properties"]),
              "withStandard", s["withStandard"], "unmerged", s["unmerged"])
    print(f"{time.time() - t0:.2f}s")
    if len(sys.argv) > 1 and sys.argv[1] == "emit":
        translate()
